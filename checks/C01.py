"""C01 (ledger group g7): proofs in coq/Properties/C01.v over coq/Ledger/Model.v; correspondence and direct
predicates through the shared ledger engine, see lib/g7_ledger.py."""
import g7_ledger

META = {'text': "Coq theorems (no axioms) over an executable model of executeTx / contract.Execute / governance balance effects / fees / rewards with AccountState objects modelled as copies written back by explicit PutState: per-transaction value accounting for each outcome (supply + BpReward invariant), SendBalance, stake/unstake, name create/update/setOwner (repaired F18 code), voting reward, validated and produced blocks (coinbase present: supply unchanged; absent: shrinks by exactly the receipts' fee sum) and any chain of blocks, for all fee regimes/fork versions and any VM oracle. Every run executes generated blocks (transfers, governance, deploy/call/fee-delegation with scripted VM, ~25% failing) on the real executor and compares every observable with the model, and checks sum-of-RawDump-balances before/after each block directly.", 'note': 'Hypotheses: non-negative initial balances, gas price >= 0, senders are plain key accounts (no code, not the created address, not aergo.name for setOwner), repaired contract/name (fixes/F18_name_setowner_self.diff; the unrepaired behaviour is modelled too and reproduced as KNOWN-FINDING). VM effects are an oracle with the stated discipline; votes/enterprise/multicall/redeploy outside the model; sendVotingReward proved on the model only (no dpos engine).', 'technique': 'Coq proof over Gallina ledger model (std++ gmap) + vm_compute correspondence against the real chain executor + supply predicate on RawDump'}


def run(ctx):
    g7_ledger.run_check(ctx, "C01")

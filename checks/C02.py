"""C02 Deterministic execution.
Proof: coq/Properties/C02.v (sorted-permutation uniqueness, export / ranking / bucket order
independence, producer-validator agreement, dependence on durable state only, reflective
obligation over the generated inventory of map ranges).
Tie: (1) engine `determ` — the real chain package: every case is produced (real
consensus/chain GatherTXs + real executor) in three separate processes with GOMAXPROCS 1/16 and
validated (real addBlock on fresh nodes) in two more; all outputs must be byte-identical and
every produced block accepted with identical roots.  (2) translator gen_mapranges -> Gen/MapRanges.v."""
import hashlib
import json
import os
import re
import shutil
import sys
import time

sys.path.insert(0, os.path.join(os.path.dirname(os.path.dirname(os.path.abspath(__file__))), "lib"))
import vf
import g8determ as D

META = {
    "text": "25 axiom-free Coq theorems + one reflective obligation per reachable inventory site (21). FULL: unique sorted permutation for a strict total "
            "order, instantiated to stateBuffer.export (independent of map order and of the unstable sort; keys ascending), the vote "
            "ranking (VoteList.Less strict total) and the voting-power buckets (ordered by account id, canonical). "
            "FULL for the executor models: the producer (drops failing txs, ends the block on a contract timeout, stops before the first "
            "tx after the deadline, every position) builds exactly the block the validator accepts with the same block state - covered part, "
            "BpReward, receipts, internalOps, CCProposal, globals - provided dropped txs left the parts Snapshot/Rollback do not save "
            "untouched (executeTx's ordering guarantees pot/receipts/ops); a block executed then refused leaves no residue "
            "(Status.Update rollback branch). REFUTED on HEAD: execution depends on the durable state only "
            "(C02:vpr-residue-discarded-execution, F12: a producer's unconnected block). Tie to /repo on every run: "
            "gen_mapranges inventories map ranges / time.Now / rand / selects reachable from executeTx, executeBlock, GatherTXs "
            "(F43 C02:toLuaTable-map-order-before-v3 is a site); ~110 cases (transfers, tied votes, scripted DEPLOY/CALL/FEEDELEGATION "
            "outcomes with fees, coinbase, versions 0-5, deadline at every position, refused siblings) run through the real "
            "GenerateBlock/GatherTXs, real executor, real dpos.Status in 3 producer + 2 validator processes (GOMAXPROCS 1/16): bytes, roots, receipts "
            "identical, every block accepted, dropped transactions leave no trace (unsaved parts + visible-state dump), governance outcomes replayed by "
            "the Gov model, bucket order on the real package; stateBuffer.export on raw keys sharing 1/8/16/31-byte prefixes: one root over 40 "
            "repetitions, ascending order, equal to the Coq export model.",
    "note": "Trusted: Coq kernel + vm_compute (no axioms); translator gen/gen_mapranges (go/types, over-approximate static call graph over the listed "
            "packages; calls into pkg/trie, fee, internal/* not followed; C code invisible) and the 12 manually reviewed sites of Determ/Shapes.v:reviewed; "
            "engine harness/engines/determ (real NewChainService nodes, unsigned blocks, consensus = StubConsensus + real dpos.Status.Update); case "
            "generator lib/g8determ.py; the Lua VM is an oracle scripted through the overlay stub (determVM); sort.Sort/Slice return an inversion-free "
            "permutation. Modelled, not verified: validation + contract execution inside executeTx is an oracle (`core`) in Determ/BlockState.v; the "
            "agreement theorems are about those models, the full executor is exercised by the engine. Partial: goroutine scheduling of the parallel trie "
            "update is exercised (GOMAXPROCS 1 vs 16, separate processes), race freedom is not proved; permutation-level order independence of vpr.apply "
            "is proved for adjacent swaps only.",
    "technique": "Coq proofs (sorting uniqueness, producer/validator agreement) + reflective check of a source inventory + cross-process differential execution of the real chain package",
}

E = os.path.join(vf.HARNESS, "engines/determ")
GOV_KEYS = ("staking_total", "bal_system", "bal_name", "accts", "votes_bp", "votes_dao", "names", "params_state")


def tree_key(repo, extra_dirs):
    """content hash of every .go file of the tree (vendor-free module), go.mod, go.sum and the given directories"""
    h = hashlib.sha256()
    files = []
    for root, dirs, fs in os.walk(repo):
        dirs[:] = [d for d in dirs if not d.startswith(".") and d not in ("node_modules", "libtool")]
        for f in fs:
            if f.endswith(".go") or f in ("go.mod", "go.sum"):
                files.append(os.path.join(root, f))
    for d in extra_dirs:
        for root, _, fs in os.walk(d):
            files += [os.path.join(root, f) for f in fs]
    for p in sorted(files):
        h.update(os.path.relpath(p, repo).encode() + b"\0")
        try:
            h.update(open(p, "rb").read())
        except OSError:
            pass
        h.update(b"\0")
    return h.hexdigest()


def run_mode(ctx, binp, mode, lines, tag, procs):
    fin = os.path.join(ctx.workdir, "%s.in" % tag)
    with open(fin, "w") as f:
        for l in lines:
            f.write(json.dumps(l) + "\n")
    outs = []
    tmp = os.path.join(ctx.workdir, "tmp")
    os.makedirs(tmp, exist_ok=True)
    for k, gmp in enumerate(procs):
        fout = os.path.join(ctx.workdir, "%s.%d.out" % (tag, k))
        rc, log = ctx.run_bin(binp, ["-test.run", "TestVerifDetermEngine"],
                              env={"VERIF_IN": fin, "VERIF_OUT": fout, "VERIF_MODE": mode, "GOMAXPROCS": str(gmp),
                                   "ARGLIB_LEVEL": "error", "VERIF_TMP": tmp}, timeout=1500)
        if rc != 0:
            raise RuntimeError("determ engine (%s, GOMAXPROCS=%d) failed:\n%s" % (mode, gmp, log[-3000:]))
        rows = [json.loads(l) for l in open(fout)]
        if len(rows) != len(lines):
            raise RuntimeError("determ engine (%s): %d outputs for %d cases" % (mode, len(rows), len(lines)))
        outs.append(rows)
    return outs


def first_diff(a, b, path=""):
    if type(a) != type(b):
        return path
    if isinstance(a, dict):
        for k in sorted(set(a) | set(b)):
            if k not in a or k not in b:
                return path + "/" + k
            d = first_diff(a[k], b[k], path + "/" + k)
            if d:
                return d
        return None
    if isinstance(a, list):
        if len(a) != len(b):
            return path + "[len]"
        for i, (x, y) in enumerate(zip(a, b)):
            d = first_diff(x, y, "%s[%d]" % (path, i))
            if d:
                return d
        return None
    return None if a == b else path


def run(ctx):
    quick = ctx.tier == "quick"
    phase = {}
    t0 = time.time()
    # ---------------------------------------------------------------- translated inventory
    gen_out = os.path.join(ctx.workdir, "MapRanges.v")
    # The inventory is a function of the Go sources of the tree under test, go.mod/go.sum, the VM stub and
    # the translator itself: it is recomputed whenever any of them changed (content hash), reused otherwise.
    key = tree_key(ctx.repo, [os.path.join(ctx.verif, "gen/gen_mapranges"), os.path.join(vf.HARNESS, "overlay")])
    cached = os.path.join(vf.BUILD, "gen-cache", "mapranges-" + key)
    if os.path.exists(cached + ".v") and os.path.exists(cached + ".v.json") and not os.environ.get("VERIF_NO_GEN_CACHE") and quick:
        shutil.copyfile(cached + ".v", gen_out)
        shutil.copyfile(cached + ".v.json", gen_out + ".json")
        ctx.cov["inventory_cache"] = "hit " + key[:12]
    else:
        rc, log = vf.sh([os.path.join(ctx.verif, "gen/gen_mapranges/run.sh"), ctx.repo, gen_out],
                        env=dict(ctx.goenv(), VERIF_GEN_CACHE=os.path.join(vf.BUILD, "gen-cache")), timeout=900)
        if rc != 0:
            raise RuntimeError("gen_mapranges failed:\n" + log[-3000:])
        os.makedirs(os.path.dirname(cached), exist_ok=True)
        shutil.copyfile(gen_out, cached + ".v.tmp")
        shutil.copyfile(gen_out + ".json", cached + ".v.json")
        os.rename(cached + ".v.tmp", cached + ".v")
        ctx.cov["inventory_cache"] = "miss " + key[:12]
    with vf.Lock("coq"):
        os.makedirs(os.path.join(vf.COQ, "Gen"), exist_ok=True)
        vf.write_if_changed(os.path.join(vf.COQ, "Gen", "MapRanges.v"), open(gen_out).read())
    inventory = json.load(open(gen_out + ".json"))
    reach = [s for s in inventory if s.get("reachable")]
    ctx.obligations += len(reach)          # one reflective obligation per reachable site
    phase["gen_mapranges"] = round(time.time() - t0, 1)
    t0 = time.time()
    pr = ctx.prove(extra_targets=["Gov/ChainCheck.vo", "Gov/VprOrder.vo"])
    phase["prove"] = round(time.time() - t0, 1)
    t0 = time.time()
    if pr["ok"]:
        ctx.discharged += len(reach)

    ctx.cov["trusted_base"] = ["Coq 8.16.1 kernel + vm_compute", "Go toolchain, go/types", "translator gen/gen_mapranges (static call graph, shape classifier)",
                               "table of reviewed sites Determ/Shapes.v:reviewed", "overlay build of package chain (VM stub)", "engine harness/engines/determ "
                               "(real NewChainService + real consensus/chain BlockGenerator; StubConsensus-derived consensus stub, unsigned blocks)",
                               "case generator lib/g8determ.py", "sort.Sort/sort.Slice return a permutation without inversions"]
    ctx.assumptions = ["Lua VM is an oracle (stub): contract execution is outside these runs",
                       "calls into packages outside the analysed list are not followed by the inventory",
                       "race freedom of the parallel trie update is observed, not proved"]
    fails, known = [], []
    # sites that are order dependent today are findings (never accepted by sites_ok)
    for s in reach:
        if s["file"] == "contract/vm.go" and s["func"] == "toLuaTable":
            known.append(("C02:toLuaTable-map-order-before-v3", "contract/vm.go toLuaTable fills the Lua table in Go map order before hardfork 3", s))
    failing_sites = None
    if not pr["ok"]:
        rc, out = ctx.coq_eval("failing_sites", "\n".join([
            "From Coq Require Import String List.", "From Verif Require Import Determ.Shapes Gen.MapRanges.",
            "Definition F := Eval vm_compute in map (fun s => (s_file s, s_func s, s_operand s)) (sites_failing map_ranges).", "Print F."]))
        if rc == 0:
            failing_sites = re.findall(r'\("([^"]*)", "([^"]*)", "([^"]*)"\)', " ".join(out.split()))

    # ---------------------------------------------------------------- differential execution
    rc, log, binp = ctx.go_test_binary("chain", [os.path.join(E, "zz_verif_determ_engine_test.go"),
                                                 os.path.join(E, "zz_verif_determ_gather_test.go")], "determ.test")
    if rc != 0:
        raise RuntimeError("determ engine build failed:\n" + log[-3000:])
    phase["engine_build"] = round(time.time() - t0, 1)
    t0 = time.time()
    cases = []
    cdir = os.path.join(ctx.verif, "corpus", "C02")
    if os.path.isdir(cdir):
        for f in sorted(os.listdir(cdir)):
            if f.endswith(".json"):
                cases.append(json.load(open(os.path.join(cdir, f))))
    cases.append(D.twin_case("twins-f10"))
    cases.append(D.ghost_case("ghost-f12"))
    n = 24 if quick else 600
    for i in range(n):
        cases.append(D.gen_case(ctx.rng, "r%d" % i, twins=(i % 8 == 7)))
    for i in range(16 if quick else 400):
        cases.append(D.gen_vm_case(ctx.rng, "vm%d" % i))
    # fee delegation with / without amount around a dropped tx, sender repeating in the block
    fd = D.feedeleg_family(ctx.rng, "fd")
    cases += fd if not quick else ctx.rng.sample(fd, 24)
    # a refused sibling (executed, then rejected: real dpos.Status.Update(best) must clear its residue) before a valid block
    rf = D.refused_family(ctx.rng, "refused")
    cases += rf if not quick else ctx.rng.sample(rf, 16)
    # non-decimal numerals as parameter vote candidates, cast by a 2/3 majority
    nm = D.numeral_family(ctx.rng, "numeral")
    cases += nm if not quick else ctx.rng.sample(nm, 6)
    # chains crossing hardfork boundaries (fork heights configured low)
    cases += D.fork_crossing_family(ctx.rng, "forks")
    # the block-generation deadline at every position of the candidate list
    cases += D.deadline_family(ctx.rng, "dl-fixed", ver=3, public=True)
    for i in range(1 if quick else 40):
        cases += D.deadline_family(ctx.rng, "dl%d" % i)
    procs_p = [1, 16, 1] if quick else [1, 16, 1, 16, 4]
    procs_v = [16, 1]
    prods = run_mode(ctx, binp, "produce", [D.strip(c) for c in cases], "produce", procs_p)
    vals = run_mode(ctx, binp, "validate", [{"case": D.strip(c), "produced": p} for c, p in zip(cases, prods[0])], "validate", procs_v)

    phase["engine_runs"] = round(time.time() - t0, 1)
    ctx.cov["phase_seconds"] = phase
    evals, hist, nontriv = 0, {"blocks": 0, "txs": 0, "included": 0, "skipped": 0, "skip_reasons": {}}, set()
    for i, c in enumerate(cases):
        twin = bool(c.get("_twins"))
        ghost = "ghost_before" in c
        p0 = prods[0][i]
        if p0.get("fatal"):
            raise RuntimeError("determ engine: case %s: %s" % (c["id"], p0["fatal"][:2000]))
        # (1) producer runs in separate processes agree byte for byte
        for k in range(1, len(prods)):
            d = first_diff(p0, prods[k][i])
            evals += 1
            if d:
                rep = {"case": D.strip(c), "differs_at": d, "run0_GOMAXPROCS": procs_p[0], "runk_GOMAXPROCS": procs_p[k]}
                if twin:
                    known.append(("C02:votelist-tie-parity-twins", "producer output differs between processes on tied parity-twin candidates (%s)" % d, rep))
                else:
                    fails.append(("block production is not deterministic across processes: " + d, rep))
        # (2) validators agree with each other and with the producer
        for k, vrun in enumerate(vals):
            v = vrun[i]
            if v.get("fatal"):
                raise RuntimeError("determ engine (validate): case %s: %s" % (c["id"], v["fatal"][:2000]))
            evals += 1
            for bi, (pb, vb) in enumerate(zip(p0["blocks"], v["blocks"])):
                problems = []
                if vb.get("refused") == "ACCEPTED":
                    raise RuntimeError("determ engine: the sibling meant to be refused was accepted (case %s block %d)" % (c["id"], bi + 1))
                if vb.get("refused"):
                    hist["refused_siblings"] = hist.get("refused_siblings", 0) + 1
                if vb.get("add_err") or vb.get("add_panic") or not vb.get("connected"):
                    problems.append("rejected: %s%s" % (vb.get("add_err"), vb.get("add_panic") or ""))
                elif vb["node_root"] != pb["state_root"]:
                    problems.append("state root differs")
                elif vb.get("receipts_db_hex") != pb.get("receipts_db_hex") or vb.get("receipts_root_db") != pb.get("receipts_root_db"):
                    problems.append("receipts differ")
                elif any(vb["gov"].get(g) != pb["gov"].get(g) for g in GOV_KEYS):
                    problems.append("governance observables differ")
                elif vb.get("repeat_equal") is False:
                    problems.append("two fresh validators in one process disagree: %s" % vb.get("repeat_diff"))
                if problems:
                    rep = {"case": D.strip(c), "block": bi + 1, "problem": problems[0], "validator_GOMAXPROCS": procs_v[k],
                           "produced": {x: pb.get(x) for x in ("state_root", "receipts_root", "included", "skipped")}}
                    if ghost:
                        known.append(("C02:vpr-residue-discarded-execution",
                                      "a block is rejected (%s) by a node that executed the same transactions once on a discarded block state" % problems[0], rep))
                    elif twin:
                        known.append(("C02:votelist-tie-parity-twins", "validator disagrees with producer on tied parity-twin candidates (%s)" % problems[0], rep))
                    else:
                        fails.append(("producer-built block not accepted identically by the validator: " + problems[0], rep))
                    break
        for pb, blk in zip(p0["blocks"], c["blocks"]):
            hist["blocks"] += 1
            hist["txs"] += len(blk["txs"])
            hist["included"] += len(pb.get("included") or [])
            for hc in pb.get("header_changed") or []:
                fails.append(("a connected block's header changed afterwards on the producing node (its version / recomputed hash now differ from every other node's): " + hc[:300],
                              {"case": D.strip(c), "while_producing_block": pb.get("no"), "change": hc}))
            hist.setdefault("block_versions", {})
            hist["block_versions"][str(pb.get("version"))] = hist["block_versions"].get(str(pb.get("version")), 0) + 1
            for s in pb.get("skipped") or []:
                hist["skipped"] += 1
                if s.get("leak"):
                    fails.append(("a dropped transaction left a trace in the producer's block state: " + s["leak"],
                                  {"case": D.strip(c), "tx_index": s["i"], "error": s.get("err"), "leak": s["leak"]}))
                r = (s.get("err") or "")[:40]
                hist["skip_reasons"][r] = hist["skip_reasons"].get(r, 0) + 1
            kinds = tuple(sorted({t["kind"] for t in blk["txs"]}))
            nontriv.add((c["ver"], kinds, bool(pb.get("skipped"))))
    # ---------------------------------------------------------------- (d) bucket order on the real contract/system package
    t0 = time.time()
    rc, log, govbin = ctx.go_test_binary("contract/system", [os.path.join(vf.HARNESS, "engines/gov/zz_verif_gov_engine_test.go")], "gov.test", use_overlay=False)
    if rc != 0:
        raise RuntimeError("gov engine build failed:\n" + log[-3000:])
    import g8gov as G
    gscs = [json.load(open(os.path.join(ctx.verif, "corpus", "C15", "vpr_same_bucket.json")))]
    gscs += [G.gen_scenario(ctx.rng, ver=2, nacc=5) for _ in range(10 if quick else 300)]
    gin, gout = os.path.join(ctx.workdir, "gov.in"), os.path.join(ctx.workdir, "gov.out")
    with open(gin, "w") as f:
        for sc in gscs:
            f.write(json.dumps(sc) + "\n")
    rc, log = ctx.run_bin(govbin, ["-test.run", "TestVerifGovEngine"], env={"VERIF_IN": gin, "VERIF_OUT": gout, "VERIF_TMP": os.path.join(ctx.workdir, "tmp")})
    if rc != 0:
        raise RuntimeError("gov engine failed:\n" + log[-3000:])
    nb = 0
    for sc, l in zip(gscs, open(gout)):
        o = json.loads(l)
        if o.get("fatal"):
            raise RuntimeError("gov engine: " + o["fatal"][:1500])
        for k, d in enumerate(o["dumps"]):
            nb += len(d["reload"]["b"] or [])
            for w in G.vpr_buckets_sorted(d):
                fails.append(("voting power bucket not ordered by account id: its stored bytes depend on the order of insertion", {"scenario": sc, "step": k - 1, "bucket": w}))
            if d.get("panic"):
                break
    hist["vpr_buckets_checked"] = nb
    phase["vpr_bucket_order"] = round(time.time() - t0, 1)

    # ---------------------------------------------------------------- (b) stateBuffer.export on the real state/statedb package
    t0 = time.time()
    rc, log, expbin = ctx.go_test_binary("state/statedb", [os.path.join(E, "zz_verif_export_engine_test.go")], "export.test", use_overlay=False)
    if rc != 0:
        raise RuntimeError("export engine build failed:\n" + log[-3000:])
    ecs = D.export_cases(ctx.rng, 40 if quick else 1500)
    ein, eout = os.path.join(ctx.workdir, "export.in"), os.path.join(ctx.workdir, "export.out")
    with open(ein, "w") as f:
        for c in ecs:
            f.write(json.dumps(c) + "\n")
    rc, log = ctx.run_bin(expbin, ["-test.run", "TestVerifExportEngine"], env={"VERIF_IN": ein, "VERIF_OUT": eout})
    if rc != 0:
        raise RuntimeError("export engine failed:\n" + log[-3000:])
    pairs = []
    for c, l in zip(ecs, open(eout)):
        o = json.loads(l)
        if o.get("fatal"):
            fails.append(("state DB update fails on keys written in one block: " + o["fatal"][:200], {"keys": c["keys"]}))
            continue
        if len(o["roots"]) != 1:
            fails.append(("the same block written %d times from the same prior state gives %d different state roots (keys sharing a prefix reach the trie in map order)" % (c["rep"], len(o["roots"])),
                          {"keys": c["keys"], "roots": o["roots"], "orders": o["orders"][:3]}))
        for order in o["orders"]:
            if order != sorted(order):
                fails.append(("stateBuffer.export returns keys that are not in ascending byte order", {"keys": c["keys"], "exported": order}))
                break
        pairs.append((c["keys"], o["orders"][0]))
        evals += c["rep"]
    export_diff = None
    if pairs:
        rc, out = ctx.coq_eval("export_cases", D.export_cases_file(pairs))
        try:
            if rc != 0:
                raise RuntimeError(out[-2000:])
            badl = G.parse_bad_list(out, "ME", r"(\d+)(?:%nat)?")
        except RuntimeError as ex:
            export_diff = ("export model could not be evaluated", str(ex)[-1500:])
            badl = []
        if badl:
            i = int(badl[0])
            export_diff = ("stateBuffer.export and the model Determ.Export.export differ", {"keys": pairs[i][0], "exported": pairs[i][1]})
    hist["export_key_sets"] = len(ecs)
    phase["export"] = round(time.time() - t0, 1)

    # ---------------------------------------------------------------- real block executor vs governance model
    t0 = time.time()
    G.reset_names()
    items, ids = [], []
    if G.perturb("chain"):     # self-test: falsify one observed staking total of the last case
        gg = prods[0][-1]["blocks"][-1]["gov"]
        gg["staking_total"] = str(int(gg["staking_total"]) + 1)
    for c, p in zip(cases, prods[0]):
        if "ghost_before" in c:
            continue
        t = D.chain_case_to_coq(D.strip(c), p)
        if t:
            items.append(t)
            ids.append(c)
    model_diff = None
    if items:
        rc, out = ctx.coq_eval("chain_cases", D.chain_cases_file(items))
        try:
            if rc != 0:
                raise RuntimeError(out[-2000:])
            bad = G.parse_bad_list(out, "MC", r"\((\d+)(?:%nat)?, (\d+)(?:%nat)?\)")
        except RuntimeError as ex:
            model_diff = ("governance model could not be evaluated on the chain engine's observations", str(ex)[-2000:])
            bad = []
        if bad:
            i, k = int(bad[0][0]), int(bad[0][1])
            model_diff = ("block executor and governance model differ (%s of block %d)" % ("a transaction outcome" if k % 2 == 0 else "observables after connect", k // 2 + 1),
                          {"case": D.strip(ids[i]), "block": k // 2 + 1, "n_differing_cases": len(bad),
                           "produced": prods[0][cases.index(ids[i])]["blocks"][k // 2].get("gov")})
        evals += sum(len(c["blocks"]) for c in ids)
    phase["chain_vs_model"] = round(time.time() - t0, 1)
    ctx.cov["chain_cases_replayed_by_model"] = len(items)
    ctx.cov["evaluations"] = evals
    ctx.cov["traces_validated_against_impl"] = len(cases)
    ctx.cov["distinct_nontrivial"] = len(nontriv)
    ctx.cov["rule"] = ("one evaluation = one whole case (3-4 blocks) executed in one further process and compared byte for byte (producer runs) or "
                       "validated block by block on fresh nodes (validator runs); distinct = distinct (hardfork version, set of tx kinds in a block, "
                       "whether the producer had to skip) tuples")
    ctx.cov["input_distribution"] = dict(hist, cases=len(cases), producer_processes=procs_p, validator_processes=procs_v,
                                         inventory_sites=len(inventory), reachable_sites=len(reach),
                                         reachable_by_shape={sh: sum(1 for s in reach if s["shape"] == sh) for sh in sorted({s["shape"] for s in reach})})
    ctx.sample({"case": D.strip(cases[-1])["blocks"][1]["txs"][:3], "produced_block2": {k: prods[0][-1]["blocks"][1].get(k) for k in ("state_root", "included", "skipped")}})
    ctx.sample({"reachable_site": reach[0] if reach else None})

    # ---------------------------------------------------------------- decide
    seen = set()
    hard = False          # a failing input was reported as a violation
    for key, what, rep in known:
        if key not in seen:
            seen.add(key)
            hard |= bool(ctx.finding(key, what, rep))
    for what, rep in fails[:3]:
        hard |= bool(ctx.finding("C02:" + what.split(":")[0].replace(" ", "-")[:60], what, rep))
    if export_diff and not hard:
        ctx.violation("correspondence broken: " + export_diff[0], {"correspondence": export_diff[0], "cases": export_diff[1]}, no_input=True)
    if model_diff and not hard:
        ctx.violation("correspondence broken: " + model_diff[0], {"correspondence": model_diff[0], "cases": model_diff[1]}, no_input=True)
    if not pr["ok"] and not hard:
        what = "proof obligation no longer checks: %s" % pr["broken"]
        rep = {"theorem_or_file": pr["broken"], "log": pr["log"][-3000:]}
        if failing_sites:
            what = "nondeterminism inventory: site(s) without order-independence argument: " + "; ".join("%s %s [%s]" % s for s in failing_sites[:5])
            rep["sites"] = failing_sites
        ctx.violation(what, rep, no_input=True)

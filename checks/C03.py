"""C03 (ledger group g7): proofs in coq/Properties/C03.v over coq/Ledger/Model.v; correspondence and direct
predicates through the shared ledger engine, see lib/g7_ledger.py."""
import g7_ledger

META = {'text': "Coq theorems: a rejected transaction returns the pre-state; a run-time-failed transaction changes only the sender's and payer's account entries, BpReward (+fee) and appends one ERROR receipt while all other accounts, staking records, names and contract storages are identical (partial: exact sender/payer entry values follow from the supply and nonce theorems); per-outcome value accounting; a failing block leaves the ledger state unchanged (state part; indexes/best block are C05). Every run executes generated blocks on the real executor and checks on the implementation: rejected tx leaves every dumped observable unchanged and the block's state/receipt roots equal those of the same block without it; ERROR tx changes only payer balance by the fee and sender nonce; rejected blocks leave sdb root, best block and all observables unchanged.", 'note': "Snapshot/Rollback is modelled as save/restore (undo-log refinement is C12); the block-level clause about chain indexes and best block is covered with C05 (g9); roll-back inside the real VM is the oracle's assumption.", 'technique': 'Coq proof + vm_compute correspondence + full-observable residue predicates on the real executor'}


def run(ctx):
    g7_ledger.run_check(ctx, "C03")

"""C04 (ledger group g7): proofs in coq/Properties/C04.v over coq/Ledger/Model.v; correspondence and direct
predicates through the shared ledger engine, see lib/g7_ledger.py."""
import g7_ledger

META = {'text': "Coq theorems: a transaction that is not rejected carries this chain's id hash, the hash of its body and nonce = sender nonce + 1; an accepted block contains only transactions whose signature verifies for the account (or the name owner in the pre-block state). main_chain_nonces / no_tx_twice are checked on the implementation (executed nonces per account contiguous, no hash executed twice, no forged-signature block accepted, wrong chain id never executed) and through the model correspondence, not yet as induction theorems. Real secp256k1 signatures, replays, wrong key, wrong chain id, nonce gaps.", 'note': 'ECDSA is an oracle (sig_ok). Finding F23: BlockValidator consumes a stale signature-verification result after a block that failed in execution (reproduced every run; fixes/F23_stale_sign_verify.diff).', 'technique': 'Coq proof + vm_compute correspondence + nonce/hash/signature predicates on the real block validator'}


def run(ctx):
    g7_ledger.run_check(ctx, "C04")

"""C05 Chain database consistency after any history of block arrivals.
Proof: coq/Properties/C05.v over coq/ChainDB (Inv preserved by every arrival).
Correspondence: engine `chaindb` (real ChainService.addBlock over in-memory stores, real executor, signed
transfers) vs the Gallina model evaluated by vm_compute on the same block trees / arrival orders; the engine
also evaluates Inv (P1..P6) directly on the implementation after every arrival."""
import json
import os

import vf
import chaindb as cd

META = {
    "text": "18 Coq theorems, no axioms, over the executable ChainDB model (addBlock with pre-checks and errBlocks, chainProcessor with "
            "orphan resolution, executeBlock/connectToChain, side store, gather/rollback/rollforward/swapChain, block-factory path, consensus "
            "with a WAL; every durable mutation a write unit). FULL: Inv (16 clauses: best is the tip of a parent-linked executable path to "
            "genesis, height index = exactly that path, tx index complete and sound, receipts, state root = best root, Latest, no marker, "
            "in-memory system parameters = those of the state) holds at genesis and after every arrival (valid, invalid, duplicate, orphan, "
            "side branch, reorg of any depth, failed reorg, LIB veto, failed pre-check, own block), hence after every history; getTx "
            "complete/sound; findAncestor sound/complete; transient rejections leave the node untouched; a block delivered through a WAL "
            "(body pre-written, skipped or rewritten) keeps Inv while skipping an unstored body breaks it; the next valid child of best is "
            "accepted; stale parameters reject. REFUTED, both repaired in /repo (F7, F27): Inv for the unrepaired reorg and for BlockNo 0 "
            "(model flags follow the source). Tie to /repo on every run: engine chaindb (real ChainService on fresh stores, real executor, "
            "signed transfers and governance txs, scripted consensus stub incl. WAL mode) gives after every arrival the observables (result, "
            "best, Latest, state root, heights, tx index, receipts, stored, errBlocks, orphans, messages, in-memory parameters) compared by "
            "vm_compute with the model, plus direct predicates P1-P6 (Inv via queries and raw key scan), P8-P10, P11 (parameters), P12 "
            "(factory's next child of best accepted). No open finding.",
    "note": "Trusted: Coq kernel + vm_compute (no axioms); Go toolchain and cgo-free overlay; engine harness/engines/chaindb (+ state, db and "
            "contract/system shims) and generator/encoder lib/chaindb.py; consensus stub (scripted LIB, VerifyTimestamp/VerifySign, HasWAL "
            "with raft IsConnectedBlock, CommitParams as dpos). Modelled, not verified: block execution as a deterministic function apply "
            "with replay protection spent (what C01-C04 establish); system parameters as 'those of root pmem'; execution with stale "
            "parameters = rejection (worst case). Hypotheses: block ids are honest collision-free digests (F8 excluded); fewer than 128 "
            "rejected / 100 parked blocks matter only through the modelled FIFO bounds. Outside the model: IsForkEnable()=false (raft Fatal "
            "on forks), raft log entries, ResetBest, ChainVerifier, the staging slot of contract/system (F47, fixed; corpus case 14 guards "
            "it). No Inv-over-histories theorem for the WAL configuration with forks (single-step theorems + correspondence).",
    "technique": "Coq invariant proof over Gallina chain-DB model + vm_compute correspondence against real chain.ChainService",
}

F7_KEY = "C05:failed-rollforward-leaves-state-root"
NO0_KEY = "C05:blockno-zero-child-accepted"
NIL_KEY = "C05:query-nil-deref-side-block-above-best"
OWNGOV_KEY = "C05:abandoned-produced-block-leaks-staged-system-parameter"


def corpus_cases():
    d = os.path.join(vf.VERIF, "corpus", "C05")
    cs = []
    for f in sorted(os.listdir(d)):
        if f.endswith(".json"):
            cs.append(json.load(open(os.path.join(d, f))))
    return cs


def gen_cases(ctx):
    rng = ctx.rng
    quick = ctx.tier == "quick"
    cases = []
    n = 260 if quick else 4000
    for i in range(n):
        nb = rng.choice([2, 3, 4, 4, 5, 5, 6, 6, 7, 8]) if quick else rng.choice([3, 4, 5, 6, 6, 7, 8, 10, 12])
        blocks = cd.rnd_tree(rng, nb)
        c = {"id": "r%d" % i, "naccts": 3, "blocks": blocks, "arrivals": cd.rnd_arrivals(rng, blocks)}
        if rng.random() < 0.1:
            c["orphan_cap"] = rng.choice([1, 2])
        if rng.random() < 0.15:
            c["lib"] = sorted(rng.randrange(0, 3) for _ in c["arrivals"])
        if rng.random() < 0.25:            # scripted consensus pre-checks (timestamp: transient, sign: cached)
            c["pre"] = [rng.choice(["ok", "ok", "ok", "ts", "sign"]) for _ in c["arrivals"]]
            c["arrivals"] = c["arrivals"] + [a for a in c["arrivals"] if rng.random() < 0.5]     # deliver some again
            c["pre"] += ["ok"] * (len(c["arrivals"]) - len(c["pre"]))
            if "lib" in c:
                c["lib"] += [c["lib"][-1]] * (len(c["arrivals"]) - len(c["lib"]))
        if rng.random() < 0.3:             # governance: a DAO vote changes the gas price on some branch
            cd.add_gov(rng, blocks)
        if rng.random() < 0.25:            # some blocks are handed over by the node's own block factory
            kind = {b["name"]: b.get("bad", "") for b in blocks}
            gov = {b["name"] for b in blocks if b.get("gov")}      # (a produced block with a vote: corpus case 14, known finding)
            c["own"] = [(kind[a] in ("", "root")) and a not in gov and rng.random() < 0.5 for a in c["arrivals"]]
        if rng.random() < 0.3:             # consensus configuration: write-ahead log (raft), leader / follower / network deliveries
            cd.add_wal(rng, c)
        cases.append(c)
    # consensus with a WAL on a linear chain (what raft produces): every block delivered as leader (own + pre-written),
    # follower (pre-written, no block state) or from a peer / the syncer (not pre-written), some delivered twice
    for j in range(12 if quick else 200):
        ln = rng.choice([2, 3, 4, 5])
        blocks = [{"name": "w%d" % k, "parent": ("w%d" % (k - 1)) if k else "G", "txs": cd.rnd_txs(rng, 1 if k == 0 else 0, 2),
                   "bad": ""} for k in range(ln)]
        if j % 3 == 0:
            blocks[rng.randrange(ln)]["gov"] = 20
        arr = [b["name"] for b in blocks]
        kinds = [rng.choice(["leader", "follower", "net"]) for _ in arr]
        if j % 4 == 1:
            kinds = ["follower"] + ["net"] * (ln - 1)             # catch-up from a peer after the first WAL block
        c = {"id": "wal%d" % j, "naccts": 3, "blocks": blocks, "arrivals": arr, "haswal": True,
             "own": [k == "leader" and not blocks[i].get("gov") for i, k in enumerate(kinds)],
             "wal": [k in ("leader", "follower") for k in kinds]}
        c["wal"] = [w or o for w, o in zip(c["wal"], c["own"])]
        if rng.random() < 0.5:
            d = rng.randrange(ln)
            c["arrivals"].append(arr[d]); c["own"].append(False); c["wal"].append(rng.random() < 0.5)
        cases.append(c)
    # structured two-branch families (reorg geometry)
    fam = []
    for prefix in (0, 1):
        for la in (1, 2):
            for lb in (la + 1, la + 2):
                fam.append((prefix, la, lb, None))
                fam.append((prefix, la, lb, ("B", lb - 1, "root")))
                fam.append((prefix, la, lb, ("B", 0, "root")))
    for j, (p, la, lb, bad) in enumerate(fam):
        blocks = cd.two_branches(p, la, lb, bad_at=bad, shared=(j % 2 == 0))
        names = [b["name"] for b in blocks]
        if quick:
            order = list(names)
            if j % 3 == 1:
                rng.shuffle(order)
            cases.append({"id": "f%d" % j, "naccts": 3, "blocks": blocks, "arrivals": order})
        else:
            perms = cd.all_orders(names) if len(names) <= 6 else [rng.sample(names, len(names)) for _ in range(200)]
            for k, order in enumerate(perms):
                cases.append({"id": "f%d_%d" % (j, k), "naccts": 3, "blocks": blocks, "arrivals": list(order)})
    # forged numbers on side branches: a child of a non-root side block claiming a number above the best height
    # (gather is the only place that checks the numbering of a side-branch block against its parent)
    for j, (la, lb, gap) in enumerate([(3, 1, 1), (3, 2, 1), (2, 1, 2), (4, 2, 1), (3, 1, 3)] if quick else
                                      [(la, lb, gap) for la in (2, 3, 4) for lb in (1, 2, 3) for gap in (1, 2, 3) if lb < la]):
        blocks = cd.two_branches(j % 2, la, lb, shared=False)
        last_b = "B%d" % (lb - 1)
        no = (j % 2) + la + gap                      # above the best height (prefix + la)
        blocks.append({"name": "X", "parent": last_b, "txs": [{"from": 0, "to": 2, "amt": 1}], "bad": "", "no": no})
        blocks.append({"name": "X2", "parent": "X", "txs": [], "bad": ""})
        names = [b["name"] for b in blocks]
        cases.append({"id": "gap%d" % j, "naccts": 3, "blocks": blocks, "arrivals": list(names)})
        if not quick:
            o = list(names)
            rng.shuffle(o)
            cases.append({"id": "gap%d_s" % j, "naccts": 3, "blocks": blocks, "arrivals": o})
    # forged numbers on ORPHANS resolved right behind a newly connected main-chain tip (child delivered before its parent):
    # resolveOrphan's "exactly parent+1" is the only number test such a block meets
    fam = [(pl, d) for pl in (1, 2, 3) for d in ("+2", "+3", "+5", "same", "zero")]
    if quick:
        fam = [(1, "+2"), (2, "+2"), (3, "+3"), (2, "+5"), (2, "same"), (1, "zero"), (3, "+2")]
    for j, (pl, d) in enumerate(fam):
        blocks = [{"name": "m%d" % k, "parent": ("m%d" % (k - 1)) if k else "G", "txs": cd.rnd_txs(rng, 1 if k == 0 else 0, 2), "bad": ""}
                  for k in range(pl)]
        par = "m%d" % (pl - 1)                          # number pl
        no = {"+2": pl + 2, "+3": pl + 3, "+5": pl + 5, "same": pl, "zero": 0}[d]
        blocks.append({"name": "X", "parent": par, "txs": [{"from": 0, "to": 2, "amt": 1}], "bad": "", "no": no})
        blocks.append({"name": "X2", "parent": "X", "txs": [], "bad": ""})
        blocks.append({"name": "Y", "parent": par, "txs": [{"from": 1, "to": 2, "amt": 1}], "bad": ""})     # the real next block
        blocks.append({"name": "Y2", "parent": "Y", "txs": [], "bad": ""})
        pre = ["m%d" % k for k in range(pl - 1)]
        orders = [pre + ["X", par, "Y", "Y2"], pre + ["X2", "X", par, "Y", "Y2"]]
        if not quick:
            orders.append(pre + ["X", "Y", par, "Y2", "X2"])
        for k, o in enumerate(orders if not quick else orders[: 1 + (j % 2)]):
            cases.append({"id": "orph%d_%d" % (j, k), "naccts": 3, "blocks": blocks, "arrivals": o})
    return cases


def classify(case, out):
    """Direct-predicate failures of a case -> (key, what) or None."""
    preds = [(i, p) for i, st in enumerate(out["steps"]) for p in st["pred"]]
    # P9: a rejection for a transient reason (future timestamp, stale produced block) must not touch the node
    prev = None
    for i, st in enumerate(out["steps"]):
        nm = st["arrive"]
        # P10: a block produced by the node itself that does not extend the current best block is stale: never stored
        prewritten = bool(case.get("haswal") and st.get("wal"))     # the consensus WAL stored the body before the delivery
        if st.get("own") and not preds and nm in out["blocks"] and not prewritten:
            before = prev["best"] if prev is not None else out["genesis"]["id"]
            was_stored = prev["stored"][nm] if prev is not None else False
            if out["blocks"][nm]["prev"] != before and not was_stored and st["stored"][nm]:
                return "C05:stale-produced-block-stored", "own block %s does not extend the best block but is stored at step %d (res %s)" % (nm, i, st["res"])
        transient = st["res"] == "err" and (st.get("pre") == "ts" or "becomes stale" in st["err"])
        if transient and not preds:
            if st["bad"][nm]:
                return "C05:transient-rejection-cached", "block %s rejected for a transient reason (%s) is put into errBlocks at step %d" % (nm, st["err"][:40], i)
            keys = ("best", "heights", "sdbroot", "orphans") if prewritten else ("best", "heights", "stored", "sdbroot", "orphans", "rawtx")
            if prev is not None and any(st[k] != prev[k] for k in keys):
                return "C05:transient-rejection-mutates", "a transient rejection changed the node at step %d" % i
        prev = st
    if not preds:
        # P8: no query of the public surface may panic
        for i, st in enumerate(out["steps"]):
            for nm, rc in st["rcpt"].items():
                if rc[1] == "panic":
                    return NIL_KEY, "getReceipts(%s) panics (nil main-chain block at the number of a stored side-branch block) at step %d" % (nm, i)
            for t, s in st["tx"].items():
                if s[0] == "panic":
                    return NIL_KEY, "getTx panics (nil main-chain block) at step %d" % i
        return None
    if any((b.get("no") == 0) for b in case["blocks"]):
        return NO0_KEY, "block with BlockNo 0 whose parent is the tip is connected as main chain: " + preds[0][1]
    i0 = preds[0][0]
    # P11/P12 after a block produced by the node itself, containing an effective DAO vote, was refused (stale)
    govs = {b["name"] for b in case["blocks"] if b.get("gov")}
    leaked = any(st.get("own") and st["arrive"] in govs and st["res"] == "err" for st in out["steps"][:i0 + 1])
    if leaked and all(p.startswith("P11") or p.startswith("P12") for _, p in preds):
        return OWNGOV_KEY, ("a block produced by the node itself executed a DAO vote (new value staged in contract/system), was "
                            "then refused as stale, and nothing discarded the staged value: the next block connected commits it; "
                            "the in-memory system parameters differ from the state and every later fee-paying block is rejected: "
                            + preds[0][1])
    reorg_failed = any("reorg failed" in st["err"] for st in out["steps"][:i0 + 1])
    if reorg_failed and all(p.startswith("P6") or p.startswith("P7") for _, p in preds):
        return F7_KEY, "after a failed rollforward the state root stays inside the abandoned branch: " + preds[0][1]
    return "C05:pred:" + preds[0][1].split(" ")[0], "invariant clause fails on the implementation: " + preds[0][1]


def run(ctx):
    pr = ctx.prove(extra_targets=["ChainDB/Corr.vo"])
    ctx.cov["trusted_base"] = ["Coq 8.16.1 kernel + vm_compute", "Go toolchain + cgo-free overlay (VM stub unused: plain transfers)",
                               "engine harness/engines/chaindb + generator lib/chaindb.py", "consensus stub (SBP semantics, scripted LIB)",
                               "apply/spent abstraction of block execution (C01-C04)"]
    ctx.assumptions = ["block identifiers are honest, collision-free digests (hash_field = digest; F8 is g2's finding)",
                       "for a source tree without the F27 repair (isMainChain height test for BlockNo 0) additionally: no arriving block carries BlockNo 0",
                       "fewer than 128 rejected blocks / 100 parked orphans per history (LRU bounds)"]
    eng = cd.build_engine(ctx)
    f7_fixed = cd.source_has_f7_fix(ctx.repo)
    corpus = corpus_cases()
    cases = corpus + gen_cases(ctx)
    outs = cd.run_engine(ctx, eng, cases, "c05")
    # model correspondence; corpus cases with forged ids are outside the model's hypothesis but still modelled
    mi = [i for i, c in enumerate(cases) if not c.get("nomodel")]      # "nomodel": reproduction of a known finding outside the model
    ok, bad, detail = cd.model_diff(ctx, [cases[i] for i in mi], [outs[i] for i in mi], f7_fixed, "c05cases")
    bad = [mi[i] for i in (bad or [])]
    corr_broken = None
    if not ok:
        corr_broken = ("model could not be evaluated", detail)
    elif bad:
        i = bad[0]
        rows, exp = cd.model_rows(ctx, cases[i], outs[i], f7_fixed, "c05diff")
        corr_broken = ("model/implementation differ on %d case(s)" % len(bad),
                       {"case": cases[i], "diff": cd.first_diff(rows, exp), "others": [cases[j]["id"] for j in bad[1:6]]})
    # direct predicate
    fails = []
    nontriv = set()
    dist = {"arrivals": 0, "reorg": 0, "orphan": 0, "err": 0, "cached": 0, "known": 0, "bad_blocks": 0}
    for c, o in zip(cases, outs):
        if "error" in o and o.get("error"):
            raise RuntimeError("engine case error: %s" % o["error"])
        k = classify(c, o)
        if k:
            fails.append((k, c))
        prev_heights = None
        for st in o["steps"]:
            dist["arrivals"] += 1
            dist[st["res"]] = dist.get(st["res"], 0) + 1
            if st["put"] or (prev_heights and st["heights"][:len(prev_heights)] != prev_heights and len(st["del"]) > 1):
                dist["reorg"] += 1
            prev_heights = [h for h in st["heights"]]
        dist["bad_blocks"] += sum(1 for b in c["blocks"] if b.get("bad"))
        shape = (len(c["blocks"]), tuple(st["res"] for st in o["steps"]), tuple(len(st["put"]) for st in o["steps"]),
                 tuple(st["bestno"] for st in o["steps"]))
        nontriv.add(shape)
    for c, o in list(zip(cases, outs))[:2]:
        ctx.sample({"case": c, "last_step": {k: o["steps"][-1][k] for k in ("res", "bestno", "heights", "pred")}})
    ctx.cov["evaluations"] = dist["arrivals"]
    ctx.cov["traces_validated_against_impl"] = len(cases)
    ctx.cov["distinct_nontrivial"] = len(nontriv)
    ctx.cov["rule"] = ("block trees (<=3 branches, shared prefixes, shared/unshared transfers, invalid block of kind root/exec/txroot, "
                       "forged numbers, duplicates, small orphan pools, LIB streams) x arrival orders; distinct = distinct "
                       "(tree size, per-arrival result class, per-arrival #MemPoolPut, per-arrival best height) signatures")
    ctx.cov["input_distribution"] = dict(dist, cases=len(cases), corpus=len(corpus), f7_fixed_in_source=f7_fixed)
    if ctx.tier != "quick":
        ctx.cov["exhaustive"] = False
    # ---- decide
    seen = set()
    for (key, what), c in fails:
        if key in seen:
            continue
        seen.add(key)
        ctx.finding(key, what, c)
    real_fail = bool(ctx.violations)
    if not pr["ok"] and not real_fail:
        ctx.violation("proof obligation no longer checks: %s" % pr["broken"],
                      {"theorem_or_file": pr["broken"], "log": pr["log"][-3000:]}, no_input=True)
    if corr_broken and not real_fail:
        ctx.violation("correspondence broken: " + corr_broken[0], {"correspondence": corr_broken[0], "detail": corr_broken[1]},
                      no_input=True)

"""C06 Crash recovery: every crash point between durable writes leaves a recoverable, consistent chain.
Proof: coq/Properties/C06.v (restart on a consistent store; every crash point of a main-chain connection).
Correspondence: journaling KV store under chain DB and state DB of the real ChainService; for every scenario and EVERY
prefix of the journal: rebuild both stores, run the real NewChainService (Init) + Recover, evaluate the C05 invariant,
legitimacy of the best block, state availability, replay the arrivals and compare with the crash-free run; the
sequence of write units (store, kind, key classes) is diffed against the model's journal."""
import json
import os
import re

import vf
import chaindb as cd

META = {
    "text": "15 Coq theorems, no axioms. FULL: restart (loadChainData, RecoverChainMapping, sdb init, Recover) on the store of any state with "
            "the C05 invariant gives the same best, Inv, an available state root; for EVERY prefix of the write units of a main-chain "
            "connection, of main-chain orphan runs, of side stores and of a reorganisation of any depth (rollforward commits, marker, "
            "deleteOldReceipts, swapTxMapping, swapChainMapping bulk, marker delete) the restarted node satisfies Inv on the old tip (before "
            "the marker) or on the new tip holding exactly the crash-free final store (after it); every prefix of the OPERATIONS inside the "
            "tx-delete and swapChainMapping bulks (general theorem over predicate Rec); a second crash during the recovery (idempotent); "
            "replay convergence for a connection; unit sequences exact; recovery_before_reload: the redone reorg only moves the state root, "
            "the final reloadSystemParams re-establishes 'parameters in memory = state', after which the next valid block is accepted. "
            "REFUTED = open findings: replay after a crash before the marker does not reorganise "
            "(C06:crash-before-reorg-marker-replay-does-not-reorganise); a partial flush inside the RecoverChainMapping bulk is unloadable "
            "(C06:partial-flush-of-RecoverChainMapping-bulk-unloadable). Tie to /repo on every run: journaling KV under both stores of the "
            "real ChainService; for every journal prefix, cuts inside bulks and a second crash in a journaled recovery: real "
            "NewChainService+Recover, P1-P6, P11 parameters, P12 next child accepted, best legit, marker gone, replay vs crash-free node; the "
            "code's write-unit sequence is diffed with the model journal; the real dpos.Status (g5's engine) restarted inside its replay window must report the same LIB sequence as without the restart.",
    "note": "Trusted: Coq kernel + vm_compute (no axioms); journaling store (zz_verif_journal_test.go, registered as a db implementation "
            "through an overlay file) as the model of db.DB: a committed transaction, a flushed bulk and a single Set are atomic and durable "
            "in issue order except where the engine cuts a bulk explicitly; badger below db.DB; engine, factory node and lib/chaindb.py; "
            "consensus stub (LIB 0 after restart). Modelled, not verified: apply/spent abstraction of execution; the state-commit bulk as one "
            "operation (its inner cuts are exercised on the real code only); system parameters as 'those of root pmem'. Hypotheses: "
            "collision-free block ids; every scenario block changes the state root (the test genesis root has no marker). Third open finding "
            "C06:replay-differs-after-failed-reorg-of-orphan-chain is a consequence of C07's orphan-tail finding (the replay reaches a better "
            "state). Not proved: convergence for side-branch runs, double crash with cuts inside bulks (engine only).",
    "technique": "Coq proof (restart, main-chain crash points) + exhaustive crash-point replay of the real code over a journaling KV store",
}

REPLAY_KEY = "C06:crash-before-reorg-marker-replay-does-not-reorganise"
TAIL6_KEY = "C06:replay-differs-after-failed-reorg-of-orphan-chain"
RCMP_KEY = "C06:partial-flush-of-RecoverChainMapping-bulk-unloadable"
CLS = {"latest": 1, "height": 2, "blk": 3, "tx": 4, "rcpt": 5, "marker": 6, "statemarker": 7}


def corpus_cases():
    d = os.path.join(vf.VERIF, "corpus", "C06")
    return [json.load(open(os.path.join(d, f))) for f in sorted(os.listdir(d)) if f.endswith(".json")]


def crash_opts(ctx, c, full=False):
    """partial = cuts inside bulks, recrash = second crash during the recovery itself"""
    if full or ctx.tier != "quick":
        c["partial"], c["recrash"] = "all", "ops"
    else:
        c["partial"], c["recrash"] = "ends", "units"
    return c


def gen_cases(ctx):
    rng = ctx.rng
    quick = ctx.tier == "quick"
    cases = []
    geo = [(0, 1, 2), (1, 1, 2), (0, 2, 3), (1, 2, 4), (0, 1, 3)]
    for j, (p, la, lb) in enumerate(geo if quick else geo + [(2, 2, 3), (2, 3, 4), (0, 3, 4), (1, 3, 5)]):
        blocks = cd.two_branches(p, la, lb, shared=(j % 2 == 0))
        # governance: an effective DAO vote (gas price) on the new branch (or on the old one): the in-memory system
        # parameters after a recovery must be those of the recovered best block (P11), its next valid child accepted (P12)
        for b in blocks:
            if b["name"] == ("B0" if j % 3 != 2 else "A0"):
                b["gov"] = 20
        names = [b["name"] for b in blocks]
        cases.append(crash_opts(ctx, {"id": "g%d" % j, "naccts": 3, "blocks": blocks, "arrivals": list(names), "mode": "crash"}))
        a_first = [n for n in names if n[0] in "pA"]
        b_names = [n for n in names if n[0] == "B"]
        cases.append({"id": "g%dr" % j, "naccts": 3, "blocks": blocks, "arrivals": a_first + list(reversed(b_names)), "mode": "crash"})
    # the same reorganisations under a consensus whose IsConnectedBlock only knows MAIN-chain blocks (raft / StubConsensus
    # semantics, engine `haswal`): a stored side-branch block that is delivered again is processed again, so after a crash before
    # the reorg marker feeding the same blocks again MUST converge (the known replay finding is specific to the SBP/DPoS test
    # "stored under its hash")
    for j, (p, la, lb) in enumerate(geo[:3] if quick else geo):
        blocks = cd.two_branches(p, la, lb, shared=(j % 2 == 1))
        names = [b["name"] for b in blocks]
        cases.append({"id": "w%d" % j, "naccts": 3, "blocks": blocks, "arrivals": list(names), "mode": "crash", "haswal": True})
    for i in range(6 if quick else 300):
        blocks = cd.rnd_tree(rng, rng.choice([3, 4, 5, 6]), pbad=0.2, pno=0.0)
        for b in blocks:                          # every block carries a tx: empty test-genesis root has no state marker
            if not b["txs"]:
                b["txs"] = cd.rnd_txs(rng, 1, 1)
        if rng.random() < 0.6:
            cd.add_gov(rng, blocks)
        c = {"id": "r%d" % i, "naccts": 3, "blocks": blocks, "arrivals": cd.rnd_arrivals(rng, blocks, dup=0.0), "mode": "crash"}
        cases.append(crash_opts(ctx, c) if (not quick or i < 2) else c)
    return cases


def unit_codes(u):
    ops = []
    for c in u["classes"]:
        d = c.startswith("-")
        nm = c[1:] if d else c
        if nm in CLS:
            ops.append(CLS[nm] * 2 + (1 if d else 0))
    return [0 if u["store"] == "chain" else 1, {"set": 0, "tx": 1, "bulk": 2}[u["kind"]]] + ops


def model_units(ctx, cases, outs, f7_fixed):
    terms = [cd.coq_case(c, o, f7_fixed)[0] for c, o in zip(cases, outs)]
    txt = cd.HEADER + ["Definition cases : list case := [%s]." % ";\n".join(terms),
                       "Definition UU := Eval vm_compute in map case_units cases.", "Print UU."]
    rc, o = ctx.coq_eval("c06units", "\n".join(txt))
    if rc != 0:
        return None, o[-1500:]
    flat = " ".join(o.split())
    m = re.search(r"UU = (\[.*\]) : list", flat)
    if not m:
        return None, flat[-500:]
    body = m.group(1)
    res, depth, cur_case, cur_unit, num = [], 0, None, None, ""
    for ch in body:
        if ch == "[":
            depth += 1
            if depth == 2:
                cur_case = []
            elif depth == 3:
                cur_unit = []
        elif ch == "]":
            if num:
                cur_unit.append(int(num)); num = ""
            if depth == 3:
                cur_case.append(cur_unit)
            elif depth == 2:
                res.append(cur_case)
            depth -= 1
        elif ch.isdigit():
            num += ch
        else:
            if num:
                cur_unit.append(int(num)); num = ""
    return res, ""


def benign_diff(kr, o, has_bad=False):
    """Replay reached the same best block and the same main chain; the stores differ only by additional
    side-branch blocks/receipts/state: a block rejected as a main-chain candidate in the crash-free run (not stored) is
    stored unvalidated as a side block when it is re-delivered after the tip has moved on."""
    d = kr.get("diff") or {}
    ch = d.get("chain") or []
    stt = d.get("state") or []
    # the other direction: the crash-free node parked an invalid block as an orphan, rejected it when its parent arrived
    # (the PARENT's hash goes to errBlocks) and stored it unvalidated as a side block at the second delivery, while the
    # replaying node (parent already connected) executes it as a main-chain candidate, caches it in errBlocks and never stores it
    ok_ch = ("extra:blk", "extra:rcpt") + (("missing:blk",) if has_bad else ())
    return (kr.get("replay_best") == o["final"]["best"] and bool(ch or stt)
            and all(x.startswith(ok_ch) for x in ch) and all(x.startswith("extra:") for x in stt))


def run(ctx):
    pr = ctx.prove(extra_targets=["ChainDB/Corr.vo"])
    ctx.cov["trusted_base"] = ["Coq 8.16.1 kernel + vm_compute", "Go toolchain + overlay", "journaling KV store + engine (harness/engines/chaindb)",
                               "atomicity of committed transactions / flushed bulks below db.DB", "consensus stub (LIB 0 after restart)"]
    ctx.assumptions = ["a committed DB transaction, a flushed bulk and a single Set are atomic and durable in issue order across both stores",
                       "block identifiers are collision-free digests; no BlockNo 0 blocks", "every block of a scenario changes the state root (the test genesis root is empty and has no marker)"]
    eng = cd.build_engine(ctx)
    f7_fixed = cd.source_has_f7_fix(ctx.repo)
    corpus = corpus_cases()
    for c in corpus:
        c["mode"] = "crash"
        crash_opts(ctx, c, full=True)          # every inner cut and every second-level op cut on the corpus
        if c.get("big"):                       # a block with more transactions than any batching constant (1001): unit boundaries only
            c["partial"], c["recrash"], c["probe"] = "none", "none", "none"
    cases = corpus + gen_cases(ctx)
    outs = cd.run_engine(ctx, eng, cases, "c06")
    fails = []
    npoints = 0
    nbenign = [0]
    nrecrash = [0]
    ninner = 0
    kinds = set()
    for c, o in zip(cases, outs):
        units = o["units"]
        ua = o["unit_arrival"]
        for kr in o["crash"]:
            npoints += 1
            k = kr["k"]
            if kr.get("p", 0):
                ninner += 1
            what = None
            if kr["init_panic"]:
                what = ("C06:init-panic", "Init panics after crash at unit %d: %s" % (k, kr["init_panic"][:80]))
            elif kr["recover_err"]:
                what = ("C06:recover-error", "Recover fails after crash at unit %d: %s" % (k, kr["recover_err"][:80]))
            elif kr["pred"]:
                what = ("C06:inv:" + kr["pred"][0].split(" ")[0], "invariant fails after crash at unit %d + recovery: %s" % (k, kr["pred"][0]))
            elif kr["marker_after"]:
                what = ("C06:marker-left", "reorg marker still present after recovery (crash at unit %d)" % k)
            elif not (kr["legit"] or kr.get("legit_mid")):
                what = ("C06:best-not-legit", "best block after crash at unit %d + recovery is neither the old nor the new tip" % k)
            elif not kr["converged"] and benign_diff(kr, o, any(b.get("bad") for b in c["blocks"])):
                nbenign[0] += 1
            elif not kr["converged"] and any("reorg failed" in st["err"] for st in o.get("steps", [])) and any(b.get("bad") for b in c["blocks"]):
                # the crash-free run itself was held back by the C07 orphan-tail finding (reorg towards an invalid parked tail
                # failed, the valid longer prefix was not adopted); after a restart the orphan pool is empty and the replay adopts it
                what = (TAIL6_KEY, "crash at unit %d: replay reaches a longer valid branch than the crash-free run, which was blocked by a failed reorg towards an invalid orphan tail" % k)
            elif not kr["converged"]:
                arr = ua[k] if k < len(ua) else None
                later_marker = arr is not None and any(("marker" in units[j]["classes"]) for j in range(k, len(units)) if ua[j] == arr)
                if later_marker and kr["best"] == kr.get("old_tip") and not c.get("haswal"):
                    what = (REPLAY_KEY, "crash at unit %d (during a reorganisation, before the marker): restart on the old tip, replay of the same blocks does not reorganise" % k)
                else:
                    what = ("C06:not-converged", "replay after crash at unit %d does not reach the crash-free final state" % k)
            if what:
                fails.append((what[0], what[1], {"case": c, "k": k, "p": kr.get("p", 0), "crash": {x: y for x, y in kr.items() if x != "recrash"}}))
            r2 = kr.get("recover2") or {}
            if r2.get("pred"):
                fails.append(("C06:recover2-inv:" + r2["pred"][0].split(" ")[0],
                              "invariant fails after the journaled recovery following the crash at unit %d: %s" % (k, r2["pred"][0]),
                              {"case": c, "k": k, "p": kr.get("p", 0), "recover2": r2}))
            if kr.get("recrash_error"):
                fails.append(("C06:recrash-start", "journaled second start failed after crash at unit %d: %s" % (k, kr["recrash_error"][:80]),
                              {"case": c, "k": k}))
            for rr in kr.get("recrash") or []:
                nrecrash[0] += 1
                w2 = None
                rcm_inner = rr.get("p2", 0) > 0 and any(x.startswith("-height") for x in rr.get("unit2_classes", []))
                if rr["init_panic"]:
                    w2 = ((RCMP_KEY if rcm_inner else "C06:recrash-init-panic"),
                          "second crash (unit %d op %d of the recovery after first crash at unit %d/%d): node cannot start: %s"
                          % (rr["k2"], rr.get("p2", 0), k, kr.get("p", 0), rr["init_panic"][:80]))
                elif rr["recover_err"] and rr["recover_err"] != (kr.get("recover2") or {}).get("recover_err", ""):
                    w2 = ("C06:recrash-recover-error", "Recover fails after a second crash (k=%d,k2=%d): %s" % (k, rr["k2"], rr["recover_err"][:80]))
                elif rr["pred"]:
                    w2 = ("C06:recrash-inv:" + rr["pred"][0].split(" ")[0], "invariant fails after a second crash (k=%d,k2=%d,p2=%d): %s" % (k, rr["k2"], rr.get("p2", 0), rr["pred"][0]))
                elif rr["marker_after"]:
                    w2 = ("C06:recrash-marker-left", "marker left after a second crash (k=%d,k2=%d)" % (k, rr["k2"]))
                elif not rr["same_final"]:
                    w2 = ("C06:recrash-not-idempotent", "recovery after a second crash (k=%d,k2=%d,p2=%d) ends in a different store" % (k, rr["k2"], rr.get("p2", 0)))
                if w2:
                    fails.append((w2[0], w2[1], {"case": c, "k": k, "p": kr.get("p", 0), "recrash": rr}))
        for u in units:
            kinds.add((u["store"], u["kind"], tuple(sorted(set(u["classes"])))))
    # write-unit sequence vs model journal
    corr_broken = None
    mu, err = model_units(ctx, cases, outs, f7_fixed)
    if mu is None:
        corr_broken = ("model journal could not be evaluated", err)
    else:
        for c, o, m in zip(cases, outs, mu):
            impl = [unit_codes(u) for u in o["units"]]
            norm = lambda us: [[u[0], u[1]] + (sorted(u[2:]) if (u[1] == 2 and all(x == 9 for x in u[2:])) else u[2:]) for u in us]
            if norm(impl) != norm(m):
                j = next((i for i in range(min(len(impl), len(m))) if norm(impl)[i] != norm(m)[i]), min(len(impl), len(m)))
                corr_broken = ("write-unit sequence of the code differs from the model's units_of",
                               {"case": c, "unit": j, "impl": impl[j:j + 3], "model": m[j:j + 3], "n_impl": len(impl), "n_model": len(m)})
                break
    ok, bad, detail = cd.model_diff(ctx, cases, outs, f7_fixed, "c06cases")
    if not ok:
        corr_broken = corr_broken or ("model could not be evaluated", detail)
    elif bad:
        corr_broken = corr_broken or ("model/implementation differ on the crash-free trace", {"case": cases[bad[0]]})
    ctx.cov["evaluations"] = npoints + nrecrash[0]
    ctx.cov["traces_validated_against_impl"] = len(cases)
    ctx.cov["distinct_nontrivial"] = len(kinds)
    ctx.cov["rule"] = "crash points = every prefix of the joint journal of every scenario (linear, side, orphan runs, reorganisations of depth 1..4); distinct = distinct (store, kind, key-class set) write-unit shapes cut"
    ctx.cov["input_distribution"] = {"scenarios": len(cases), "corpus": len(corpus), "crash_points": npoints,
                                     "units": sum(len(o["units"]) for o in outs), "f7_fixed_in_source": f7_fixed,
                                     "converged_modulo_extra_side_blocks": nbenign[0],
                                     "inner_bulk_cuts": ninner, "second_level_crash_points": nrecrash[0]}
    ctx.cov["exhaustive"] = True   # every journal prefix of the listed scenarios
    ctx.sample({"case": cases[0]["id"], "units": outs[0]["units"][:6]})
    # consensus side of "same final state as a run without the crash": the real dpos.Status restarted inside the replay window
    for f in cd.dpos_restart_family(ctx):
        fails.append((f["key"], f["what"], f["replay"]))
    seen = set()
    for key, text, rep in fails:
        if key in seen:
            continue
        seen.add(key)
        ctx.finding(key, text, rep)
    real = bool(ctx.violations)
    if not pr["ok"] and not real:
        ctx.violation("proof obligation no longer checks: %s" % pr["broken"], {"theorem_or_file": pr["broken"], "log": pr["log"][-3000:]}, no_input=True)
    if corr_broken and not real:
        ctx.violation("correspondence broken: " + corr_broken[0], {"correspondence": corr_broken[0], "detail": corr_broken[1]}, no_input=True)

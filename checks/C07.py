"""C07 Fork choice: reorganisation reaches the longest valid branch and its exact state.
Proof: coq/Properties/C07.v (main chain after any history is an executable path whose end state is the node's
state; a completed swap installs the gathered branch).  Correspondence + independent predicates: engine `chaindb`
on competing branches, compared with the model, with a reference node fed only the winning branch, and with a
Python re-computation of the longest available valid branch and of txs(old) minus txs(new)."""
import json
import os

import vf
import chaindb as cd

META = {
    "text": "11 Coq theorems, no axioms. FULL: after every history the main chain is a parent-linked path from genesis on which every block "
            "executes on its predecessor's root and the node's state is the tip's (an invalid block is never on it); swapChain installs "
            "exactly the gathered branch; gather finds exactly an available branch and the reorganisation towards a fully stored, valid, "
            "longer branch forking at or above the LIB succeeds (best = its tip, state = its state, Inv); equal/shorter branches and branches "
            "forking below the LIB never displace; MemPoolPut = txs(old) minus txs(new); winner_followed: after the switch the in-memory "
            "parameters are the winner's and its next valid block is accepted. PARTIAL: best_is_longest_available as an invariant over all "
            "histories under the hypothesis that an arrival pulling parked orphans in does not end in an error. REFUTED without it = open "
            "finding C07:orphan-chain-invalid-tail-blocks-reorg (reorganize() tries only the last block of an orphan run). Tie to /repo on "
            "every run: engine chaindb on branch geometries (incl. a DAO vote on one branch) and random trees: model correspondence by "
            "vm_compute; reference node fed only the winner (best, state, dump, balances); Python recomputation of the longest available "
            "branch, no-displace, below-LIB, returned txs; P11/P12; restart after every arrival and reorganisations cut at every write unit + "
            "recovery; a real MemPool behind the recorded MemPoolDel/MemPoolPut trace (Q1-Q3).",
    "note": "Trusted: Coq kernel + vm_compute (no axioms); engine, reference node, pool engine (package mempool, replays the recorded trace "
            "into a real MemPool over a real ChainStateDB with synthetic blocks of the same senders/nonces) and the Python predicates in "
            "checks/C07.py and lib/chaindb.py; consensus stub supplying a monotone LIB stream (C08). Modelled, not verified: apply/spent "
            "abstraction of execution; system parameters as 'those of root pmem'. Hypotheses: collision-free block ids (F8 excluded); LIB "
            "monotone. Why the open finding is not repaired: trying every connected block of an orphan run (or re-running needReorg on a "
            "failed tail) changes fork-choice behaviour and was left to the maintainers; the node recovers as soon as a further block of the "
            "branch arrives.",
    "technique": "Coq invariant proof + vm_compute correspondence + differential reference node on real chain.ChainService",
}

TAIL_KEY = "C07:orphan-chain-invalid-tail-blocks-reorg"
F7_KEY = "C07:failed-rollforward-leaves-state-root"


def corpus_cases():
    d = os.path.join(vf.VERIF, "corpus", "C07")
    return [json.load(open(os.path.join(d, f))) for f in sorted(os.listdir(d)) if f.endswith(".json")]


def gen_cases(ctx):
    rng = ctx.rng
    quick = ctx.tier == "quick"
    cases = []
    geo = []
    maxd = 2 if quick else 4
    for prefix in range(0, 2 if quick else 3):
        for la in range(1, maxd + 1):
            for lb in range(1, maxd + 2):
                geo.append((prefix, la, lb, None))
                if lb > la:
                    for pos in range(lb):
                        geo.append((prefix, la, lb, ("B", pos, rng.choice(["root", "root", "exec"]))))
    if quick:
        geo = rng.sample(geo, min(len(geo), 60))
    for j, (p, la, lb, bad) in enumerate(geo):
        blocks = cd.two_branches(p, la, lb, bad_at=bad, shared=(j % 2 == 0), txful=(j % 3 != 0))
        if j % 3 != 1:                              # an effective DAO vote (gas price) on one of the competing branches
            gb = rng.choice(["A0", "B0", "B%d" % (lb - 1)])
            for b in blocks:
                if b["name"] == gb and not b.get("bad") and not (bad and bad[0] == gb[0] and bad[1] < int(gb[1:])):
                    b["gov"] = rng.choice([10, 20])
        names = [b["name"] for b in blocks]
        orders = [list(names)]                      # A branch first, then B in order
        a_first = [n for n in names if n[0] in "pA"]
        b_names = [n for n in names if n[0] == "B"]
        orders.append(a_first + list(reversed(b_names)))   # children before parents
        inter = list(names)
        rng.shuffle(inter)
        orders.append(inter)
        if not quick:
            for _ in range(6):
                o = list(names)
                rng.shuffle(o)
                orders.append(o)
        for k, o in enumerate(orders):
            c = {"id": "g%d_%d" % (j, k), "naccts": 3, "blocks": blocks, "arrivals": o}
            if rng.random() < 0.15:
                c["lib"] = sorted(rng.randrange(0, p + 2) for _ in o)
            cases.append(c)
    # reorganisations that abandon transactions of accounts not involved in the new branch (pool side of "offered back")
    for j, (p, la, lb) in enumerate([(0, 1, 2), (1, 2, 3), (0, 2, 4), (1, 1, 3)] if quick else
                                    [(p, la, lb) for p in (0, 1, 2) for la in (1, 2, 3) for lb in (2, 3, 4, 5) if lb > la]):
        blocks = []
        parent = "G"
        for i in range(p):
            blocks.append({"name": "p%d" % i, "parent": parent, "txs": [{"from": 0, "to": 1, "amt": 1}], "bad": ""})
            parent = "p%d" % i
        fork = parent
        for i in range(la):                                    # old branch: only accounts 3 and 4
            txs = [{"from": 3, "to": 4, "amt": 1}] + ([{"from": 3, "to": 4, "amt": 2}] if i == 0 else [])
            blocks.append({"name": "A%d" % i, "parent": (fork if i == 0 else "A%d" % (i - 1)), "txs": txs, "bad": ""})
        for i in range(lb):                                    # new branch: accounts 0..2
            blocks.append({"name": "B%d" % i, "parent": (fork if i == 0 else "B%d" % (i - 1)),
                           "txs": [{"from": i % 3, "to": (i + 1) % 3, "amt": 1}], "bad": ""})
        names = [b["name"] for b in blocks]
        cases.append({"id": "pool%d" % j, "naccts": 5, "blocks": blocks, "arrivals": list(names)})
    # a transaction of the abandoned branch that the new branch includes AGAIN, at every position of the new branch: at a height
    # both branches have, and in the part by which the new branch is longer (above the old tip); it is confirmed before and
    # after: not offered back to the pool, found by getTx at its new block
    rei = [(p, la, lb, i, j) for p in (0, 1) for la in (1, 2) for lb in (la + 1, la + 2) for i in range(la) for j in range(lb)]
    if quick:
        rei = [r for r in rei if r[4] >= r[2] - 1 or r[4] == 0]          # tip, first block (and all of them in the thorough tier)
        rei = rei[::2] + [r for r in rei[1::2] if r[4] >= r[1]][:4]
    for n_, (p, la, lb, i, j) in enumerate(rei):
        blocks = []
        parent = "G"
        for k in range(p):
            blocks.append({"name": "p%d" % k, "parent": parent, "txs": [{"from": 0, "to": 1, "amt": 1}], "bad": ""})
            parent = "p%d" % k
        fork = parent
        shared = {"from": 3, "to": 4, "amt": 7}
        for k in range(la):
            txs = [{"from": 1, "to": 2, "amt": 1}] + ([shared] if k == i else [])
            blocks.append({"name": "A%d" % k, "parent": (fork if k == 0 else "A%d" % (k - 1)), "txs": txs, "bad": ""})
        for k in range(lb):
            txs = [{"from": 2, "to": 0, "amt": 1}] + ([shared] if k == j else [])
            blocks.append({"name": "B%d" % k, "parent": (fork if k == 0 else "B%d" % (k - 1)), "txs": txs, "bad": ""})
        names = [b["name"] for b in blocks]
        cases.append({"id": "reincl%d" % n_, "naccts": 5, "blocks": blocks, "arrivals": list(names)})
        if n_ % 3 == 0:
            a_first = [x for x in names if x[0] in "pA"]
            cases.append({"id": "reincl%dr" % n_, "naccts": 5, "blocks": blocks,
                          "arrivals": a_first + list(reversed([x for x in names if x[0] == "B"]))})
    # forged header numbers on side-branch blocks whose parent is already stored (gather is the only place that checks the
    # numbering of a side-branch block against its parent): a child of the last side block claiming a number above the best height
    for j, (la, lb, gap) in enumerate([(3, 1, 1), (3, 2, 2), (2, 1, 3), (4, 2, 1)] if quick else
                                      [(la, lb, gap) for la in (2, 3, 4) for lb in (1, 2, 3) for gap in (1, 2, 3, 4) if lb < la]):
        blocks = cd.two_branches(j % 2, la, lb, shared=False)
        no = (j % 2) + la + gap
        blocks.append({"name": "X", "parent": "B%d" % (lb - 1), "txs": [{"from": 0, "to": 2, "amt": 1}], "bad": "", "no": no})
        blocks.append({"name": "X2", "parent": "X", "txs": [], "bad": ""})
        cases.append({"id": "gap%d" % j, "naccts": 3, "blocks": blocks, "arrivals": [b["name"] for b in blocks]})
    # three competing branches, random
    for i in range(40 if quick else 1500):
        blocks = cd.rnd_tree(rng, rng.choice([4, 5, 6, 7]), pbad=0.3, pno=0.0)
        if rng.random() < 0.4:
            cd.add_gov(rng, blocks)
        cases.append({"id": "t%d" % i, "naccts": 3, "blocks": blocks, "arrivals": cd.rnd_arrivals(rng, blocks, shuffle=0.7, dup=0.1)})
    return cases


def main_path_names(out, st):
    id2name = {out["blocks"][n]["id"]: n for n in out["blocks"]}
    return [id2name[h] for h in st["heights"] if h and h in id2name]


def predicates(case, out, libs):
    """Model-independent fork-choice predicates; returns list of (key, text)."""
    fails = []
    info = cd.tree_info(case, out)
    prev = None
    for i, st in enumerate(out["steps"]):
        longest, who = cd.longest_available(case, out, i, libs)
        if st["bestno"] < longest:
            # known finding only when an invalid block really sits above the available tip (invalid tail of an orphan run)
            tail = (any("reorg failed" in s["err"] for s in out["steps"][:i + 1]) and
                    any(b.get("bad") and who in cd.path_to(case, b["name"])[:-1] for b in case["blocks"]))
            fails.append((TAIL_KEY if tail else "C07:not-longest",
                          "step %d: best height %d but branch tip %s (height %d) is fully stored, valid and forks above the LIB"
                          % (i, st["bestno"], who, longest)))
        names = main_path_names(out, st)
        for nm in names:
            if not info[nm]["valid"]:
                fails.append(("C07:invalid-on-main", "step %d: invalid block %s on the main chain" % (i, nm)))
        if prev is not None:
            if st["best"] != prev["best"] and st["bestno"] <= prev["bestno"]:
                fails.append(("C07:displaced-by-not-longer", "step %d: best changed without growing (%d -> %d)" % (i, prev["bestno"], st["bestno"])))
            oldn, newn = main_path_names(out, prev), names
            if oldn[:len(newn)] != newn[:len(oldn)] and not set(oldn) <= set(newn):     # a reorganisation happened
                fork_no = 0
                for a, b in zip(oldn, newn):
                    if a == b:
                        fork_no = out["blocks"][a]["no"]
                if fork_no < libs[i]:
                    fails.append(("C07:below-lib", "step %d: reorganisation with branch root %d below LIB %d" % (i, fork_no, libs[i])))
                oldtx = set(t for n in oldn if n not in newn for t in out["blocks"][n]["txs"])
                newtx = set(t for n in newn for t in out["blocks"][n]["txs"])
                if set(st["put"]) != oldtx - newtx:
                    fails.append(("C07:returned-txs", "step %d: MemPoolPut set differs from txs(old)-txs(new)" % i))
            elif st["put"]:
                fails.append(("C07:returned-txs", "step %d: MemPoolPut without reorganisation" % i))
        prev = st
    return fails


def run(ctx):
    pr = ctx.prove(extra_targets=["ChainDB/Corr.vo"])
    ctx.cov["trusted_base"] = ["Coq 8.16.1 kernel + vm_compute", "Go toolchain + overlay", "engine harness/engines/chaindb, reference node, lib/chaindb.py predicates",
                               "consensus stub with scripted LIB", "apply/spent abstraction of block execution"]
    ctx.assumptions = ["LIB stream is monotone (C08)", "block identifiers are collision-free digests (F8 excluded)",
                       "an arrival that pulls parked orphans in does not end in an error (only for best_is_longest_available_invariant)"]
    eng = cd.build_engine(ctx)
    f7_fixed = cd.source_has_f7_fix(ctx.repo)
    corpus = corpus_cases()
    cases = corpus + gen_cases(ctx)
    outs = cd.run_engine(ctx, eng, cases, "c07a")
    # second pass with the observed winner -> reference node comparison (P7)
    id2 = []
    c2 = []
    for c, o in zip(cases, outs):
        id2name = {o["blocks"][n]["id"]: n for n in o["blocks"]}
        w = id2name.get(o["final"]["best"])
        if w:
            cc = dict(c)
            cc["winner"] = w
            c2.append(cc)
    outs2 = cd.run_engine(ctx, eng, c2, "c07b") if c2 else []
    ok, bad, detail = cd.model_diff(ctx, cases, outs, f7_fixed, "c07cases")
    corr_broken = None
    if not ok:
        corr_broken = ("model could not be evaluated", detail)
    elif bad:
        i = bad[0]
        rows, exp = cd.model_rows(ctx, cases[i], outs[i], f7_fixed, "c07diff")
        corr_broken = ("model/implementation differ on %d case(s)" % len(bad), {"case": cases[i], "diff": cd.first_diff(rows, exp)})
    fails = []
    nreorg = 0
    shapes = set()
    for c, o in zip(cases, outs):
        libs = c.get("lib") or [0] * len(c["arrivals"])
        forged = any(b.get("no") is not None for b in c["blocks"])      # the Python predicates take the number of a block from its depth
        for key, text in ([] if forged else predicates(c, o, libs)):
            fails.append((key, text, c))
        if forged:                                                      # a mis-numbered block never becomes the best block
            nm = {o["blocks"][n]["id"]: n for n in o["blocks"]}
            for i, st in enumerate(o["steps"]):
                b = nm.get(st["best"])
                if b and any(x["name"] == b and x.get("no") is not None for x in c["blocks"]):
                    fails.append(("C07:forged-number-block-is-best", "step %d: block %s with a forged number is the best block" % (i, b), c))
                    break
        nreorg += sum(1 for st in o["steps"] if len(st["del"]) > 1 or st["put"])
        shapes.add((len(c["blocks"]), tuple(st["bestno"] for st in o["steps"]), tuple(len(st["put"]) for st in o["steps"])))
    for c, o in zip(c2, outs2):
        p7 = [p for p in (o.get("p7") or []) if p]
        if p7:
            reorg_failed = any("reorg failed" in st["err"] for st in o["steps"])
            fails.append((F7_KEY if (reorg_failed and not f7_fixed) else "C07:reference-differs", "reference node differs: " + p7[0], c))
        pf = [p for st in o["steps"] for p in st["pred"] if not p.startswith("P7")]
        if pf and not (not f7_fixed and any("reorg failed" in st["err"] for st in o["steps"])):
            fails.append(("C07:inv:" + pf[0].split(" ")[0], "chain-DB invariant fails: " + pf[0], c))
    # restart (no crash) after every arrival: the restarted node must be on the same best block with the chain-DB
    # invariant intact (C06_restart_inv), and feeding the blocks again must reach the crash-free final state
    rcases = []
    for c in (corpus + [x for x in cases if x["id"].startswith("g")][: (8 if ctx.tier == "quick" else 60)]):
        rc_ = dict(c)
        rc_["mode"] = "crash"
        rc_["boundaries_only"] = True
        rcases.append(rc_)
    # ... and reorganisations INTERRUPTED at every write unit (crash inside swapChain, restart, recovery from the marker): the
    # node must end exactly on a legitimate tip, with that tip's system parameters in force (P11) and follow it (P12)
    ncut = 0
    for c in (corpus + [x for x in cases if x["id"].startswith("g") and any(b.get("gov") for b in x["blocks"])
                        and not any(b.get("bad") for b in x["blocks"])][: (3 if ctx.tier == "quick" else 40)]):
        xc = dict(c)
        xc["mode"] = "crash"
        xc["id"] = c["id"] + "-cut"
        xc["partial"], xc["recrash"] = ("ends", "none") if ctx.tier == "quick" else ("all", "units")
        rcases.append(xc)
        ncut += 1
    routs = cd.run_engine(ctx, eng, rcases, "c07r") if rcases else []
    nrestart = 0
    for c, o in zip(rcases, routs):
        if not c.get("boundaries_only"):
            for kr in o["crash"]:
                nrestart += 1
                if kr["init_panic"] or kr["recover_err"]:
                    fails.append(("C07:cut-restart-fails", "restart after a cut at unit %d fails: %s%s" % (kr["k"], kr["init_panic"][:60], kr["recover_err"][:60]), c))
                elif kr["pred"]:
                    fails.append(("C07:cut-inv:" + kr["pred"][0].split(" ")[0],
                                  "after a reorganisation interrupted at unit %d/%d and the recovery: %s" % (kr["k"], kr.get("p", 0), kr["pred"][0]), c))
                elif not (kr["legit"] or kr.get("legit_mid")):
                    fails.append(("C07:cut-best-not-legit", "best block after a cut at unit %d + recovery is neither the old nor the new tip" % kr["k"], c))
            continue
        ua = o["unit_arrival"]
        recs = {(kr["k"], kr.get("p", 0)): kr for kr in o["crash"]}
        for i in range(len(c["arrivals"])):
            k = sum(1 for a in ua if a <= i)          # journal length after arrival i
            kr = recs.get((k, 0))
            if kr is None:
                continue
            nrestart += 1
            if kr["init_panic"] or kr["recover_err"]:
                fails.append(("C07:restart-fails", "restart after arrival %d fails: %s%s" % (i, kr["init_panic"][:60], kr["recover_err"][:60]), c))
            elif kr["best"] != o["bests"][i + 1]:
                fails.append(("C07:restart-changes-best", "after a restart following arrival %d the best block is not the one the node was on" % i, c))
            elif kr["pred"]:
                fails.append(("C07:restart-inv:" + kr["pred"][0].split(" ")[0], "invariant fails after a restart following arrival %d: %s" % (i, kr["pred"][0]), c))
    # a real MemPool behind the MemPoolDel / MemPoolPut trace of the real ChainService (pool side of "offered back")
    pool_eng = cd.build_pool_engine(ctx)
    scripts, owner = [], []
    for c, o in zip(cases, outs):
        if any(st["put"] for st in o["steps"]) or c["id"].startswith("pool"):
            for sc in cd.pool_scripts(c, o):
                scripts.append(sc)
                owner.append(c)
    pouts = cd.run_pool_engine(ctx, pool_eng, scripts, "c07pool") if scripts else []
    npool = 0
    for sc, po, c in zip(scripts, pouts, owner):
        if po.get("panic"):
            fails.append(("C07:pool-engine-panic", "pool engine panics on %s: %s" % (sc["id"], po["panic"][:100]), c))
            continue
        for i, st in enumerate(po["steps"]):
            npool += 1
            if st["pred"]:
                fails.append(("C07:pool:" + st["pred"][0].split(" ")[0],
                              "pool after arrival %d of %s: %s%s" % (i, sc["id"], st["pred"][0],
                                                                    (" (put refused: %s)" % st["puterrs"][0][:60]) if st["puterrs"] else ""), c))
                break
    ctx.cov["evaluations"] = sum(len(o["steps"]) for o in outs) + len(outs2) + nrestart + npool
    ctx.cov["traces_validated_against_impl"] = len(cases) + len(c2)
    ctx.cov["distinct_nontrivial"] = len(shapes)
    ctx.cov["rule"] = ("pairs of branches (prefix 0..2, lengths 1..4/5, shared or distinct first tx, invalid block at each position of the longer "
                       "branch) in three or more delivery orders incl. children before parents, plus random 3-branch trees; distinct = "
                       "distinct (size, best-height trace, MemPoolPut trace)")
    ctx.cov["input_distribution"] = {"cases": len(cases), "corpus": len(corpus), "reference_runs": len(c2), "steps_with_reorg": nreorg, "restarts_after_arrivals": nrestart, "pool_scripts": len(scripts), "pool_steps": npool,
                                     "f7_fixed_in_source": f7_fixed}
    ctx.sample({"case": cases[0], "final": outs[0]["final"]["best"][:12]})
    # "one forking below the irreversible block never displaces the main chain": the LIB is an input of
    # the ChainDB model; that the node's own LIB veto survives restarts (plain, and with ForceResetHeight
    # below / at / above the LIB) is checked on the real dpos.Status through g5's hook (lib/c08veto.py)
    import c08veto
    for f in c08veto.run_lib_veto_family(ctx):
        fails.append((f["key"], f["what"], f["replay"]))
    seen = set()
    for key, text, c in fails:
        if key in seen:
            continue
        seen.add(key)
        ctx.finding(key, text, c)
    real = bool(ctx.violations)
    if not pr["ok"] and not real:
        ctx.violation("proof obligation no longer checks: %s" % pr["broken"], {"theorem_or_file": pr["broken"], "log": pr["log"][-3000:]}, no_input=True)
    if corr_broken and not real:
        ctx.violation("correspondence broken: " + corr_broken[0], {"correspondence": corr_broken[0], "detail": corr_broken[1]}, no_input=True)

"""C08 DPoS finality.
Proof: coq/Properties/C08.v over coq/Dpos/Lib.v (literal model of lib.go/status.go and the
node call sequence) and coq/Dpos/Protocol.v (network of producers, Byzantine ones included).
Correspondence: the real dpos.Status/libStatus/DPoS.VerifyTimestamp driven in-package by
scripted block histories (forks, reorgs, restarts) and compared with the model after every
step; direct predicates on the implementation's own observations; multi-node search for
disagreement."""
import json
import os
import sys
import vf

sys.path.insert(0, os.path.join(vf.VERIF, "lib"))
import c08gen as G  # noqa: E402

META = {
    "text": "55 Coq theorems (no axioms) over a literal model of dpos libStatus/Status, the chain service's add-block/reorg call sequence (blocks failing at execution or refused by IsBlockValid; crash inside a reorg + marker recovery) and the BP election, for all producer counts and delivery histories with restarts anywhere. FULL: LIB never decreases; a block <= LIB or a reorg forking below it changes nothing; main-chain blocks <= a reported LIB stay forever; LIB, proposals, confirms list on the main chain (confirms list also after any abandoned reorg: Update uses the hash linkage); a proposal needs 2n/3+1 confirming main-chain blocks; two quorums share a correct producer (f < n/3); restart restores the LIB exactly; status saved with the tip = running one; recovery redoes the reorg; ForceResetHeight h keeps the LIB (and its veto) iff LIB <= h; confirmsRequired follows the producer count. PARTIAL: LIB on main chain with failing blocks if no reorg is abandoned midway; producer set a function of the chain if BPCOUNT is constant; agreement if j's chain holds i's LIB block. REFUTED, known, reproduced every run: agreement (F14/b/c, C08:agreement-confirms-unvalidated, C08:agreement-equivocation-partition); restored proposals = online (F45, C08:restart-status-differs-from-online); producer set after a BPCOUNT change (F34, C08:bp-snapshot-bpcount-from-memory); LIB on main chain after an abandoned reorg (F39, C08:lib-off-main-chain-after-failed-reorg). Tie every run: engines on the real dpos.Status, NewStatus+bp.Snapshots+GetRankers and ChainService (recording, persisting stub); every step's outcome, LIB, proposals, confirms list, main chain, producer set, call sequence, saved status hashed and compared with the model by vm_compute; each clause also a direct predicate on the implementation (incl. gob round trip: every persisted field and the LpbNo the block factory starts from come back as saved); multi-node disagreement search.",
    "note": "Trusted: Coq kernel + vm_compute (no axioms); 60-bit shift-add observation hash; scenario generators; the dpos engine's mirror of ChainService.addBlock/reorg around Status (its call order, incl. the execution-failure and IsBlockValid-refusal sequences, is compared with the real ChainService by the chain engine on every run; block execution and orphans are C05/C07's). Emulated from the source, not executed: the marker recovery sequence after a crash inside a reorg; the life cycle of the in-memory BPCOUNT (InitSystemParams at start, after reorg.rollback and at the end of a reorg; CommitParams after AddSnapshot) - no transaction is executed. Modelled only, no engine: blockfactory's Confirms = no - LpbNo (Protocol.v). gob round trip goes through the real Save/bootLoader. Theorem assumptions: block ids >= 0, delivered blocks are not the genesis block, 0 < n < 21845 for the confirmation counting, f < n/3 for quorum intersection. agreement_under_lock is proved for an abstract rule and does not transfer to the implementation (Dpos/AgreementLock.v, AgreementObstacles.v).",
    "technique": "Coq invariant proofs over executable Gallina models + vm_compute correspondence against the real dpos.Status, "
                 "bp.Snapshots/Cluster, system.GetRankers and chain.ChainService + multi-node disagreement search",
}

RES = {"dup": 0, "le_lib": 1, "orphan": 2, "invalid": 3, "connected": 4, "side": 5, "veto": 6, "reorg": 7,
       "exec_failed": 12, "reorg_failed": 13, "recovered": 14, "recover_veto": 15, "refused": 16, "reorg_refused": 17}
Z = vf.coq_Z


HASH_MASK = (1 << 60) - 1
UNTAINTED = ("C08:confirms-off-main-chain", "C08:lpbno-not-restored", "C08:restored-status-differs-from-saved")
CODE_R, CODE_G = 8, 9


def flat_obs(code, o):
    st = o["state"]
    out = [code, st["lib"], st["lib_no"], st["lpb"], st["cr"], st["best"]]
    pr = sorted(st["prpsd"] or [], key=lambda e: e["bp"])
    out.append(len(pr))
    for e in pr:
        out += [e["bp"], e["plib"], e["plib_no"], e["by"], e["by_no"]]
    cf = st["confirms"] or []
    out.append(len(cf))
    for c in cf:
        out += [c["id"], c["no"], c["bp"], c["range"], c["left"]]
    main = o["main"] or []
    out.append(len(main))
    if code in (6, 7):
        out += main
    return out


def obs_hash(code, o):
    h = 5381
    for x in flat_obs(code, o):
        h = ((h << 5) + h + x + 7) & HASH_MASK
    return h


def node_cases(sc, obs):
    """Split a scenario into per-node Coq cases ((size,self), ops); also returns, per node, the
    list of (op index in the scenario, observation) so that a mismatch can be located."""
    blocks = {0: (0, -1, 0, -1, 0)}
    per, src = {}, {}
    j = 0
    fail = bool(sc.get("fail"))
    crash = bool(sc.get("crash"))
    for k, op in enumerate(sc["ops"]):
        if op[0] in ("BAD", "REF"):
            per.setdefault(0, []).append("%s %s" % ("FOpBad" if op[0] == "BAD" else "FOpRef", Z(op[1])))
            src.setdefault(0, []).append((k, None))
            continue
        if op[0] == "B":
            _, i, parent, bp, conf = op
            blocks[i] = (i, parent, blocks[parent][2] + 1, bp, conf)
            continue
        o = obs[j]
        j += 1
        nd = op[1]
        lst = per.setdefault(nd, [])
        src.setdefault(nd, []).append((k, o))
        if op[0] == "K":
            b = blocks[op[2]]
            lst.append("COpK (mkBlk %s %s %s %s %s) %s %s" % (Z(b[0]), Z(b[1]), Z(b[2]), Z(b[3]), Z(b[4]), Z(op[3]),
                                                             Z(obs_hash(RES[o["res"]], o))))
        elif op[0] == "D":
            b = blocks[op[2]]
            lst.append("%s (mkBlk %s %s %s %s %s) %s" % ("FOpD" if fail else "OpD",
                Z(b[0]), Z(b[1]), Z(b[2]), Z(b[3]), Z(b[4]), Z(obs_hash(RES[o["res"]], o))))
        elif op[0] == "R":
            lst.append("%s %s" % ("COpR" if crash else "FOpR" if fail else "OpR", Z(obs_hash(CODE_R, o))))
        elif op[0] == "S":
            lst.append("%s %s" % ("COpS" if crash else "FOpS" if fail else "OpS", Z(obs_hash(CODE_R, o))))
        elif op[0] == "G":
            lst.append("OpG [%s] %s" % (";".join(Z(x) for x in op[2]), Z(obs_hash(CODE_G, o))))
        elif op[0] == "F":
            lst.append("OpF %s %s %s" % (Z(op[2]), Z(obs_hash(CODE_R, o)), Z(o["need_reorg"])))
        elif op[0] == "FR":
            lst.append("OpFR %s %s" % (Z(op[2]), Z(obs_hash(CODE_R, o))))
    out = []
    for nd in sorted(per):
        selfs = sc.get("self") or []
        me = selfs[nd] if nd < len(selfs) and selfs[nd] >= 0 else -1
        out.append((nd, "((%s,%s),[%s])" % (Z(sc["n"]), Z(me), ";\n".join(per[nd])), src[nd]))
    return out


def direct_predicates(sc, obs, stats):
    """The property itself evaluated on the implementation's observations.
    Returns a list of (key, what, detail)."""
    fails = []
    n = sc["n"]
    blocks = {0: {"id": 0, "parent": None, "no": 0, "bp": -1, "conf": 0}}
    prev = {}       # node -> last online observation
    irrev = {}      # node -> (LIB height, main chain up to it) that survived a real ForceReset at or above the LIB
    ever = {}       # node -> producers that have (had) an entry in the proposal map; with a static producer set Status.Update
                    # never removes an entry (a rollback RESETS the entries above the target), so calcLIB's quantile is over all of them
    j = 0
    need = 0 if sc.get("election") else 2 * n // 3 + 1
    for k, op in enumerate(sc["ops"]):
        if op[0] in ("T", "BAD", "REF"):
            continue
        if op[0] == "B":
            _, i, parent, bp, conf = op[:5]
            blocks[i] = {"id": i, "parent": parent, "no": blocks[parent]["no"] + 1, "bp": bp, "conf": conf}
            continue
        o = obs[j]
        j += 1
        nd = op[1]
        st = o["state"]
        p = prev.get(nd)
        if op[0] == "G":
            prev[nd] = o
            cur = {e["bp"] for e in st["prpsd"] or []}
            lost = sorted((ever.get(nd, set()) & set(op[2])) - cur)
            if lost and not sc.get("election"):
                fails.append(("C08:proposal-entry-dropped",
                              "gc with the BP list %s removed the entries of producers %s of that list" % (op[2], lost),
                              {"op_index": k, "prpsd": st["prpsd"]}))
            ever[nd] = cur
            continue
        if op[0] == "FR":
            ever[nd] = {e["bp"] for e in st["prpsd"] or []}
        if op[0] in ("F", "FR"):
            rh = op[2]
            stats["force_resets"] = stats.get("force_resets", 0) + 1
            # ForceResetHeight at or above the LIB height: the LIB block survives the chain reset, so it
            # stays the LIB and no fork point below it may be reorganised
            if p is not None and rh >= p["state"]["lib_no"] and rh > 0:
                ps = p["state"]
                stats["force_resets_at_or_above_lib"] = stats.get("force_resets_at_or_above_lib", 0) + 1
                if (st["lib_no"], st["lib"]) != (ps["lib_no"], ps["lib"]) or o.get("allow_below", 0) > 0:
                    fails.append(("C08:reorg-below-irreversible-allowed-after-restart",
                                  "restart with ForceResetHeight %d >= LIB %d: the restored LIB is (%d, id %d) instead of (%d, id %d) and "
                                  "NeedReorganization allows %d of the %d fork points below the block that was irreversible"
                                  % (rh, ps["lib_no"], st["lib_no"], st["lib"], ps["lib_no"], ps["lib"], o.get("allow_below", 0), ps["lib_no"]),
                                  {"op_index": k, "reset_height": rh, "lib_before": [ps["lib_no"], ps["lib"]],
                                   "lib_after": [st["lib_no"], st["lib"]], "allowed_fork_points_below": o.get("allow_below", 0)}))
                if op[0] == "FR":
                    irrev[nd] = (ps["lib_no"], list(p["main"][:ps["lib_no"] + 1]))
            elif op[0] == "FR":
                irrev.pop(nd, None)      # reset below the LIB: the operator gives the finality up
            if rh > 0:
                if st["lib_no"] > rh:
                    fails.append(("C08:force-reset-lib-above-height", "LIB %d above ForceResetHeight %d after the reset" % (st["lib_no"], rh),
                                  {"op_index": k}))
                for e in st["prpsd"] or []:
                    if e["plib_no"] > rh or e["by_no"] > rh:
                        fails.append(("C08:force-reset-proposal-above-height",
                                      "proposal (%d by %d) above ForceResetHeight %d kept" % (e["plib_no"], e["by_no"], rh), {"op_index": k}))
            if op[0] == "FR":
                prev[nd] = o
            continue
        if op[0] in ("S", "R"):
            stats["restarts"] += 1
            # gob round trip through the chain DB: every field the model's restore reads (Prpsd, Lib, LpbNo)
            # comes back as it was saved with the chain tip; LpbNo is what BlockFactory.worker starts from
            # (bsLoader.lpbNo()), so the first block produced after the restart carries Confirms = no - LpbNo
            if o.get("saved") is not None and o.get("boot") is not None:
                sv, bt = o["saved"], o["boot"]
                if sv["lpb"] > 0:
                    stats["restarts_with_lpb"] = stats.get("restarts_with_lpb", 0) + 1
                if bt["lpb"] != sv["lpb"] or o.get("boot_lpb", sv["lpb"]) != sv["lpb"]:
                    bt = dict(bt, lpb=o.get("boot_lpb", bt["lpb"]))
                    nxt = len(o["main"])
                    fails.append(("C08:lpbno-not-restored",
                                  "the status saved with the chain tip had LpbNo %d, the boot loader restores LpbNo %d: the producer's "
                                  "next block %d would carry Confirms %d instead of %d and re-confirm blocks it already confirmed"
                                  % (sv["lpb"], bt["lpb"], nxt, nxt - bt["lpb"], nxt - sv["lpb"]),
                                  {"op_index": k, "saved": sv, "restored": bt}))
                diff = [f for f in ("lib_no", "lib", "prpsd") if (bt.get(f) or []) != (sv.get(f) or [])]
                if diff:
                    fails.append(("C08:restored-status-differs-from-saved",
                                  "fields %s of the status decoded from the chain DB differ from the status that was saved" % diff,
                                  {"op_index": k, "saved": sv, "restored": bt}))
            if p is not None:
                ps = p["state"]
                if (st["lib_no"], st["lib"]) != (ps["lib_no"], ps["lib"]):
                    fails.append(("C08:restart-lib-differs", "restored LIB differs from the LIB before the restart",
                                  {"op_index": k, "before": [ps["lib_no"], ps["lib"]], "after": [st["lib_no"], st["lib"]]}))
                if (st["prpsd"] or []) != (ps["prpsd"] or []):
                    stats["restart_prpsd_diff"] += 1
                    # what must still hold: a proposal changed by the rebuild is not above the LIB
                    on = {e["bp"]: e for e in ps["prpsd"] or []}
                    for e in st["prpsd"] or []:
                        q = on.get(e["bp"])
                        if q is None or q != e:
                            if e["plib_no"] > st["lib_no"] and (q is None or e["plib_no"] != q["plib_no"]):
                                stats["restart_prpsd_diff_above_lib"] += 1
                    fails.append(("C08:restart-status-differs-from-online",
                                  "proposal map restored after a restart differs from the one computed online",
                                  {"op_index": k, "online": ps["prpsd"], "restored": st["prpsd"]}))
                if not o["lib_on_main"]:
                    fails.append(("C08:lib-off-main-chain", "restored LIB is not on the main chain", {"op_index": k}))
            if op[0] == "R":
                prev[nd] = o
            continue
        # delivery ("K": delivery with a crash inside the reorganisation and recovery)
        b = blocks[op[2]]
        stats["deliveries"] += 1
        if o["res"] == "recover_veto":
            fails.append(("C08:recovery-vetoed-by-saved-lib",
                          "crash at stop point %s of a reorganisation with fork point %d: the recovery is vetoed by the LIB %d "
                          "saved with the swapped chain; the node keeps the old chain with a LIB of the new branch"
                          % (op[3] if len(op) > 3 else "?", o["root_no"], st["lib_no"]), {"op_index": k}))
        stats["res_" + o["res"]] = stats.get("res_" + o["res"], 0) + 1
        if p is None:
            pmain, plib_no, pst = [0], 0, None
        else:
            pmain, plib_no, pst = p["main"], p["state"]["lib_no"], p["state"]
        # what was irreversible before a restart with ForceResetHeight >= LIB stays on the main chain
        if nd in irrev:
            ino, imain = irrev[nd]
            for h in range(0, ino + 1):
                if h >= len(o["main"]) or o["main"][h] != imain[h]:
                    fails.append(("C08:reorg-below-irreversible-allowed-after-restart",
                                  "after a restart with ForceResetHeight >= LIB %d a branch forking below the irreversible block "
                                  "displaced the main chain: block at height %d replaced (%s)" % (ino, h, o["res"]),
                                  {"op_index": k, "before": imain, "after": o["main"]}))
                    irrev.pop(nd)
                    break
        # the proposal map never loses a producer (static producer set): rollbackStatusTo resets, not deletes
        if not sc.get("election"):
            cur = {e["bp"] for e in st["prpsd"] or []}
            lost = sorted(ever.get(nd, set()) - cur)
            if lost:
                fails.append(("C08:proposal-entry-dropped",
                              "after %s the proposal map has no entry for producers %s that had one: calcLIB takes its two-thirds "
                              "quantile over %d instead of %d producers" % (o["res"], lost, len(cur), len(cur) + len(lost)),
                              {"op_index": k, "prpsd": st["prpsd"]}))
            ever[nd] = ever.get(nd, set()) | cur
        # LIB never decreases
        if st["lib_no"] < plib_no:
            fails.append(("C08:lib-decreased", "reported LIB height decreased %d -> %d" % (plib_no, st["lib_no"]),
                          {"op_index": k, "block": b}))
        # LIB on main chain
        if not o["lib_on_main"]:
            fails.append(("C08:lib-off-main-chain", "reported LIB (%d, id %d) is not on the main chain" % (st["lib_no"], st["lib"]),
                          {"op_index": k, "main": o["main"]}))
        # the confirms list (the window the next proposals are computed from) holds main-chain blocks
        # only; in particular after an abandoned reorganisation, wherever the failing block was
        for c in st["confirms"] or []:
            if c["no"] >= len(o["main"]) or o["main"][c["no"]] != c["id"]:
                fails.append(("C08:confirms-off-main-chain",
                              "after %s the confirms list holds block (%d, id %d) which is not on the main chain"
                              % (o["res"], c["no"], c["id"]),
                              {"op_index": k, "main": o["main"], "confirms": [[x["no"], x["id"]] for x in st["confirms"]]}))
                break
        # never undone: heights <= previously reported LIB keep their block
        for h in range(0, min(plib_no, len(pmain) - 1) + 1):
            if h >= len(o["main"]) or o["main"][h] != pmain[h]:
                fails.append(("C08:finalized-block-replaced", "block at height %d <= LIB %d replaced" % (h, plib_no),
                              {"op_index": k, "before": pmain, "after": o["main"]}))
                break
        # blocks <= LIB refused
        if b["no"] <= plib_no and o["res"] not in ("le_lib", "dup"):
            fails.append(("C08:block-le-lib-accepted", "block %d <= LIB %d not refused (%s)" % (b["no"], plib_no, o["res"]),
                          {"op_index": k, "block": b}))
        if b["no"] > plib_no and o["res"] == "le_lib":
            fails.append(("C08:block-gt-lib-refused", "block %d > LIB %d refused by the LIB rule" % (b["no"], plib_no),
                          {"op_index": k, "block": b}))
        # reorg below LIB refused / at or above LIB allowed
        if o["root_no"] >= 0:
            if o["root_no"] < plib_no and o["res"] != "veto":
                fails.append(("C08:reorg-below-lib", "reorganisation with root %d below LIB %d performed" % (o["root_no"], plib_no),
                              {"op_index": k}))
            if o["root_no"] >= plib_no and o["res"] == "veto":
                fails.append(("C08:reorg-at-lib-vetoed", "reorganisation with root %d >= LIB %d vetoed" % (o["root_no"], plib_no),
                              {"op_index": k}))
        # quorum: a proposal that changed to block c must have >= 2n/3+1 confirming main-chain blocks
        if o["res"] in ("connected",) and pst is not None or o["res"] == "connected":
            old = {e["bp"]: e for e in (pst["prpsd"] if pst else []) or []}
            main = o["main"]
            for e in st["prpsd"] or []:
                q = old.get(e["bp"])
                if e["plib_no"] > 0 and (q is None or (q["plib_no"], q["plib"]) != (e["plib_no"], e["plib"])):
                    cno = e["plib_no"]
                    cnt = 0
                    producers = set()
                    for h in range(cno, len(main)):
                        x = blocks[main[h]]
                        lo = (x["no"] - x["conf"] + 1) % (1 << 64)
                        if lo <= cno <= x["no"]:
                            cnt += 1
                            producers.add(x["bp"])
                    stats["plib_changes"] += 1
                    if cnt < need:
                        fails.append(("C08:plib-without-quorum",
                                      "block %d became a proposed LIB with %d < %d confirming blocks" % (cno, cnt, need),
                                      {"op_index": k, "entry": e}))
            # (at an election boundary the map is filtered by the new producer set after the LIB was computed)
            boundary = sc.get("election") and (len(o["main"]) - 1) % 100 == 0
            if st["lib_no"] != plib_no and st["prpsd"] and not boundary:
                np_ = len(st["prpsd"]) if sc.get("election") else len(ever.get(nd, set()) | {e["bp"] for e in st["prpsd"]})
                sup = sum(1 for e in st["prpsd"] if e["plib_no"] >= st["lib_no"])
                stats["lib_changes"] += 1
                if sup < np_ - (np_ - 1) // 3:
                    fails.append(("C08:lib-without-support",
                                  "LIB %d supported by the proposals of %d of the %d producers that have (had) an entry in the map, %d needed"
                                  % (st["lib_no"], sup, np_, np_ - (np_ - 1) // 3),
                                  {"op_index": k, "prpsd": st["prpsd"]}))
        prev[nd] = o
    # residue of a failed reorganisation (known finding): every predicate failure after the first
    # reorg_failed step of the scenario belongs to that class
    first = None
    jj = 0
    for kk, op in enumerate(sc["ops"]):
        if op[0] in ("B", "T", "BAD", "REF"):
            continue
        if obs[jj]["res"] in ("reorg_failed", "reorg_refused", "recover_veto") and first is None:
            first = (kk, "C08:recovery-vetoed-by-saved-lib" if obs[jj]["res"] == "recover_veto"
                     else "C08:lib-off-main-chain-after-failed-reorg")
        jj += 1
    if first is not None:
        # (the confirms list is NOT part of that residue: it is rebuilt from the main chain by the
        # Update(old best block) that ends an abandoned reorganisation)
        fails = [((first[1] if d.get("op_index", -1) >= first[0] and key not in UNTAINTED else key), what, d)
                 for key, what, d in fails]
    return fails


def honest_history(sc, obs):
    """Re-validate a multi-node scenario against the implementation's observations: every block of
    a correct producer was made on the best block of its own node, with Confirms = no - LpbNo of
    that node's status, and was connected there at once.  Returns None if valid, else a reason."""
    byz = set(sc.get("byz", []))
    selfs = sc.get("self", [])
    blocks = {0: (None, 0, -1, 0)}
    last = {}
    j = 0
    fresh = set()
    for op in sc["ops"]:
        if op[0] == "B":
            _, i, parent, bp, conf = op
            blocks[i] = (parent, blocks[parent][1] + 1, bp, conf)
            fresh.add(i)
            continue
        o = obs[j]
        j += 1
        if op[0] == "D":
            nd, i = op[1], op[2]
            parent, no, bp, conf = blocks[i]
            if i in fresh and bp not in byz:
                fresh.discard(i)
                if nd >= len(selfs) or selfs[nd] != bp:
                    return "block %d of correct producer %d first delivered to node %d" % (i, bp, nd)
                p = last.get(nd)
                pbest, plpb = (p["state"]["best"], p["state"]["lpb"]) if p else (0, 0)
                if parent != pbest:
                    return "block %d of correct producer %d not on its node's best block %d" % (i, bp, pbest)
                if conf != no - plpb:
                    return "block %d of correct producer %d has Confirms %d, honest value %d" % (i, bp, conf, no - plpb)
                if o["res"] != "connected":
                    return "block %d of correct producer %d not connected on its own node (%s)" % (i, bp, o["res"])
            elif i in fresh:
                fresh.discard(i)
        if op[0] in ("D", "R"):
            last[op[1]] = o
    return None


def agreement(sc, obs):
    """Final LIBs of the honest nodes must lie on one branch.  Returns None or a description."""
    blocks = {0: (None, 0)}
    for op in sc["ops"]:
        if op[0] == "B":
            blocks[op[1]] = (op[2], blocks[op[2]][1] + 1)
    last = {}
    j = 0
    for op in sc["ops"]:
        if op[0] == "B":
            continue
        o = obs[j]
        j += 1
        if op[0] in ("D", "R"):
            last[op[1]] = o

    def anc(a, b):  # a ancestor-or-equal of b
        while b is not None and blocks[b][1] > blocks[a][1]:
            b = blocks[b][0]
        return a == b
    byz = set(sc.get("byz", []))
    nodes = [nd for nd in sorted(last) if sc.get("self", [])[nd] not in byz]
    for i in nodes:
        for k in nodes:
            if i < k:
                a, b = last[i]["state"]["lib"], last[k]["state"]["lib"]
                if a < 0 or b < 0:
                    continue
                if not anc(a, b) and not anc(b, a):
                    return {"node_a": i, "lib_a": [last[i]["state"]["lib_no"], a], "node_b": k,
                            "lib_b": [last[k]["state"]["lib_no"], b]}
    return None


def run_engine(ctx, binpath, scenarios, tag, test="TestVerifC08Engine"):
    fin = os.path.join(ctx.workdir, tag + ".in")
    fout = os.path.join(ctx.workdir, tag + ".out")
    with open(fin, "w") as f:
        for s in scenarios:
            f.write(json.dumps(s) + "\n")
    rc, log = ctx.run_bin(binpath, ["-test.run", test], env={"VERIF_IN": fin, "VERIF_OUT": fout})
    if rc != 0:
        raise RuntimeError("C08 engine failed:\n" + log[-3000:])
    obs = [json.loads(l)["obs"] for l in open(fout)]
    if len(obs) != len(scenarios):
        raise RuntimeError("C08 engine: %d outputs for %d scenarios" % (len(obs), len(scenarios)))
    return obs


def model_eval(ctx, name, cases, typ="(Z*Z) * list op", fn="scenario_first_diff", imp="Dpos.Lib"):
    """cases: list of Coq terms.  Returns ({case index: first differing op index}, error text)."""
    import re
    bad = {}
    shard = 400
    for s in range(0, len(cases), shard):
        part = cases[s:s + shard]
        txt = ["From Coq Require Import ZArith List Bool.", "From Verif Require Import %s." % imp, "Import ListNotations.",
               "Open Scope Z_scope.",
               "Definition cases : list (%s) := [%s]." % (typ, ";\n".join(part)),
               "Definition D := Eval vm_compute in map %s cases." % fn, "Print D."]
        rc, out = ctx.coq_eval("%s_%d" % (name, s // shard), "\n".join(txt))
        if rc != 0:
            return None, out
        flat = " ".join(out.split())
        m = re.search(r"D = \[([^\]]*)\]", flat)
        if not m:
            return None, out
        vals = [int(x.replace("(", "").replace(")", "")) for x in m.group(1).split(";") if x.strip()]
        if len(vals) != len(part):
            return None, out
        for i, v in enumerate(vals):
            if v >= 0:
                bad[s + i] = v
    return bad, ""


def election_eval(ctx, cases):
    """Returns ({case index: first differing op}, error text) for Dpos/Election.v cases."""
    import re
    bad = {}
    for s, case in enumerate(cases):
        txt = ["From Coq Require Import ZArith List Bool.", "From Verif Require Import Dpos.Lib Dpos.Election.",
               "Import ListNotations.", "Open Scope Z_scope.", "Definition c : ecase := %s." % case,
               "Definition D := Eval vm_compute in escenario_first_diff c.", "Print D."]
        rc, out = ctx.coq_eval("c08_election_%d" % s, "\n".join(txt))
        flat = " ".join(out.split())
        m = re.search(r"D = (\(?-?\d+\)?)", flat)
        if rc != 0 or not m:
            return None, out
        v = int(m.group(1).replace("(", "").replace(")", ""))
        if v >= 0:
            bad[s] = v
    return bad, ""


def election_obs_at(ctx, case, i):
    import re
    txt = ["From Coq Require Import ZArith List Bool.", "From Verif Require Import Dpos.Lib Dpos.Election.",
           "Import ListNotations.", "Open Scope Z_scope.", "Definition c : ecase := %s." % case,
           "Definition O := Eval vm_compute in escenario_debug c %d%%nat." % i, "Print O."]
    rc, out = ctx.coq_eval("c08_election_debug", "\n".join(txt))
    flat = " ".join(out.split())
    m = re.search(r"O = \[([^\]]*)\]", flat)
    if rc != 0 or not m:
        return None
    return [int(x.replace("(", "").replace(")", "")) for x in m.group(1).split(";") if x.strip()]


def model_obs_at(ctx, case, i):
    """The model's flattened observation at op i of one case (for the replay)."""
    import re
    txt = ["From Coq Require Import ZArith List Bool.", "From Verif Require Import Dpos.Lib.", "Import ListNotations.",
           "Open Scope Z_scope.", "Definition c : (Z*Z) * list op := %s." % case,
           "Definition O := Eval vm_compute in scenario_debug c %d%%nat." % i, "Print O."]
    rc, out = ctx.coq_eval("c08_debug", "\n".join(txt))
    flat = " ".join(out.split())
    m = re.search(r"O = \[([^\]]*)\]", flat)
    if rc != 0 or not m:
        return None
    return [int(x.replace("(", "").replace(")", "")) for x in m.group(1).split(";") if x.strip()]


def chain_case(sc, obs):
    """Coq case for the chain-side tie: size 20000 (nothing is ever confirmed, so the model's LIB
    is the scripted one), ops OpL / OpC with the hash of the real chain service's observation
    (FOpL / FOpC / FOpBad of Dpos/LibFail.v when blocks fail at execution)."""
    blocks = {0: (0, -1, 0)}
    terms = []
    j = 0
    f = "F" if sc.get("fail") else ""
    for op in sc["ops"]:
        if op[0] in ("B", "BX", "BR"):
            blocks[op[1]] = (op[1], op[2], blocks[op[2]][2] + 1)
            if op[0] == "BX":
                terms.append("FOpBad %s" % Z(op[1]))
            if op[0] == "BR":
                terms.append("FOpRef %s" % Z(op[1]))
        elif op[0] == "L":
            terms.append("%sOpL %s" % (f, Z(op[1])))
        elif op[0] == "D":
            o = obs[j]
            j += 1
            b = blocks[op[1]]
            flat = list(o["calls"] or []) + [o["best"], len(o["main"] or [])] + list(o["main"] or [])
            h = 5381
            for x in flat:
                h = ((h << 5) + h + x + 7) & HASH_MASK
            terms.append("%sOpC (mkBlk %s %s %s (-1) 0) %s" % (f, Z(b[0]), Z(b[1]), Z(b[2]), Z(h)))
    return "((20000,(-1)),[%s])" % ";\n".join(terms)


def election_flat(code, o):
    return flat_obs(code, o) + [o["size"]] + list(o["cluster"] or []) + [o["mem"]]


def election_case(sc, obs):
    """Coq ecase (gen, self, states, block->state, ops) for Dpos/Election.v."""
    states = ["(0,([],%s))" % Z(sc["n"])]
    bs, terms = [], []
    blocks = {0: (0, -1, 0, -1, 0)}
    j = 0
    for op in sc["ops"]:
        if op[0] == "T":
            states.append("(%s,([%s],%s))" % (Z(op[1]), ";".join(Z(x) for x in op[2]), Z(op[3])))
        elif op[0] == "B":
            _, i, parent, bp, conf, sid = op
            blocks[i] = (i, parent, blocks[parent][2] + 1, bp, conf)
            bs.append("(%s,%s)" % (Z(i), Z(sid)))
        else:
            o = obs[j]
            j += 1
            if op[0] == "D":
                b = blocks[op[2]]
                h = 5381
                for x in election_flat(RES[o["res"]], o):
                    h = ((h << 5) + h + x + 7) & HASH_MASK
                terms.append("EOpD (mkBlk %s %s %s %s %s) %s" % (Z(b[0]), Z(b[1]), Z(b[2]), Z(b[3]), Z(b[4]), Z(h)))
            else:
                h = 5381
                for x in election_flat(CODE_R, o):
                    h = ((h << 5) + h + x + 7) & HASH_MASK
                terms.append("%s %s" % ("EOpR" if op[0] == "R" else "EOpS", Z(h)))
    me = sc["self"][0] if sc.get("self") and sc["self"][0] >= 0 else -1
    return "([%s],%s,[%s],[%s],[%s])" % (";".join(Z(x) for x in range(sc["n"])), Z(me), ";".join(states),
                                         ";".join(bs), ";\n".join(terms))


def election_predicates(sc, obs, stats):
    """Direct predicates on the implementation for the election scenarios."""
    fails = []
    n = sc["n"]
    gen = list(range(n))
    # a scenario in which BPCOUNT changes exercises the known finding (ranking cut at the in-memory value)
    bpcount_changes = any(op[0] == "T" and op[3] != n for op in sc["ops"])
    KF = "C08:bp-snapshot-bpcount-from-memory"
    states = {0: ([], n)}
    blocks = {0: {"parent": None, "no": 0, "sid": 0}}
    prev = None
    ever = set()     # producers holding an entry of the proposal map
    j = 0
    for k, op in enumerate(sc["ops"]):
        if op[0] == "T":
            states[op[1]] = (op[2], op[3])
            continue
        if op[0] == "B":
            blocks[op[1]] = {"parent": op[2], "no": blocks[op[2]]["no"] + 1, "sid": op[5]}
            continue
        o = obs[j]
        j += 1
        st = o["state"]
        main = o["main"]
        bestno = len(main) - 1
        r = 0 if bestno < 300 else (bestno // 100 - 1) * 100
        if r == 0:
            spec = gen
        else:
            rk, c = states[blocks[main[r]]["sid"]]
            spec = rk[:c]
        stats["election_steps"] = stats.get("election_steps", 0) + 1
        def f23_class(x, y):
            # signature of the known finding: the same ranking cut at another length
            k = min(len(x), len(y))
            return bpcount_changes and len(x) != len(y) and x[:k] == y[:k]
        if o["res"] in ("connected", "reorg", "restored"):
            if o["cluster"] != spec:
                fails.append((KF if f23_class(o["cluster"], spec) else "C08:producer-set-not-function-of-chain",
                              "producer set %s after block %d is not the ranking %s committed at reference height %d"
                              % (o["cluster"], bestno, spec, r), {"op_index": k}))
            if st["cr"] != (2 * o["size"]) // 3 + 1:
                fails.append(("C08:confirms-required-not-current",
                              "confirmsRequired %d with %d current producers" % (st["cr"], o["size"]), {"op_index": k}))
        if op[0] in ("S", "R") and prev is not None and o["cluster"] != prev["cluster"]:
            fails.append((KF if f23_class(o["cluster"], prev["cluster"]) else "C08:producer-set-differs-after-restart",
                          "producer set after restart %s differs from the one computed online %s for the same chain"
                          % (o["cluster"], prev["cluster"]), {"op_index": k}))
        if o["res"] == "connected" and bestno % 100 == 0 and bestno > 0:
            stats["election_boundaries"] = stats.get("election_boundaries", 0) + 1
            extra = [e["bp"] for e in st["prpsd"] or [] if e["bp"] not in o["cluster"]]
            if extra:
                fails.append(("C08:retired-producer-proposal-kept",
                              "proposals of producers %s outside the producer set %s kept after the boundary %d"
                              % (extra, o["cluster"], bestno), {"op_index": k}))
        # the proposal map loses a producer only through gc(bps) with a BP list that does not contain it:
        # never on an ordinary block (gc(nil)); on a snapshot block only producers outside the list
        # (the vote ranking of that block's state, or the refreshed producer set) - in particular an
        # entry still holding the genesis placeholder stays and keeps counting in calcLIB's quantile
        cur = {e["bp"] for e in st["prpsd"] or []}
        if op[0] == "D" and o["res"] == "connected":
            lost = ever - cur
            if lost and bestno % 100 == 0 and bestno > 0:
                rk, c = states[blocks[main[bestno]]["sid"]]
                cuts = [c, o.get("mem", c)] + ([prev["mem"]] if prev is not None and "mem" in prev else [])
                sure = set(rk[:min(cuts)]) & set(o["cluster"])
                legit = lost - sure
                ever -= legit
                lost = lost - legit
            if lost:
                fails.append(("C08:proposal-entry-dropped",
                              "after block %d the proposal map has no entry for producers %s that had one and are in the BP list "
                              "of the cleanup: calcLIB takes its two-thirds quantile over %d instead of %d producers"
                              % (bestno, sorted(lost), len(cur), len(cur | ever)), {"op_index": k, "prpsd": st["prpsd"]}))
            ever |= cur
            boundary = bestno % 100 == 0
            if prev is not None and st["lib_no"] != prev["state"]["lib_no"] and st["prpsd"] and not boundary:
                np_ = len(cur | ever)
                sup = sum(1 for e in st["prpsd"] if e["plib_no"] >= st["lib_no"])
                if sup < np_ - (np_ - 1) // 3 and len(cur) != np_:
                    fails.append(("C08:lib-without-support",
                                  "LIB %d supported by the proposals of %d of the %d producers that have (had) an entry in the map, %d needed"
                                  % (st["lib_no"], sup, np_, np_ - (np_ - 1) // 3), {"op_index": k, "prpsd": st["prpsd"]}))
        elif op[0] in ("D", "R"):
            ever = set(cur)          # reorganisation / restart: gc with the fork point's BP list, rebuild
        if op[0] in ("D", "R"):
            prev = o
    return fails


def load_corpus():
    d = os.path.join(vf.VERIF, "corpus", "C08")
    out = []
    if os.path.isdir(d):
        for f in sorted(os.listdir(d)):
            if f.endswith(".json"):
                sc = json.load(open(os.path.join(d, f)))
                sc["name"] = f[:-5]
                out.append(sc)
    return out


def run(ctx):
    import time
    T = {}
    t0 = time.time()
    pr = ctx.prove(extra_targets=["Dpos/LibFail.vo", "Dpos/LibCrash.vo", "Dpos/Election.vo"])   # models used by the case files
    T['prove'] = round(time.time() - t0, 1)
    t0 = time.time()
    quick = ctx.tier == "quick"
    ctx.cov["trusted_base"] = [
        "Coq 8.16.1 kernel + vm_compute", "Go toolchain + overlay build of package dpos",
        "engine's mirror of ChainService.addBlock/reorg call order around Status (harness/engines/dposlib)",
        "in-memory consensus.ChainDB of the engine", "emulated marker-recovery sequence and in-memory BPCOUNT life cycle",
        "60-bit observation hash", "scenario generator lib/c08gen.py", "libp2p secp256k1 (block ids / producer ids)"]
    ctx.assumptions = [
        "block hashes are injective identifiers; a block's number is its parent's number + 1 (validated by chain before Update)",
        "node histories of the dpos engine keep the producer set static (heights below the bootstrap height 300); producer-set "
        "changes are driven by the election engine (chains of 405-440 blocks) with no transaction executed: the in-memory BPCOUNT "
        "life cycle is emulated from the source",
        "block numbers < 2^63, producer count < 21845 (no uint16 overflow in confirmsRequired*3)",
        "the dpos engine calls Status in ChainService's order; that order (incl. failure and refusal sequences) is compared with the "
        "real ChainService by the chain engine on every run; the recovery sequence after a crash inside a reorg is read from "
        "chain/recover.go and chain/reorg.go, not driven through the real ChainService"]
    rc, log, binpath = ctx.go_test_binary(
        "consensus/impl/dpos", [os.path.join(vf.HARNESS, "engines/dposlib/zz_verif_c08_engine_test.go"),
                                os.path.join(vf.HARNESS, "engines/dposlib/zz_verif_c08_election_engine_test.go")], "dpos_c08.test")
    if rc != 0:
        raise RuntimeError("C08 engine build failed:\n" + log[-3000:])

    T['build'] = round(time.time() - t0, 1)
    t0 = time.time()
    rng = ctx.rng
    corpus_all = load_corpus()
    corpus = [c for c in corpus_all if not c.get("election")]
    scen = list(corpus)
    scen += G.generate(rng, quick)
    if getattr(ctx, "replay", None):
        # bin/check C08 --replay replays/C08/<n>.json: run only the recorded scenario
        rp = json.load(open(ctx.replay)).get("replay", {})
        one = rp.get("scenario") or (rp.get("cases") or [{}])[0].get("scenario")
        if one and not one.get("chain"):
            scen = [one]
    obs = run_engine(ctx, binpath, scen, "c08")
    T['engine'] = round(time.time() - t0, 1)
    t0 = time.time()

    stats = {"deliveries": 0, "restarts": 0, "restart_prpsd_diff": 0, "restart_prpsd_diff_above_lib": 0,
             "plib_changes": 0, "lib_changes": 0}
    pred_fail = []
    disagreements = []
    cases, case_src = [], []
    fcases, fcase_src = [], []
    ccases, ccase_src = [], []
    shapes = set()
    for sc, ob in zip(scen, obs):
        fails = direct_predicates(sc, ob, stats)
        for key, what, detail in fails:
            pred_fail.append((key, what, {"scenario": sc, "detail": detail}))
        if sc.get("nodes", 1) > 1:
            why = honest_history(sc, ob)
            if why:
                stats["multi_node_discarded_not_honest"] = stats.get("multi_node_discarded_not_honest", 0) + 1
                if sc.get("name"):
                    ctx.notes.append("corpus %s is not an honest history on this tree: %s" % (sc["name"], why))
            else:
                dis = agreement(sc, ob)
                if dis:
                    disagreements.append((sc, dis))
        for nd, term, src in node_cases(sc, ob):
            if sc.get("crash"):
                ccases.append(term)
                ccase_src.append((sc, nd, src))
            elif sc.get("fail"):
                fcases.append(term)
                fcase_src.append((sc, nd, src))
            else:
                cases.append(term)
                case_src.append((sc, nd, src))
        for o in ob:
            s = o["state"]
            shapes.add((sc["n"], o["op"], o["res"], len(s["prpsd"] or []), len(s["confirms"] or []), min(s["lib_no"], 40)))
    T['predicates'] = round(time.time() - t0, 1)
    t0 = time.time()
    # ---- chain-side tie: real ChainService.addBlock/reorg with a recording consensus stub
    rc, log, chainbin = ctx.go_test_binary(
        "chain", [os.path.join(vf.HARNESS, "engines/dposlib/zz_verif_c08_chain_engine_test.go")], "chain_c08.test")
    if rc != 0:
        raise RuntimeError("C08 chain engine build failed:\n" + log[-3000:])
    cscen = G.generate_chain(rng, quick)
    cobs = run_engine(ctx, chainbin, cscen, "c08chain", test="TestVerifC08ChainEngine")
    chain_pred = []
    for sc, ob in zip(cscen, cobs):
        if sc.get("fail"):
            fcases.append(chain_case(sc, ob))
            fcase_src.append((sc, 0, [(k, None) for k, op in enumerate(sc["ops"]) if op[0] in ("D", "L", "BX", "BR")]))
        else:
            cases.append(chain_case(sc, ob))
            case_src.append((sc, 0, [(k, {"res": "chain", "op": "C", "state": None, "chain_obs": o})
                                     for k, o in zip([k for k, op in enumerate(sc["ops"]) if op[0] == "D"], ob)]))
        # direct predicates on the real chain service: never a reorg after a refused NeedReorganization,
        # main chain at heights <= scripted LIB never changes
        lib, prev_main, prev_best = 0, [0], 0
        j = 0
        for op in sc["ops"]:
            if op[0] == "L":
                lib = op[1]
            elif op[0] == "D":
                o = ob[j]
                j += 1
                m = o["main"]
                for h in range(0, min(lib, len(prev_main) - 1) + 1):
                    if h >= len(m) or m[h] != prev_main[h]:
                        chain_pred.append(("C08:chain-finalized-block-replaced",
                                           "real ChainService replaced the block at height %d <= LIB %d" % (h, lib),
                                           {"scenario": sc, "detail": {"before": prev_main, "after": m}}))
                        break
                # what a restart right after this call would load: the status saved in the chain DB must be
                # the status after the last Update of a committed call (connect or reorganisation)
                if o["best"] != prev_best and o.get("saved", o["best"]) != o["best"]:
                    chain_pred.append(("C08:status-not-saved-with-chain-tip",
                                       "after the best block changed to %d the consensus status saved in the chain DB is the one of "
                                       "block %d: a restart now loads a status that is not the running one" % (o["best"], o.get("saved", -1)),
                                       {"scenario": sc, "detail": {"main": m, "calls": o["calls"]}}))
                prev_best = o["best"]
                prev_main = m
    pred_fail += chain_pred
    stats["chain_service_deliveries"] = sum(len(o) for o in cobs)
    # ---- election scenarios: real bp.Cluster / bp.Snapshots / system.GetRankers under the real NewStatus
    escen = [c for c in corpus_all if c.get("election")] + G.generate_election(rng, quick)
    eobs = run_engine(ctx, binpath, escen, "c08election", test="TestVerifC08ElectionEngine")
    ecases = []
    for sc, ob in zip(escen, eobs):
        for key, what, detail in direct_predicates(sc, ob, stats) + election_predicates(sc, ob, stats):
            pred_fail.append((key, what, {"scenario_name": sc.get("name", "generated"), "scenario": sc, "detail": detail}))
        ecases.append(election_case(sc, ob))
    ebad, eout = election_eval(ctx, ecases)
    fbad, fout = model_eval(ctx, "c08_fail_cases", fcases, typ="(Z*Z) * list fop", fn="fscenario_first_diff",
                            imp="Dpos.Lib Dpos.LibFail")
    bad, out = model_eval(ctx, "c08_cases", cases)
    T['model_eval'] = round(time.time() - t0, 1)
    ctx.cov['timing_s'] = T
    corr_broken = None
    if bad is None:
        corr_broken = ("C08 correspondence could not be evaluated", out[-2000:])
    elif bad:
        det = []
        for ci in sorted(bad, key=lambda c: len(case_src[c][0]["ops"]))[:2]:
            sc, nd, src = case_src[ci]
            k, o = src[min(bad[ci], len(src) - 1)] if sc.get("chain") is None else (None, None)
            if sc.get("chain"):
                det.append({"scenario": sc, "first_differing_op(count of L and D ops)": bad[ci],
                            "model_obs": model_obs_at(ctx, cases[ci], bad[ci]),
                            "obs_layout": "consensus calls (1 no = VerifyTimestamp, 2 root = NeedReorganization, 3 id = Update, "
                                          "4 = Save), best id, |main|, ids*", "implementation_obs": [x[1]["chain_obs"] for x in src]})
                continue
            code = RES.get(o["res"], CODE_G if o["op"] == "G" else CODE_R)
            det.append({"scenario": sc, "node": nd, "op_index": k, "implementation_obs": flat_obs(code, o),
                        "model_obs": model_obs_at(ctx, cases[ci], bad[ci]),
                        "obs_layout": "code, lib id, lib no, lpb, cr, best, |prpsd|, (bp, plib id, plib no, by id, by no)*, "
                                      "|confirms|, (id, no, bp, range, left)*, |main|, ids*"})
        corr_broken = ("model/implementation differ on %d of %d node histories" % (len(bad), len(cases)), det)

    cbad, cout = model_eval(ctx, "c08_crash_cases", ccases, typ="(Z*Z) * list cop", fn="cscenario_first_diff",
                            imp="Dpos.Lib Dpos.LibCrash")
    if cbad is None:
        corr_broken = corr_broken or ("C08 crash-recovery correspondence could not be evaluated", cout[-2000:])
    elif cbad and not corr_broken:
        ci = sorted(cbad, key=lambda c: len(ccase_src[c][0]["ops"]))[0]
        sc, nd, src = ccase_src[ci]
        k, o = src[min(cbad[ci], len(src) - 1)]
        corr_broken = ("crash-recovery model/implementation differ on %d of %d histories" % (len(cbad), len(ccases)),
                       [{"scenario": sc, "op_index": k, "implementation_obs": flat_obs(RES.get(o["res"], CODE_R), o)}])
    if fbad is None:
        corr_broken = corr_broken or ("C08 failure-path correspondence could not be evaluated", fout[-2000:])
    elif fbad and not corr_broken:
        ci = sorted(fbad, key=lambda c: len(fcase_src[c][0]["ops"]))[0]
        sc, nd, src = fcase_src[ci]
        k, o = src[min(fbad[ci], len(src) - 1)]
        corr_broken = ("execution-failure model/implementation differ on %d of %d histories" % (len(fbad), len(fcases)),
                       [{"scenario": sc, "op_index": k, "implementation_obs": flat_obs(RES.get(o["res"], CODE_R), o) if o else None,
                         "first_differing_model_op": fbad[ci]}])
    if ebad is None:
        corr_broken = corr_broken or ("C08 election correspondence could not be evaluated", eout[-2000:])
    elif ebad and not corr_broken:
        ci = sorted(ebad)[0]
        steps = [(k, op) for k, op in enumerate(escen[ci]["ops"]) if op[0] in ("D", "S", "R")]
        k, op = steps[ebad[ci]]
        o = eobs[ci][ebad[ci]]
        corr_broken = ("election model/implementation differ on %d of %d histories" % (len(ebad), len(ecases)),
                       [{"scenario": escen[ci], "op_index": k, "op": op,
                         "implementation_obs": election_flat(RES.get(o["res"], CODE_R), o),
                         "model_obs": election_obs_at(ctx, ecases[ci], ebad[ci]),
                         "obs_layout": "as for the dpos engine, then producer-set size and members"}])
    nobs = sum(len(o) for o in obs) + sum(len(o) for o in cobs) + sum(len(o) for o in eobs)
    ctx.cov["evaluations"] = nobs
    ctx.cov["traces_validated_against_impl"] = len(cases)
    ctx.cov["distinct_nontrivial"] = len(shapes)
    ctx.cov["chain_service_tie"] = ("real ChainService.addBlock/reorg with a recording consensus stub (scripted LIB): the sequence of "
                                    "VerifyTimestamp/VerifySign/NeedReorganization/IsBlockValid/Update/Save calls (incl. blocks that fail "
                                    "at execution or are refused by IsBlockValid), best block, main chain equal the model's deliver / "
                                    "deliver_f and the status read back from the chain DB is the one of the new tip on %d deliveries" % sum(len(o) for o in cobs))
    ctx.cov["rule"] = ("one evaluation = one delivery/restart step on a real Status compared with the model (LIB, Prpsd, confirms list "
                       "with confirmsLeft, LpbNo, confirmsRequired, best, main chain, outcome); distinct = distinct (producer count, "
                       "op, outcome, |Prpsd|, |confirms|, LIB height capped at 40) tuples")
    dist = {k: v for k, v in stats.items()}
    dist["scenarios"] = len(scen)
    dist["corpus"] = len(corpus)
    dist["node_histories"] = len(cases)
    dist["producer_counts"] = sorted({s["n"] for s in scen})
    dist["exhaustive_families"] = ("all producer schedules: n=1 len 4, n=2 len 5" if quick else
                                   "all producer schedules: n=1 len 6, n=2 len 9, n=3 len 7, n=4 len 5")
    dist["multi_node_scenarios"] = sum(1 for s in scen if s.get("nodes", 1) > 1)
    dist["disagreements_found"] = len(disagreements)
    ctx.cov["input_distribution"] = dist
    for sc, ob in list(zip(scen, obs))[:2]:
        ctx.sample({"scenario": sc.get("name", "generated"), "n": sc["n"], "ops": len(sc["ops"]), "last_obs": ob[-1] if ob else None})

    # ---- decide: direct-predicate failures first
    reported = set()
    real_fail = False
    for key, what, rep in pred_fail:
        if key in reported:
            continue
        reported.add(key)
        if ctx.finding(key, what, rep):
            real_fail = True
    for sc, dis in disagreements:
        byz_inflated = sc.get("inflated", False)
        key = "C08:agreement-confirms-unvalidated" if byz_inflated else "C08:agreement-equivocation-partition"
        if key in reported:
            continue
        reported.add(key)
        if ctx.finding(key, "two correct nodes hold LIBs on conflicting branches with f < n/3", {"scenario": sc, "libs": dis}):
            real_fail = True
    # corpus expectations: the known witnesses must reproduce on the real code
    for sc, ob in zip(scen, obs):
        exp = sc.get("expect")
        if exp == "disagree" and not agreement(sc, ob):
            ctx.notes.append("corpus %s: expected disagreement did not reproduce" % sc.get("name"))
    if not pr["ok"] and not real_fail:
        ctx.violation("proof obligation no longer checks: %s" % pr["broken"],
                      {"theorem_or_file": pr["broken"], "log": pr["log"][-3000:]}, no_input=True)
    if corr_broken and not real_fail:
        ctx.violation("correspondence broken: " + corr_broken[0],
                      {"correspondence": corr_broken[0], "cases": corr_broken[1]}, no_input=True)

"""C09 Block producer legitimacy.
Proof: coq/Properties/C09.v (slot ownership, rotation, membership, future rule).
Correspondence: real slot package + real DPoS.IsBlockValid/VerifySign/VerifyTimestamp vs the
Gallina model evaluated by vm_compute on the same cases."""
import json
import os
import sys
import vf
sys.path.insert(0, os.path.join(vf.VERIF, "lib"))
import c09chain

META = {
    "text": "25 theorems (Coq, no axioms). Slot level (10+2): clock and block timestamps on one grid (a timestamp is future iff its slot is >= 2 ahead of the slot of the clock reading, for every sub-ms phase), one owning producer index per instant, slots ((k-1)iv, k*iv] rotating mod n, "
            "two valid signers of a timestamp are equal, non-members never valid, >= 2 intervals ahead is future; signed digest covers every "
            "header field but Sign (cites C19). Chain-service level (Dpos/Accept.v mirrors addBlock/addBlockInternal/chainProcessor/"
            "resolveOrphan/orphan pool/reorg in the order the code checks), FULL for every arrival sequence (any order, duplicates, "
            "children first, forged twins): a main-chain block has a verifying signature, was not future at one of its arrivals and its "
            "signer owns its slot in the producer set in force after its own parent (induction over arrivals with the orphan-pool "
            "invariant); stored side-branch blocks and parked orphans satisfy the signature and clock clauses; forged / always-future "
            "blocks are never kept. PARTIAL: same-chain-same-producers while BPCOUNT is unchanged (C08's F23). REFUTED witnesses kept: "
            "parent clause for the unrepaired reorg (flag f42 false; fixed in 05cfcb8b); a clock rounded to the ms; raftv2 checks only the signature, sbp nothing "
            "(property written for DPoS). Tie to /repo on every run: real slot package incl. a clock-bracket predicate (n0 <= Now().timeNs <= n1, indices of that reading), real DPoS verification functions, a real "
            "ChainService fed real signed blocks behind (A) an adapter with the DPoS bodies + scripted set changes and (B) the real DPoS "
            "object (result, consensus call order, main chain, chain DB, orphan pool, errBlocks after every arrival, vm_compute compare), "
            "real raftv2/sbp factories, g5's election family (real NewStatus/bp.Snapshots over forks, boundaries, restarts), and the "
            "property itself as direct predicates on the observations.",
    "note": "Trusted: Coq kernel/vm_compute (no axioms); harnesses and generators (checks/C09.py, lib/c09chain.py, lib/c08election.py); "
            "ECDSA as an oracle bit, cross-checked against block.VerifySign on every block (coverage of each header field checked by "
            "mutation, proved at byte level in C19); source flag f42 read from chain/reorg.go. Modelled, not verified: engine A's adapter "
            "(package chain cannot import dpos) copies three DPoS method bodies over the real slot/bp.Cluster/types code; the producer "
            "set is a function of the last block given to consensus.Update (scripted per block in A, fixed 7-producer set in B, real "
            "elections only in the election family, not together with the chain service); body validation + execution is one bit; the LIB "
            "part of VerifyTimestamp/NeedReorganization, own-produced blocks and errBlocks eviction (128) are outside (C08/C05). "
            "Assumptions: timestamps in [0, 2^62) ns, producer set non-empty and <= 65535.",
    "technique": "Coq proof over Gallina slot + acceptance-pipeline models, vm_compute correspondence against real slot/dpos/chain/raftv2/sbp packages",
}

FIELDS = ["ChainID", "PrevBlockHash", "BlockNo", "Timestamp", "BlocksRootHash", "TxsRootHash",
          "ReceiptsRootHash", "Confirms", "PubKey", "CoinbaseAccount", "Consensus", "Sign"]


def gen_slot_cases(ctx):
    rng = ctx.rng
    quick = ctx.tier == "quick"
    cases = []
    ivs = [1, 2, 3, 5]
    ns_list = list(range(1, 101)) if not quick else [1, 2, 3, 4, 5, 7, 13, 23, 32, 64, 99, 100]
    for iv in ivs:
        ivms = iv * 1000
        for n in ns_list:
            # boundaries of slots around 0, around a round wrap-around (k = multiples of n)
            ks = {0, 1, 2, n - 1, n, n + 1, 2 * n, rng.randrange(1, 10 ** 9)}
            for k in ks:
                if k < 0:
                    continue
                base = k * ivms
                for dms in (-2, -1, 0, 1, 2):
                    ms = base + dms
                    if ms < 0:
                        continue
                    for dns in (0, 1, 999999):
                        cases.append(("S", iv, n, ms * 1000000 + dns, 0))
        # millisecond sweep across two whole slots
        span = range(0, 2 * ivms + 3) if not quick else range(0, 2 * ivms + 3, 7)
        for ms in span:
            cases.append(("S", iv, 23, (1700000000000 + ms) * 1000000, 0))
    for _ in range(200 if quick else 3000):
        iv = rng.choice(ivs)
        a = rng.randrange(0, 2 ** 62)
        b = a + rng.randrange(-3 * iv * 10 ** 9, 3 * iv * 10 ** 9)
        cases.append(("R", iv, 1, a, max(b, 0)))
        cases.append(("S", iv, rng.randrange(1, 101), a, 0))
    for iv in ivs:
        ivns = iv * 10 ** 9
        for q in range(-12, 13):
            cases.append(("F", iv, 1, q * ivns // 4, 0))
    # clock bracket: slot.Now() is the slot of a clock reading taken between two readings of our own
    for iv in ivs:
        cases.append(("C", iv, 1, 150, rng.randrange(0, 2 ** 62)))
    if not quick:
        # phase probe: IsFuture asked during the last half millisecond of a slot
        cases.append(("P", 1, 1, 6, 40))
    return cases


def run(ctx):
    import time
    T = {}
    ctx.cov["timing_s"] = T
    t0 = time.time()
    pr = ctx.prove()
    T["prove"] = round(time.time() - t0, 1)
    ctx.cov["trusted_base"] = [
        "Coq 8.16.1 kernel + vm_compute", "Go toolchain", "overlay build of package dpos (VM stub irrelevant here)",
        "libp2p secp256k1 (signature oracle)", "case generator checks/C09.py + lib/c09chain.py",
        "overlay build of packages chain, raftv2, sbp; consensus adapter of harness/engines/c09chain (DPoS function bodies over real slot/bp/types)",
        "genesis block and state of a testnet ChainService on a private memorydb",
    ]
    ctx.assumptions = ["timestamps are non-negative and below 2^62 ns (no int64 overflow)",
                       "producer set non-empty (Go would divide by zero otherwise) and <= 65535 members",
                       "ECDSA verification is an oracle (sig_ok bit)",
                       "chain level: producer set is a function of the last block passed to consensus.Update (scripted per block); fewer than 128 errored blocks; "
                       "block body validation + execution abstracted to one bit; LIB rules not applied"]
    # ---- engines
    rc, log, slotbin = c09chain.go_test_binary_cached(
        ctx, "consensus/impl/dpos/slot", [os.path.join(vf.HARNESS, "engines/slot/zz_verif_slot_engine_test.go")],
        "slot.test", use_overlay=False)
    if rc != 0:
        raise RuntimeError("slot engine build failed:\n" + log[-3000:])
    rc, log, dposbin = c09chain.go_test_binary_cached(
        ctx, "consensus/impl/dpos", [os.path.join(vf.HARNESS, "engines/dpos/zz_verif_c09_engine_test.go")], "dpos_c09.test")
    if rc != 0:
        raise RuntimeError("dpos engine build failed:\n" + log[-3000:])

    # ---- slot arithmetic
    cases = gen_slot_cases(ctx)
    fin = os.path.join(ctx.workdir, "slot.in")
    fout = os.path.join(ctx.workdir, "slot.out")
    with open(fin, "w") as f:
        for c in cases:
            f.write("%s %d %d %d %d\n" % c)
    rc, log = ctx.run_bin(slotbin, ["-test.run", "TestVerifSlotEngine"], env={"VERIF_IN": fin, "VERIF_OUT": fout})
    if rc != 0:
        raise RuntimeError("slot engine failed:\n" + log[-3000:])
    S, F, R, CB, TM, PH = [], [], [], [], [], []
    for line in open(fout):
        p = line.split()
        if p[0] == "C":
            CB.append([int(x) for x in p[1:]])
        elif p[0] == "T":
            TM.append([int(x) for x in p[1:]])
        elif p[0] == "P":
            PH.append((int(p[1]), int(p[2]), int(p[3]), int(p[4]), p[5] == "true", int(p[6]), p[7] == "true"))
        elif p[0] == "S":
            S.append([int(x) for x in p[1:]])
        elif p[0] == "F":
            F.append((int(p[1]), int(p[2]), int(p[3]), int(p[4]), p[5] == "true"))
        elif p[0] == "R":
            R.append((int(p[1]), int(p[2]), int(p[3]), p[4] == "true", p[5] == "true", p[6] == "true"))
    Z = vf.coq_Z
    B = lambda b: "true" if b else "false"
    CH = 1500  # cases per definition (a single huge list literal overflows coqc's parser stack)
    txt = ["From Coq Require Import ZArith List Bool.", "From Verif Require Import Dpos.Slot.", "Import ListNotations.",
           "Open Scope Z_scope."]
    nchunks = 0
    for c0 in range(0, len(S), CH):
        items = ["((%s,%s,%s),(%s,%s,%s,%s))" % (Z(iv * 1000), Z(n), Z(ns), Z(ms), Z(pi), Z(ni), Z(bi))
                 for iv, n, ns, ms, pi, ni, bi in S[c0:c0 + CH]]
        txt += ["Definition cases%d : list ((Z*Z*Z)*(Z*Z*Z*Z)) := [%s]." % (nchunks, ";\n".join(items)),
                "Definition MS%d := Eval vm_compute in slot_mismatches cases%d." % (nchunks, nchunks), "Print MS%d." % nchunks]
        nchunks += 1
    # relations and future
    rel = ["((%s,%s,%s),(%s,%s,%s))" % (Z(iv * 1000), Z(a), Z(b), B(e), B(nx), B(le)) for iv, a, b, e, nx, le in R]
    txt += ["Definition rel_ok (c : (Z*Z*Z)*(bool*bool*bool)) : bool :=",
            "  let '((iv,a,b),(e,nx,le)) := c in let s1 := from_unix_ns iv a in let s2 := from_unix_ns iv b in",
            "  Bool.eqb (slot_equal s1 s2) e && Bool.eqb (is_next_to s1 s2) nx && Bool.eqb (s_next s1 <=? s_next s2) le.",
            "Definition rcases := [%s]." % ";\n".join(rel),
            "Definition MR := Eval vm_compute in mismatches_from rel_ok rcases 0.", "Print MR."]
    fut = ["((%s,%s,%s,%s),%s)" % (Z(iv * 1000), Z(ts), Z(n0), Z(n1), B(r)) for iv, ts, n0, n1, r in F]
    txt += ["Definition fut_ok (c : (Z*Z*Z*Z)*bool) : bool :=",
            "  let '((iv,ts,n0,n1),r) := c in",
            "  Bool.eqb (is_future (from_unix_ns iv ts) (from_unix_ns iv n0)) r || Bool.eqb (is_future (from_unix_ns iv ts) (from_unix_ns iv n1)) r.",
            "Definition fcases := [%s]." % ";\n".join(fut),
            "Definition MF := Eval vm_compute in mismatches_from fut_ok fcases 0.", "Print MF."]
    clk = ["((%s,%s,%s),(%s,%s,%s,%s))" % (Z(iv * 1000), Z(n0), Z(n1), Z(ns), Z(ms), Z(pi), Z(ni))
           for iv, n0, ns, n1, ms, pi, ni, m0, rem, m1 in CB]
    clk += ["((%s,%s,%s),(%s,%s,%s,%s))" % (Z(iv * 1000), Z(t), Z(t), Z(ns), Z(ms), Z(pi), Z(ni)) for iv, t, ns, ms, pi, ni in TM]
    txt += ["Definition ccases := [%s]." % ";\n".join(clk),
            "Definition MC := Eval vm_compute in mismatches_from clock_case_ok ccases 0.", "Print MC."]
    slot_txt = txt            # evaluated below together with the block validity cases (one coqc start-up)
    evals = len(S) + len(R) + len(F) + len(CB) + len(TM) + len(PH)
    corr_broken = None
    # direct predicate on the implementation: uniqueness of owner per instant, slot partition
    pred_fail = []
    for iv, n, ns, ms, pi, ni, bi in S:
        ivms = iv * 1000
        if not (0 <= bi < n):
            pred_fail.append(("owner index out of range", [iv, n, ns, bi]))
    for x in S[:3]:
        ctx.sample({"slot_case(iv_s,n,ns,ms,prev,next,owner)": x})
    # clock bracket (direct, no model): the slot of the local clock is the slot of a reading of the real
    # clock taken during the call, on the same grid as block timestamps (ms = ns // 10^6, index = ceil(ms/iv))
    clock_bad = []
    for c in CB:
        iv, n0, ns, n1, ms, pi, ni, m0, rem, m1 = c
        ivms = iv * 1000
        if not (n0 <= ns <= n1):
            clock_bad.append(("slot.Now() carries a time outside the bracket of the real clock around the call "
                              "(%+d ns after the later reading)" % (ns - n1) if ns > n1 else
                              "slot.Now() carries a time before the earlier clock reading (%d ns)" % (n0 - ns), c))
        elif ms != ns // 10 ** 6 or ni != (ms + ivms - 1) // ivms or pi != (ms - 1) // ivms:
            clock_bad.append(("slot.Now(): millisecond / slot indices are not those of its own clock reading", c))
        elif not (ni * ivms - m1 <= rem <= ni * ivms - m0):
            clock_bad.append(("Slot.RemainingTimeMS is not the distance from the bracketed clock to the slot end", c))
    if CB and all(c[2] % 10 ** 6 == 0 for c in CB) and not all(c[1] % 10 ** 6 == 0 for c in CB):
        clock_bad.append(("slot.Now() drops the sub-millisecond part of the clock reading (every reading is a whole millisecond "
                          "while the real clock is not): the clock is not on the grid of block timestamps", CB[:3]))
    for iv, t, ns, ms, pi, ni in TM:
        ivms = iv * 1000
        if ns != t or ms != t // 10 ** 6 or ni != (ms + ivms - 1) // ivms:
            clock_bad.append(("slot.Time(t) is not the slot of t's own nanoseconds", [iv, t, ns, ms, pi, ni]))
    nprobe = 0
    for iv, t0, ts, t1, got, t2, near in PH:
        ivms = iv * 1000
        sl = lambda ns: (ns // 10 ** 6 + ivms - 1) // ivms
        if sl(t0) == sl(t1):
            nprobe += 1
            if sl(ts) >= sl(t0) + 2 and not got:
                clock_bad.append(("timestamp two slots ahead of the clock not reported as future (clock %d us into the last ms of its slot)"
                                  % ((t0 % 10 ** 6) // 1000), [iv, t0, ts, t1, got]))
        if sl(t1) == sl(t2) and near and sl(ts) - 1 <= sl(t1) + 1:
            clock_bad.append(("timestamp of the next slot reported as future", [iv, t1, ts, t2, near]))
    for what, c in clock_bad[:3]:
        pred_fail.append(("C09:clock-off-grid", what, {"clock_case": c, "legend": "C: iv_s n0 now.timeNs n1 timeMs prev next ms0 remaining ms1"}))
    ctx.cov["clock_bracket"] = {"calls": len(CB), "phase_probes_kept": nprobe}

    # ---- membership / signature / future on real blocks
    rng = ctx.rng
    dc = []
    nrand = 40 if ctx.tier == "quick" else 600
    for _ in range(nrand):
        iv = rng.choice([1, 2, 3])
        k = rng.randrange(1, 8)
        members = [rng.randrange(0, 10) for _ in range(k)]
        if rng.random() < 0.7:
            members = list(dict.fromkeys(members))
        signer = rng.choice(members) if rng.random() < 0.7 else rng.randrange(0, 12)
        # pick ts so that roughly half are in the signer's own slot
        base = 1700000000000 + rng.randrange(0, 10 ** 6)
        dc.append({"iv": iv, "members": members, "signer": signer, "ts": base * 1000000 + rng.randrange(0, 10 ** 6),
                   "rel": False, "mutate": ""})
    # for each member of a fixed set, a timestamp in each slot of one round (valid exactly once)
    for iv in (1, 3):
        members = [3, 1, 4, 5, 9]
        for signer in members + [0]:
            for s in range(len(members) + 1):
                ms = 1700000000000 // (iv * 1000) * (iv * 1000) + s * iv * 1000 + 1
                dc.append({"iv": iv, "members": members, "signer": signer, "ts": ms * 1000000, "rel": False, "mutate": ""})
    # elections: the same cluster object is updated through a history of producer sets;
    # validity must depend on the current set only (retired producers are non-members)
    for _ in range(30 if ctx.tier == "quick" else 400):
        k = rng.randrange(1, 7)
        hist = []
        for _h in range(rng.randrange(1, 4)):
            kk = k if rng.random() < 0.7 else rng.randrange(1, 7)
            hist.append(rng.sample(range(0, 12), kk))
        members = rng.sample(range(0, 12), k)
        retired = [m for h in hist for m in h if m not in members]
        signer = rng.choice(retired) if (retired and rng.random() < 0.6) else rng.choice(members)
        iv = rng.choice([1, 2])
        pool = members if signer in members else [h for h in hist if signer in h][-1]
        pos = pool.index(signer)
        # a timestamp in the slot the signer's (former) index owns
        n = len(members)
        kslot = (1700000000000 // (iv * 1000) // n) * n + n + pos
        ms = (kslot - 1) * iv * 1000 + 1 + rng.randrange(0, iv * 1000)
        dc.append({"iv": iv, "history": hist, "members": members, "signer": signer, "ts": ms * 1000000, "rel": False, "mutate": ""})
    # the node booted with another BP count than the set now in force (dpos.New: Init(bpc.Size()) once; an
    # election changed the size since): validity must rotate over the CURRENT size.  Every member x every
    # slot of two rounds, plus an outsider.
    for gcount, members in ((3, [4, 7]), (5, [2, 9, 6]), (2, [1, 3, 5, 8, 0]), (23, [6, 2, 4]), (3, [5])):
        n = len(members)
        for signer in members + [11]:
            for sl in range(2 * max(n, gcount)):
                ms = (1700000000000 // 1000 // 60) * 60 * 1000 + sl * 1000 + 1 + rng.randrange(0, 1000)
                dc.append({"iv": 1, "history": [list(range(gcount))] if gcount <= 12 else [], "members": members, "signer": signer, "ts": ms * 1000000,
                           "rel": False, "mutate": "", "genesis": gcount})
    for c in dc:
        if "genesis" not in c and rng.random() < 0.5:
            c["genesis"] = rng.choice([1, 2, 3, 5, 7, 23])
    # tampered blocks naming another producer (signer 1, 5) and naming the VERIFYING NODE ITSELF (signer 0 = the
    # engine's local p2pkey identity), the latter as a member and as an outsider of the producer set
    for mfield in FIELDS + ["NoSign", "WrongKey"]:
        for signer, members in ((1, [0, 1, 2]), (0, [0, 1, 2]), (0, [3, 4]), (5, [0, 1, 2])):
            dc.append({"iv": 1, "members": members, "signer": signer, "ts": 1700000000001 * 1000000, "rel": False, "mutate": mfield})
    for q in range(-8, 14):
        dc.append({"iv": 1, "members": [0, 1, 2], "signer": 1, "ts": q * 250 * 1000000, "rel": True, "mutate": ""})
    fin = os.path.join(ctx.workdir, "c09.in")
    fout = os.path.join(ctx.workdir, "c09.out")
    with open(fin, "w") as f:
        for c in dc:
            f.write(json.dumps(c) + "\n")
    rc, log = ctx.run_bin(dposbin, ["-test.run", "TestVerifC09Engine"], env={"VERIF_IN": fin, "VERIF_OUT": fout})
    if rc != 0:
        raise RuntimeError("dpos C09 engine failed:\n" + log[-3000:])
    obs = [json.loads(l) for l in open(fout)]
    # DPoS.IsConnectedBlock: addBlock returns nil without any check for a block it reports connected
    fcon = os.path.join(ctx.workdir, "c09conn.out")
    rc, log = ctx.run_bin(dposbin, ["-test.run", "TestVerifC09ConnectedEngine"], env={"VERIF_OUT": fcon})
    if rc != 0:
        raise RuntimeError("dpos C09 connected engine failed:\n" + log[-3000:])
    con = json.loads(open(fcon).read())
    conn_fail = []
    if con != {"stored": True, "twin_same_number": False, "unknown": False, "fork_enabled": True}:
        conn_fail.append(("C09:isconnectedblock", "DPoS.IsConnectedBlock/IsForkEnable: a block that is not in the chain DB is reported connected "
                          "(addBlock would return nil for it unchecked), or forks are disabled", con))
    if len(obs) != len(dc):
        raise RuntimeError("dpos C09 engine: %d observations for %d cases" % (len(obs), len(dc)))
    items = []
    nontriv = set()
    for c, o in zip(dc, obs):
        ids = "[" + ";".join(str(m) for m in c["members"]) + "]"
        # future observable: VerifyTimestamp false <-> is_future (no LIB in this engine)
        # a header whose key was flipped names nobody: the model's signer is an outsider (the engine's "idx" is
        # the index of the key the block was signed with, not of the unparsable header key)
        garbage = c["mutate"] == "PubKey"
        items.append("((%s,%s,%s,%s,%s,%s),(%s,%s,%s))" % (
            Z(c["iv"] * 1000), ids, Z(-1 if garbage else c["signer"]), Z(o["ts"]), Z(o["now0"]), Z(o["now1"]),
            Z(65535 if garbage else o["idx"]), B(o["valid"]), B(not o["ts_ok"])))
        nontriv.add((o["valid"], o["sig_ok"], o["ts_ok"], o["idx"] == 65535, c["mutate"]))
        # direct predicates on the implementation
        if c["mutate"]:
            if c["mutate"] in ("Sign", "NoSign", "WrongKey"):
                if not o["digest_eq"]:
                    pred_fail.append(("signed digest depends on Sign", c))
                if o["hash_eq"]:
                    pred_fail.append(("block hash does not cover Sign", c))
            else:
                if o["digest_eq"]:
                    pred_fail.append(("signed digest does not cover header field " + c["mutate"], c))
                if o["hash_eq"]:
                    pred_fail.append(("block hash does not cover header field " + c["mutate"], c))
            if o["sig_ok"]:
                who = " (block naming the verifying node itself)" if c["signer"] == 0 else ""
                pred_fail.append(("C09:tampered-block-passes-verifysign", "DPoS.VerifySign accepts a block tampered after signing (%s)%s"
                                  % (c["mutate"], who), dict(case=c, obs=o)))
        else:
            if not o["sig_ok"]:
                pred_fail.append(("honest signature rejected", c))
        if (not c["mutate"]) and o["ts"] // 1000000 >= o["now1"] // 1000000 + 2 * c["iv"] * 1000 and o["ts_ok"]:
            pred_fail.append(("timestamp two or more slots ahead of the clock accepted", dict(case=c, obs=o)))
        if c["signer"] not in c["members"] and o["valid"]:
            pred_fail.append(("non-member accepted as producer", c))
        if not c["mutate"]:
            # the rule itself: valid iff the signer's index in the CURRENT set owns the slot, rotation over the current size
            mem, ivms = c["members"], c["iv"] * 1000
            owner = ((o["ts"] // 10 ** 6 + ivms - 1) // ivms) % len(mem)
            expect = c["signer"] in mem and (len(mem) - 1 - mem[::-1].index(c["signer"])) == owner
            if o["valid"] != expect:
                what = ("block by the producer owning its slot in the current set (%d producers, %s at boot) refused by DPoS.IsBlockValid"
                        if expect else "block by a producer that does not own its slot in the current set (%d producers, %s at boot) accepted "
                        "by DPoS.IsBlockValid") % (len(mem), c.get("genesis", "same"))
                pred_fail.append(("C09:slot-owner-refused" if expect else "C09:non-owner-accepted", what, dict(case=c, obs=o)))
    txt = slot_txt + [
           "Definition vok (c : (Z * list Z * Z * Z * Z * Z) * (Z * bool * bool)) : bool :=",
           "  let '((iv, ids, signer, ts, n0, n1), o) := c in",
           "  valid_case_ok ((iv, ids, signer, ts, n0), o) || valid_case_ok ((iv, ids, signer, ts, n1), o).",
           "Definition cases := [%s]." % ";\n".join(items),
           "Definition M := Eval vm_compute in mismatches_from vok cases 0.", "Print M."]
    rc, out = ctx.coq_eval("slot_valid_cases", "\n".join(txt))
    mall = parse_all(out) if rc == 0 else None
    if mall is None or len(mall) != nchunks + 4:
        corr_broken = ("slot / validity correspondence could not be evaluated", out[-2000:])
    else:
        smis = []
        for k in range(nchunks):
            smis += [k * CH + i for i in mall[k]]
        for name, idxs, src in zip(("slot", "relations", "future", "clock bracket"),
                                   [smis, mall[nchunks], mall[nchunks + 1], mall[nchunks + 2]], (S, R, F, CB + TM)):
            if idxs:
                corr_broken = ("model/implementation differ on %s cases" % name, [src[i] for i in idxs[:5]])
        if mall[nchunks + 3]:
            corr_broken = corr_broken or ("model/implementation differ on block validity",
                                          [dict(case=dc[i], obs=obs[i]) for i in mall[nchunks + 3][:5]])
    ctx.sample({"block_case": dc[0], "obs": obs[0]})
    ctx.sample({"block_case": dc[-1], "obs": obs[-1]})
    evals += len(dc)
    ctx.cov["evaluations"] = evals
    ctx.cov["traces_validated_against_impl"] = evals
    distinct_slot = len({(iv, n, ni) for iv, n, ns, ms, pi, ni, bi in S})
    ctx.cov["distinct_nontrivial"] = distinct_slot + len(nontriv)
    ctx.cov["rule"] = ("slot cases: (interval, producer count, slot index) triples around slot boundaries, round wrap-arounds and ms sweeps, "
                       "distinct = distinct triples; block cases: signed blocks over member lists (with duplicates), member/non-member "
                       "signers, each header field mutated after signing, timestamps -2..+2 s around the wall clock; distinct = distinct "
                       "(valid, sig_ok, ts_ok, non-member, mutated field) outcome classes")
    ctx.cov["input_distribution"] = {"slot": len(S), "relations": len(R), "future_wallclock": len(F), "blocks": len(dc),
                                     "blocks_valid": sum(1 for o in obs if o["valid"]),
                                     "blocks_nonmember": sum(1 for o in obs if o["idx"] == 65535)}

    # ---- chain level: the real ChainService fed with real signed blocks in every order
    T["slot+dpos"] = round(time.time() - t0 - T["prove"], 1)
    t1 = time.time()
    chain_fail, chain_broken = chain_level(ctx)
    T["chain"] = round(time.time() - t1, 1)

    pred_fail = chain_fail + pred_fail
    corr_broken = corr_broken or chain_broken

    # ---- "current block producer": election snapshots across forks, boundaries and restarts
    # (g5's election engine: real dpos.NewStatus + bp.Cluster/Snapshots + system.GetRankers)
    import c08election
    t1 = time.time()
    orig_build = ctx.go_test_binary

    def cached_build(pkg, engine_files, out_name, overlay_extra=None, use_overlay=True, timeout=1500):
        # g5's helper builds its engine with ctx.go_test_binary: route it through the binary cache
        ctx.go_test_binary = orig_build
        try:
            return c09chain.go_test_binary_cached(ctx, pkg, engine_files, out_name, overlay_extra=overlay_extra, use_overlay=use_overlay)
        finally:
            ctx.go_test_binary = cached_build
    ctx.go_test_binary = cached_build
    try:
        efind = c08election.run_election_family(ctx, include_f23=False)
    finally:
        ctx.go_test_binary = orig_build
    T["election"] = round(time.time() - t1, 1)
    ctx.cov["election_family_findings"] = len(efind)
    for f in efind:
        pred_fail.append((f["key"], f["what"], f["replay"]))

    # ---- decide
    seen = set()
    for f in pred_fail:
        key, what, case = f if len(f) == 3 else ("C09:" + f[0].split(" ")[0], f[0], f[1])
        if key in seen or len(seen) >= 4:
            continue
        seen.add(key)
        ctx.finding(key, what, case)
    pred_fail = [f for f in pred_fail if not (len(f) == 3 and ctx.known_match(f[0]))]
    if not pr["ok"] and not pred_fail:
        ctx.violation("proof obligation no longer checks: %s" % pr["broken"], {"theorem_or_file": pr["broken"], "log": pr["log"][-3000:]}, no_input=True)
    if corr_broken and not pred_fail:
        ctx.violation("correspondence broken: " + corr_broken[0], {"correspondence": corr_broken[0], "cases": corr_broken[1]},
                      no_input=True)


def chain_level(ctx):
    """Correspondence of coq/Dpos/Accept.v with chain/chainhandle.go (+ orphanpool, reorg) under the
    DPoS verification functions, and the property itself on the engine's observations.
    Engine A (package chain): real ChainService + adapter with the DPoS function bodies, scripted
    producer-set changes.  Engine B (package dpos): real ChainService + the real DPoS object, fixed set."""
    import time
    E = os.path.join(vf.HARNESS, "engines/c09chain")
    rc, log, chainbin = c09chain.go_test_binary_cached(ctx, "chain", [os.path.join(E, "zz_verif_c09chain_engine_test.go")], "c09chain.test")
    if rc != 0:
        raise RuntimeError("c09chain engine build failed:\n" + log[-3000:])
    rc, log, dposchainbin = c09chain.go_test_binary_cached(
        ctx, "consensus/impl/dpos", [os.path.join(E, "zz_verif_c09dpos_engine_test.go")], "c09dpos.test",
        overlay_extra={"chain/zz_verif_c09_chain_shim.go": os.path.join(E, "zz_verif_c09_chain_shim.go")})
    if rc != 0:
        raise RuntimeError("c09 dpos-chain engine build failed:\n" + log[-3000:])
    quick = ctx.tier == "quick"
    corpus = c09chain.load_corpus(os.path.join(vf.VERIF, "corpus", "C09"))
    fam = c09chain.small_tree_family(["nonmember", "wrongslot", "wrongkey", "future"])
    SA = corpus + (ctx.rng.sample(fam, 30) if quick else fam)
    SA += [c09chain.random_scenario(ctx.rng, i) for i in range(90 if quick else 4000)]
    SB = c09chain.for_real_dpos(corpus)
    if quick:
        SB = [sc for sc in SB if not any(op[0] == "W" for op in sc["ops"])]
    else:
        SB += c09chain.for_real_dpos(fam)
    SB += [c09chain.random_scenario(ctx.rng, i, fixed=True) for i in range(35 if quick else 1500)]
    if getattr(ctx, "replay", None):
        # bin/check C09 --replay replays/C09/<n>.json: run only the recorded chain-level scenario
        try:
            rp = json.load(open(ctx.replay)).get("replay", {})
        except (OSError, ValueError):
            rp = {}
        one = rp.get("scenario") if isinstance(rp, dict) else None
        if isinstance(one, dict) and "ops" in one and "blocks" in one:
            c09chain.resolve_clusters(one)
            if one.get("name", "").endswith("-B") or one.get("name", "").startswith("rndB"):
                SA, SB = [], [one]
            else:
                SA, SB = [one], []
    fails, broken = [], None
    CHUNK = 400
    stats = {"arrivals": 0, "classes": {}, "nontriv": set()}
    f42 = c09chain.f42_fixed(ctx.repo)
    other_txt, other_items, other_fail = other_consensus_cases(ctx)
    fails += other_fail
    engines = {"A": (chainbin, "TestVerifC09ChainEngine", SA), "B": (dposchainbin, "TestVerifC09DposChainEngine", SB)}
    rounds = max(1, max((len(S) + CHUNK - 1) // CHUNK for _, _, S in engines.values()))
    for rnd in range(rounds):
        texts, parts = list(c09chain.COQ_HEADER), []
        if rnd == 0:
            texts += other_txt
        for label, (binp, test, S) in engines.items():
            part = S[rnd * CHUNK:(rnd + 1) * CHUNK]
            if not part:
                continue
            t2 = time.time()
            outs = c09chain.run_engine(ctx, binp, part, tag="c09chain%s%d" % (label, rnd), test=test)
            ctx.cov["timing_s"]["chain_engine"] = round(ctx.cov["timing_s"].get("chain_engine", 0) + time.time() - t2, 1)
            for sc, out in zip(part, outs):
                if out.get("racy"):
                    # still straddling a slot boundary after the engine's re-runs (starved machine):
                    # the clock-dependent answers are not determined by the recorded clock; not compared
                    stats["racy_skipped"] = stats.get("racy_skipped", 0) + 1
                    continue
                fails += c09chain.direct_predicates(sc, out)
                stats["arrivals"] += len(out["obs"])
                for ob in out["obs"]:
                    stats["classes"][ob["r"]] = stats["classes"].get(ob["r"], 0) + 1
                    stats["nontriv"].add((ob["r"], c09chain.call_shape(ob["calls"])))
                if label == "B" and out.get("lib", 0) != 0 and not broken:
                    broken = ("real DPoS: the LIB moved in scenario %s built to keep it at the genesis block" % sc["name"], dict(scenario=sc, lib=out.get("lib")))
            txt, k = c09chain.coq_cases(part, outs, f42=f42, prefix=label, header=False)
            texts.append(txt)
            parts.append((label, part, outs, k))
            if rnd == 0 and label == "A":
                ctx.sample({"chain_scenario": part[0]["name"], "blocks": outs[0]["blocks"],
                            "arrivals": [{k2: v for k2, v in ob.items() if k2 in ("id", "r", "calls", "main", "orph")} for ob in outs[0]["obs"]]})
        rc, out = ctx.coq_eval("chain_cases%d" % rnd, "\n".join(texts))
        if rnd == 0:
            m = parse_all_named(out, "MO") if rc == 0 else None
            if m is None:
                broken = broken or ("raft/sbp correspondence could not be evaluated", out[-2000:])
            elif m:
                broken = broken or ("raft_checks / sbp_checks differ from the implementation", [other_items[i] for i in m[:5]])
        for label, part, outs, k in parts:
            d = c09chain.parse_diffs(out, k, prefix=label) if rc == 0 else None
            if d is None or len(d) != len(part):
                broken = broken or ("chain-level correspondence could not be evaluated", out[-2000:])
                continue
            for sc, o, x in zip(part, outs, d):
                if x and not broken and not o.get("racy"):
                    broken = ("model (Dpos/Accept.v) and ChainService differ at arrival %d of scenario %s (engine %s)" % (x - 1, sc["name"], label),
                              dict(scenario=sc, blocks=o["blocks"], arrivals=o["obs"][:x]))
    narr = stats["arrivals"]
    ctx.cov["evaluations"] = ctx.cov.get("evaluations", 0) + narr
    ctx.cov["traces_validated_against_impl"] = ctx.cov.get("traces_validated_against_impl", 0) + narr
    ctx.cov["distinct_nontrivial"] = ctx.cov.get("distinct_nontrivial", 0) + len(stats["nontriv"])
    ctx.cov["rule"] = ctx.cov.get("rule", "") + ("; chain level: arrivals of signed blocks at a real ChainService (trees <= 7 blocks, every "
                                                 "defect kind, any order, duplicates, producer-set changes), distinct = distinct (result class, "
                                                 "sequence of consensus call kinds) pairs")
    ctx.cov["chain_level"] = {"source_flag_f42_reorg_restores_consensus": c09chain.f42_fixed(ctx.repo), "scenarios_adapter_engine": len(SA), "scenarios_real_dpos_engine": len(SB), "corpus": len(corpus),
                              "arrivals": narr, "racy_scenarios_skipped": stats.get("racy_skipped", 0), "result_classes": stats["classes"], "distinct_(result,call-shape)": len(stats["nontriv"])}
    return fails, broken


def other_consensus_cases(ctx):
    """raftv2 / sbp: their VerifyTimestamp / VerifySign / IsBlockValid on real signed blocks against
    the predicates raft_checks / sbp_checks of Dpos/Accept.v (evaluated together with the chain cases).
    The DPoS clauses they do not check are theorems (C09_raft_..._refuted, C09_sbp_all_clauses_refuted),
    not findings: the property is written for DPoS."""
    fails = []
    cases = [{"sig": sg, "future": f} for sg in ("ok", "nosig", "wrongkey", "badkey", "mut:Timestamp", "mut:BlockNo",
                                                  "mut:CoinbaseAccount", "mut:Sign") for f in (0, 10)]
    items = []
    B = lambda b: "true" if b else "false"
    for k, (pkg, eng, name) in enumerate((("consensus/impl/raftv2", "zz_verif_c09raft_engine_test.go", "c09raft.test"),
                                          ("consensus/impl/sbp", "zz_verif_c09sbp_engine_test.go", "c09sbp.test"))):
        rc, log, binp = c09chain.go_test_binary_cached(ctx, pkg, [os.path.join(vf.HARNESS, "engines/c09chain", eng)], name)
        if rc != 0:
            raise RuntimeError("%s engine build failed:\n%s" % (pkg, log[-3000:]))
        fin = os.path.join(ctx.workdir, name + ".in")
        fout = os.path.join(ctx.workdir, name + ".out")
        with open(fin, "w") as f:
            for c in cases:
                f.write(json.dumps(c) + "\n")
        rc, log = ctx.run_bin(binp, ["-test.run", "TestVerifC09OtherEngine"], env={"VERIF_IN": fin, "VERIF_OUT": fout})
        if rc != 0:
            raise RuntimeError("%s engine failed:\n%s" % (pkg, log[-3000:]))
        obs = [json.loads(l) for l in open(fout)]
        if len(obs) != len(cases):
            raise RuntimeError("%s engine: %d observations for %d cases" % (pkg, len(obs), len(cases)))
        for c, o in zip(cases, obs):
            items.append("((%d,%s,%s),(%s,%s,%s))" % (k, B(o["key_parses"]), B(o["sig_real"]), B(o["ts_ok"]), B(o["sign_ok"]), B(o["valid"])))
            if (c["sig"] == "ok") != o["sig_real"]:
                fails.append(("C09:signature-oracle-" + pkg.split("/")[-1], "block.VerifySign disagrees with the construction (%s)" % c["sig"], dict(case=c, obs=o)))
            # the one clause raft does enforce, directly on the implementation
            if k == 0 and o["sign_ok"] and not o["sig_real"]:
                fails.append(("C09:raft-bad-signature-accepted", "raftv2 VerifySign accepts a block whose signature does not verify", dict(case=c, obs=o)))
    txt = ["Definition ocases := [%s]." % ";\n".join(items),
           "Definition MO := Eval vm_compute in mismatches_from other_case_ok ocases 0.", "Print MO."]
    ctx.cov["evaluations"] = ctx.cov.get("evaluations", 0) + len(items)
    ctx.cov["other_consensus"] = {"cases": len(items), "note": "raftv2: signature clause only; sbp: no clause (theorems C09_raft_*, C09_sbp_*)"}
    return txt, items, fails


def parse_all_named(out, name):
    """The list printed for definition `name`, or None."""
    import re
    flat = " ".join(out.split())
    m = re.search(r"\b%s = (\[[^\]]*\]|nil)" % re.escape(name), flat)
    if not m:
        return None
    body = m.group(1)
    return [] if body in ("nil", "[]") else [int(x) for x in re.findall(r"\d+", body)]


def parse_all(out):
    """All `X = [..]` lists printed, in order."""
    import re
    flat = " ".join(out.split())
    res = []
    for m in re.finditer(r"\b\w+ = (\[[^\]]*\]|nil)", flat):
        body = m.group(1)
        res.append([] if body in ("nil", "[]") else [int(x) for x in re.findall(r"\d+", body)])
    return res

"""C10 State trie: map semantics, history independence, persistence.
Proof: coq/Properties/C10.v over coq/Trie/Model.v (+ Store.v).
Correspondence: the real pkg/trie (Update/AtomicUpdate/Commit/Get, fresh instances at
historical roots) vs the Gallina model evaluated by vm_compute under the same (toy) hash
function; direct predicates on the implementation under SHA-256 and under the toy hash."""
import json
import os
import sys

import vf

sys.path.insert(0, os.path.join(vf.VERIF, "lib"))
import trie_gen as tg  # noqa: E402

META = {
    "text": "33 theorems (Coq, no axioms, any hash H). FULL, every height and sorted batch: Get after Update / after "
            "any history = plain map; canonical shape preserved and unique, hence tree and root depend only on the resulting map (history "
            "independence, no collision caveat; absent deletes = identity); literal maybeAddShortcutToKV/splitKeys = abstract forms. "
            "FULL with an explicit `\\/ hash_break H` (collision or DefaultLeaf shift pair): root binding; node-store persistence "
            "(old roots readable, reopen = committed tree); REFINEMENT of the literal 31-slot batch layer (loadChildren, leaf/interiorHash, "
            "moveUpShortcut, storeNode/deleteOldNode, updatedNodes, liveCache for any CacheHeightLimit with in-place aliasing, "
            "parse/serialize, Commit) against the tree-level update; cache reads = uncached reads; parallel children touch disjoint slots; "
            "statedb level (account trie over per-contract storage tries, state record abstract): the storage root handed into the account leaf "
            "is the root of the updated storage trie (emptied storage = empty root), per-contract map semantics through the leaf, state root "
            "determined by the (account, storage) contents. PARTIAL: the store theorems are partial-correctness (a missing batch is a load error); that no needed batch "
            "is garbage-collected is not proved (false for two Updates before one Commit: C10:node-lost-height-byte-wrap). REFUTED with "
            "witnesses (Revert, dead code in the node): keeps older roots (C10:revert-older-root-lost), restores the target "
            "(C10:revert-target-lost-height-byte-wrap). Every run: the real Trie (SHA-256 and a toy hash "
            "shared by Coq/Go/OCaml) on prefix-colliding histories incl. CacheHeightLimit values and re-pointing at earlier "
            "roots; roots, Get, updatedNodes/liveCache dumps and Revert's deleted keys equal the model's byte for byte (extracted + vm_compute "
            "sample); predicates: Get = last write, root = fresh one-batch root, every committed root reopens, Stash, race detector; statedb level: blocks applied the node's way (fresh StateDB on the parent root, "
            "one Update, one Commit) incl. blocks emptying/refilling a contract: fresh-instance reads = map per contract at every root, storage "
            "and state roots = extracted model (SHA-256) and = one-block rebuild, long-lived instance agrees.",
    "note": "Trusted: Coq kernel/vm_compute (primitive Uint63 only in ToyHash, evaluation only), extraction (ExtrOcamlBasic) + OCaml driver for "
            "volume, Go toolchain and race detector, engine harness/engines/trie, generator lib/trie_gen.py, memory DB. No axioms, no translator. "
            "Modelled, not verified: batches have value semantics except the liveCache aliasing (histories with a Commit after every Update, what "
            "the node does); goroutines run left-then-right (disjointness proved, schedules only observed); Stash/LoadCache only exercised "
            "(CacheHeightLimit is never set by the node: LoadCache is a no-op). Statedb level: types.State is abstract (encoding, StorageRoot get/set as parameters); one staged contract per model step (the "
            "implementation puts all accounts of a block in one trie batch; equal by history independence); the check encodes State{Nonce,StorageRoot} "
            "itself. Assumptions: strictly sorted non-empty batches of 32-byte keys "
            "and 32-byte values or DefaultLeaf (stateBuffer.export), H returns 32 bytes.",
    "technique": "Coq proof over Gallina trie + batch-storage models, refinement, extracted-model and vm_compute correspondence, direct predicates on real runs",
}

ENGINE = os.path.join(vf.HARNESS, "engines/trie/zz_verif_trie_engine_test.go")


def build_engine(ctx):
    rc, log, path = ctx.go_test_binary("pkg/trie", [ENGINE], "trie.test", use_overlay=False)
    if rc != 0:
        raise RuntimeError("trie engine build failed:\n" + log[-3000:])
    return path


def gen_cases(ctx):
    rng = ctx.rng
    quick = ctx.tier == "quick"
    cases = []
    for c in tg.load_corpus(os.path.join(vf.VERIF, "corpus", "C10")):
        for hn in ("toy", "sha"):
            d = dict(c)
            d["hash"] = hn
            d.setdefault("atomic", False)
            d.setdefault("proofs", 0)
            d["shape"] = "corpus"
            cases.append(d)
    # exhaustive small scope: every sequence of batches over a tiny universe
    shapes = [[255], [254, 255], [252, 255], [251, 252], [248, 251], [0, 255], [244, 248], [1, 128]]
    base = bytes(rng.randrange(256) for _ in range(32))
    if quick:
        ds = rng.choice(shapes)
        keys = sorted({base, tg.flip(base, [ds[0]]), tg.flip(base, [ds[-1], 250])})
        cases += tg.exhaustive_cases("toy", keys, 2)
    else:
        for ds in shapes:
            keys = sorted({base, tg.flip(base, [ds[0]]), tg.flip(base, [ds[-1], 250])})
            cases += tg.exhaustive_cases("toy", keys, 2)
            keys4 = sorted(set(keys) | {tg.flip(base, ds + [253])})
            cases += tg.exhaustive_cases("sha", keys4, 2)
        keys2 = sorted({base, tg.flip(base, [252])})
        cases += tg.exhaustive_cases("toy", keys2, 4)
    n_toy, n_sha = (240, 120) if quick else (10000, 20000)
    for _ in range(n_toy):
        cases.append(tg.rand_case(rng, "toy"))
    # batch-storage layer: histories with a Commit after every Update, updatedNodes dumped
    for _ in range(n_toy // 2):
        c = tg.rand_case(rng, "toy")
        for b in c["batches"]:
            b["commit"] = True
        cases.append(c)
    # liveCache: non-default CacheHeightLimit, the instance pointed back at earlier roots
    n_ct, n_cs = (48, 16) if quick else (3000, 1000)
    for i in range(n_ct + n_cs):
        cases.append(tg.cache_case(rng, "toy" if i < n_ct else "sha"))
    for c in tg.load_corpus(os.path.join(vf.VERIF, "corpus", "C10", "cache")):
        for hn in ("toy", "sha"):
            cases.append(dict(c, hash=hn, shape="corpus-cache", atomic=c.get("atomic", False), proofs=0))
    for c in cases:
        if c["hash"] == "toy" and all(b["commit"] or b.get("setroot") is not None for b in c["batches"]):
            c["dump"] = True
    for _ in range(n_sha):
        cases.append(tg.rand_case(rng, "sha"))
    return cases


def coq_case(c, o):
    obs = []
    for r, g in zip(o["roots"], o["gets"]):
        obs.append("(%s,%s)" % (tg.cq_bytes(r), tg.cq_list([tg.cq_obytes(x) for x in g])))
    return "((%s,%s),%s)" % (tg.cq_batches(c), tg.cq_list([tg.cq_bytes(k) for k in c["q"]]), tg.cq_list(obs))


def model_compare(ctx, toy, shard=60):
    """Kernel-side evaluation (vm_compute) of the model on `toy`: list of (case, obs).
    Returns (error|None, list of mismatching indices)."""
    bad = []
    for s in range(0, len(toy), shard):
        part = toy[s:s + shard]
        txt = ["From Coq Require Import List NArith.", "From Verif Require Import Trie.Model Trie.Eval.",
               "Import ListNotations.", "Open Scope N_scope.",
               "Definition cases : list c10_case := [\n%s]." % ";\n".join(coq_case(c, o) for c, o in part),
               "Definition M := Eval vm_compute in c10_mismatches cases.", "Print M.",
               "Definition P := Eval vm_compute in mismatches_from (fun c : c10_case => forallb batch_ok (fst (fst c))) cases 0.",
               "Print P.",
               "Definition V := Eval vm_compute in mismatches_from (fun v : bytes * bytes => bytes_eqb (fst v) (snd v)) "
               "[(toy_vec0, %s); (toy_vec1, %s)] 0." % (tg.cq_bytes(part[0][1]["toyvec0"]), tg.cq_bytes(part[0][1]["toyvec1"])),
               "Print V."]
        rc, out = ctx.coq_eval("c10_cases_%d" % (s // shard), "\n".join(txt), timeout=1500)
        if rc != 0:
            return "model evaluation failed: " + out[-1500:], bad
        lists = parse_all(out)
        if len(lists) != 3:
            return "model evaluation output not understood: " + out[-500:], bad
        if lists[2]:
            return "toy hash test vectors differ between Go and Coq", bad
        if lists[1]:
            return "generator produced a batch outside the theorems' precondition (sorted, 32-byte keys): case %d" % (s + lists[1][0]), bad
        bad += [s + i for i in lists[0]]
    return None, bad


def model_compare_batch_kernel(ctx, sel):
    """vm_compute evaluation of the batch-storage model (BatchModel.v) on a few histories with a
    Commit after every Update: roots and abs_batch_store against the real roots / the tree model."""
    sel = [(c, o) for c, o in sel if not c.get("atomic") and all(b["commit"] for b in c["batches"])]
    if not sel:
        return None, []
    rc, out = tg.ensure_vo(ctx, ["Trie/ToyHash", "Trie/Eval", "Trie/EvalBatch"])
    items = ["(%s,%s)" % (tg.cq_batches(c), tg.cq_list([tg.cq_bytes(r) for r in o["roots"]])) for c, o in sel]
    txt = ["From Coq Require Import List NArith.", "From Verif Require Import Trie.Model Trie.Eval Trie.EvalBatch.",
           "Import ListNotations.", "Open Scope N_scope.",
           "Definition cases : list c10b_case := [\n%s]." % ";\n".join(items),
           "Definition M := Eval vm_compute in c10b_mismatches cases.", "Print M."]
    ok, idx, out = ctx.coq_eval_mismatches("c10b_cases", "\n".join(txt), timeout=900)
    if not ok:
        return "batch-model evaluation (vm_compute) failed: " + out[-1000:], []
    ctx.cov["kernel_evaluated_batch_cases"] = len(sel)
    return None, [sel[i] for i in idx]


def model_compare_extracted(ctx, toy):
    """The same comparison through the extracted model (OCaml driver), for volume."""
    exe, err = tg.build_driver(ctx)
    if err:
        return err, []
    lines = ["T -", "T 010203ff00"]
    for c, o in toy:
        lines += tg.driver_case_text(c, o)
        lines.append("E")
    out = [l for l in tg.run_driver(ctx, exe, "\n".join(lines) + "\n") if l]
    if len(out) != len(toy) + 2:
        return "model driver returned %d lines for %d cases" % (len(out), len(toy)), []
    if toy and (out[0] != toy[0][1]["toyvec0"] or out[1] != toy[0][1]["toyvec1"]):
        return "toy hash test vectors differ between Go and the OCaml driver", []
    bad = [i for i, l in enumerate(out[2:]) if l != "ok"]
    ctx.cov["batch_storage_cases_compared"] = sum(1 for c, o in toy if c.get("dump") and o.get("upd"))
    ctx.cov["driver_diffs"] = [out[2 + i][:300] for i in bad[:5]]
    return None, bad


def revert_cases(ctx):
    """Histories (every batch committed) followed by Revert to a past root, or by one more
    uncommitted Update and Stash."""
    rng = ctx.rng
    n = 40 if ctx.tier == "quick" else 1500
    cases = []
    for c in tg.load_corpus(os.path.join(vf.VERIF, "corpus", "C10", "revert")):
        c.setdefault("hash", "toy")
        cases.append(c)
    for i in range(n):
        c = tg.rand_case(rng, "toy" if i % 3 else "sha", nkeys=rng.choice([2, 3, 4, 6]), nbatches=rng.choice([2, 3, 4, 5]))
        # values from a small pool so that states recur (A -> B -> A histories)
        pool = [tg.rand_val(rng) for _ in range(2)]
        for b in c["batches"]:
            b["commit"] = True
            b["v"] = [v if v == tg.DEFAULT else rng.choice(pool) for v in b["v"]]
        stash = rng.random() < 0.2
        cases.append({"hash": c["hash"], "batches": c["batches"], "q": c["q"], "stash": stash,
                      "target": rng.randrange(0, len(c["batches"]) - (1 if stash else 0))})
    return cases


def revert_check(ctx, binp, exe):
    """Returns (fails, corr)."""
    cases = revert_cases(ctx)
    fails, corr = [], None
    try:
        lines, crash = tg.run_engine_safe(ctx, binp, "TestVerifTrieRevert", cases, "c10r")
    except tg.EngineFlaky as ex:
        return [("crash-schedule-dependent", "the trie crashes on some goroutine schedules (Revert engine)", {"log": str(ex)[-2000:]})], None
    if crash is not None:
        fails.append(("crash", "the trie panics (process killed) on this history (Revert engine)", cases[crash]))
        cases = cases[:crash]
    obs = [json.loads(l) for l in lines]
    text, idx = [], []
    stats = {"revert_refused": 0, "reverted": 0, "stash": 0, "older_root_lost": 0, "target_lost": 0}
    for ci, (c, o) in enumerate(zip(cases, obs)):
        rep = {"case": c, "obs": {k: o[k] for k in ("revert_err", "readable", "err", "root_after")}}
        if o.get("cache_limit") != 257 or o.get("live_cache"):
            fails.append(("livecache", "LoadCache populated liveCache / CacheHeightLimit is not TrieHeight+1", rep))
        maps = tg.map_after(c)
        if c.get("stash"):
            stats["stash"] += 1
            n = len(c["batches"]) - 1
            want_root = o["roots"][n - 1] if n else ""
            exp = [maps[n - 1].get(k, "") for k in c["q"]] if n else ["" for _ in c["q"]]
            if o["err"] or o["revert_err"] or o["root_after"] != want_root or o["gets_after"] != exp:
                fails.append(("stash", "Stash did not restore the last committed state", rep))
            continue
        if o["err"] and not o["revert_err"] and "get after revert" in o["err"]:
            stats["target_lost"] += 1
            fails.append((classify_revert_loss(c, maps), "after Revert the target root is not readable: " + o["err"], rep))
            continue
        if o["err"]:
            fails.append(("error", "trie operation failed: " + o["err"], rep))
            continue
        t = c["target"]
        first = o["roots"].index(o["roots"][t])
        if o["revert_err"]:
            stats["revert_refused"] += 1
            if o["roots"][t] != o["roots"][-1]:
                fails.append(("revert-refused", "Revert refused a past root: " + o["revert_err"], rep))
            continue
        stats["reverted"] += 1
        exp = [maps[t].get(k, "") for k in c["q"]]
        if o["root_after"] != o["roots"][t] or o["gets_after"] != exp or o["past_len"] != first + 1:
            fails.append(("revert-restore", "Revert did not restore the target root / contents / pastTries", rep))
        if o["readable"][t] != "" or o["fresh_gets"][t] != exp:
            fails.append((classify_revert_loss(c, maps), "after Revert a fresh instance at the target root fails", rep))
        for j in range(first):
            if o["readable"][j] != "" and o["roots"][j] not in o["roots"][first:t + 1]:
                stats["older_root_lost"] += 1
                fails.append(("revert-older-root-lost", "Revert made an OLDER past root (still listed in pastTries) unreadable", rep))
                break
        if c["hash"] == "toy":
            text += tg.driver_case_text(c, {"roots": o["roots"], "gets": o["gets"]})
            text.append("R %d" % t)
            text.append("E")
            idx.append((ci, "dels %d %s" % (first, ",".join(o["dels"] or []) or "-")))
    if exe and text:
        out = [l for l in tg.run_driver(ctx, exe, "\n".join(text) + "\n") if l.startswith(("dels", "diff", "bdiff"))]
        got = [l for l in out if l.startswith("dels")]
        if len(got) != len(idx):
            corr = ("model driver returned %d revert results for %d cases" % (len(got), len(idx)), [])
        else:
            bad = [(ci, want, g) for (ci, want), g in zip(idx, got) if want != g]
            if bad:
                corr = ("keys deleted by Revert differ between model and implementation on %d of %d cases" % (len(bad), len(idx)),
                        [{"case": cases[bad[0][0]], "impl": bad[0][1][:1500], "model": bad[0][2][:1500]}])
        ctx.cov["revert_cases_compared_with_model"] = len(idx)
    ctx.cov["revert"] = stats
    return fails, corr


def classify_revert_loss(c, maps):
    """F37a-type alias: the target holds two keys differing only in the last bit and a later trie
    holds one of them alone with the same value (root shortcut, byte(256) == byte(0))."""
    t = c["target"]
    for m in maps[t + 1:]:
        if len(m) == 1:
            (k0, v0), = m.items()
            twin = k0[:-2] + "%02x" % (int(k0[-2:], 16) ^ 1)
            if maps[t].get(k0) == v0 and twin in maps[t]:
                return "revert-target-lost-height-byte-wrap"
    return "revert-target-lost"


# ---------------------------------------------------------------------------------------------
# statedb level: the two-level state (account trie; a contract's leaf carries the root of its
# storage trie), blocks applied the node's way.  Model: coq/Trie/StateDBModel.v.
SDB_ENGINE = os.path.join(vf.HARNESS, "engines/trie/zz_verif_statedb_hist_engine_test.go")
SDB_CONTRACTS = ["ctrA", "ctrB", "ctrC"]
SDB_VARS = ["v%d" % i for i in range(6)]
SDB_ACCTS = ["acct%d" % i for i in range(5)]


def sdb_hist_case(blocks, shape):
    return {"blocks": blocks, "qcontracts": SDB_CONTRACTS, "qvars": SDB_VARS + ["never"], "qaccts": SDB_ACCTS + ["nobody"], "shape": shape}


def sdb_hist_cases(ctx, n):
    rng = ctx.rng
    cases = []
    cdir = os.path.join(vf.VERIF, "corpus", "C10", "statedb")
    if os.path.isdir(cdir):
        for f in sorted(os.listdir(cdir)):
            if f.endswith(".json"):
                cases.append(sdb_hist_case(json.load(open(os.path.join(cdir, f)))["blocks"], "corpus:" + f[:-5]))
    for _ in range(n):
        stor = {c: {} for c in SDB_CONTRACTS}
        blocks = []
        for bi in range(rng.randrange(2, 7)):
            b = {"contracts": {}, "accounts": {}}
            for cn in rng.sample(SDB_CONTRACTS, rng.choice([1, 1, 2, 3])):
                cur = stor[cn]
                style = rng.choice(["fill", "mixed", "mixed", "empty", "empty", "absent", "touch"])
                ws = {}
                if style == "fill" or (style == "empty" and not cur):
                    for v in rng.sample(SDB_VARS, rng.randrange(1, 4)):
                        ws[v] = "x%d" % rng.randrange(50)
                elif style == "empty":
                    ws = {v: "" for v in cur}           # the block deletes the LAST keys of the contract
                    if rng.random() < 0.3:
                        ws[rng.choice(SDB_VARS)] = ""   # ... and possibly an absent one
                elif style == "mixed":
                    for v in rng.sample(SDB_VARS, rng.randrange(1, 5)):
                        ws[v] = "" if rng.random() < 0.45 else "y%d" % rng.randrange(50)
                elif style == "absent":
                    for v in [v for v in SDB_VARS if v not in cur][:rng.randrange(1, 3)]:
                        ws[v] = ""
                b["contracts"][cn] = ws
                for v, x in ws.items():
                    if x == "":
                        cur.pop(v, None)
                    else:
                        cur[v] = x
            for a in rng.sample(SDB_ACCTS, rng.choice([0, 0, 1, 2])):
                b["accounts"][a] = rng.randrange(1, 1000)
            blocks.append(b)
        cases.append(sdb_hist_case(blocks, "random"))
    return cases


def _sha(b):
    import hashlib
    return hashlib.sha256(b).digest()


def _varint(n):
    out = b""
    while True:
        if n < 0x80:
            return out + bytes([n])
        out += bytes([(n & 0x7f) | 0x80])
        n >>= 7


def sdb_state_bytes(nonce, sroot):
    """proto3 encoding of types.State{Nonce, StorageRoot} (fields 1 and 4; zero values omitted)."""
    out = b""
    if nonce:
        out += b"\x08" + _varint(nonce)
    if sroot:
        out += b"\x22" + _varint(len(sroot)) + sroot
    return out


def sdb_hist_check(ctx, exe):
    """Returns (fails, corr, stats)."""
    rc, log, sbin = ctx.go_test_binary("state/statedb", [SDB_ENGINE], "statedb_c10.test", use_overlay=False)
    if rc != 0:
        raise RuntimeError("statedb history engine build failed:\n" + log[-3000:])
    cases = sdb_hist_cases(ctx, 40 if ctx.tier == "quick" else 1500)
    outs = [json.loads(l) for l in tg.run_engine(ctx, sbin, "TestVerifStateDBHistories", cases, "c10s")]
    if len(outs) != len(cases):
        raise RuntimeError("statedb history engine returned %d observations for %d cases" % (len(outs), len(cases)))
    fails, corr = [], None
    stats = {"cases": len(cases), "blocks": 0, "blocks_emptying_a_storage": 0, "refills_after_emptying": 0, "deletes_of_absent_vars": 0,
             "blocks_touching_several_contracts": 0, "historical_roots_reread": 0, "model_storage_roots_compared": 0, "model_state_roots_compared": 0}
    qlines, qwant = [], []      # model roots asked from the extracted model (SHA-256)
    for c, o in zip(cases, outs):
        rep = {"case": {"blocks": c["blocks"]}, "shape": c["shape"]}
        if o.get("err"):
            fails.append(("statedb-error", "a block could not be applied: " + o["err"], rep))
            continue
        stor, accts, emptied = {}, {}, set()
        for bi, b in enumerate(c["blocks"]):
            stats["blocks"] += 1
            if len(b["contracts"]) > 1:
                stats["blocks_touching_several_contracts"] += 1
            for cn, ws in b["contracts"].items():
                cur = stor.setdefault(cn, {})
                was = bool(cur)
                for v, x in ws.items():
                    if x == "":
                        if v not in cur:
                            stats["deletes_of_absent_vars"] += 1
                        cur.pop(v, None)
                    else:
                        cur[v] = x
                if was and not cur:
                    stats["blocks_emptying_a_storage"] += 1
                    emptied.add(cn)
                elif cur and not was and cn in emptied:
                    stats["refills_after_emptying"] += 1
                    emptied.discard(cn)
            accts.update(b["accounts"])
            v = o["views"][bi]
            r2 = dict(rep, block=bi, view=v, expected_storage={k: dict(m) for k, m in stor.items()})
            if v.get("err"):
                fails.append(("statedb-error", "fresh StateDB on the root after the block cannot read: " + v["err"], r2))
                continue
            # map semantics per contract, through a fresh instance on the new root
            bad = [cn for cn in c["qcontracts"] if v["vals"].get(cn, {}) != stor.get(cn, {})]
            if bad:
                fails.append(("statedb-get", "a fresh StateDB opened on the block's state root reads contract storage different from "
                              "the writes/deletes applied so far (contract %s)" % bad[0], r2))
            if any(v["exists"].get(cn, False) != (cn in stor) for cn in c["qcontracts"]) or \
               any(v["exists"].get(a, False) != (a in accts) or v["nonces"].get(a, 0) != accts.get(a, 0) for a in c["qaccts"]):
                fails.append(("statedb-get", "a fresh StateDB opened on the block's state root reads account states different from what was put", r2))
            # hand-over of the storage root into the account leaf: empty storage <-> empty root
            hb = [cn for cn in c["qcontracts"] if bool(v["sroots"].get(cn)) != bool(stor.get(cn))]
            if hb:
                fails.append(("statedb-storage-root-handover", "the storage root kept in the account leaf of %s is %s although its storage is %s "
                              "after the block" % (hb[0], "non-empty" if v["sroots"].get(hb[0]) else "empty", "empty" if not stor.get(hb[0]) else "non-empty"), r2))
            # history independence at the state level
            if o["rebuilt"][bi] != v["root"]:
                fails.append(("statedb-root-history", "the state root after the block differs from the root of a fresh state holding the same "
                              "surviving (account, storage) contents written in one block", dict(r2, rebuilt_root=o["rebuilt"][bi])))
            if o["long"][bi] != v["root"]:
                fails.append(("statedb-root-long-lived", "applying the blocks through fresh StateDBs (the node's way) and through one long-lived "
                              "StateDB gives different state roots", dict(r2, long_lived_root=o["long"][bi])))
            # historical roots stay readable and unchanged
            stats["historical_roots_reread"] += 1
            if o["final"][bi] != v:
                fails.append(("statedb-historical-root", "an earlier state root reads differently after later blocks", dict(r2, later_view=o["final"][bi])))
            # model roots: storage tries, then the account trie over H(marshal(State{nonce, model storage root}))
            mleaves = []
            for cn in sorted(stor):
                ent = ["%s:%s" % (_sha(k.encode()).hex(), _sha(x.encode()).hex()) for k, x in stor[cn].items()]
                if ent:
                    qlines.append("RS " + " ".join(ent))
                    qwant.append(("storage", v["sroots"].get(cn, ""), r2, cn))
                    stats["model_storage_roots_compared"] += 1
                # the account leaf is computed from the IMPLEMENTATION's storage root only when it passed the model comparison
                sroot = bytes.fromhex(v["sroots"].get(cn, "")) if ent else b""
                mleaves.append("%s:%s" % (_sha(cn.encode()).hex(), _sha(sdb_state_bytes(0, sroot)).hex()))
            for a in sorted(accts):
                mleaves.append("%s:%s" % (_sha(a.encode()).hex(), _sha(sdb_state_bytes(accts[a], b"")).hex()))
            qlines.append("RS " + " ".join(mleaves))
            qwant.append(("state", v["root"], r2, None))
            stats["model_state_roots_compared"] += 1
    if exe and qlines:
        out = [l for l in tg.run_driver(ctx, exe, "\n".join(qlines) + "\n") if l.startswith("root ")]
        if len(out) != len(qlines):
            corr = ("model driver returned %d roots for %d statedb-level queries" % (len(out), len(qlines)), [])
        else:
            bad = []
            for l, (kind, want, r2, cn) in zip(out, qwant):
                got = l.split()[1]
                got = "" if got == "-" else got
                if got != want:
                    bad.append({"kind": kind, "contract": cn, "model_root": got, "impl_root": want, "case": r2["case"], "block": r2["block"]})
            if bad:
                # a storage root that is present although the storage is empty (or the converse) is already a predicate failure
                corr = ("statedb level: model root (extracted tree model, SHA-256) and implementation root differ on %d of %d "
                        "storage/state roots" % (len(bad), len(qlines)), bad[:3])
    return fails, corr, stats


def parse_all(out):
    import re
    flat = " ".join(out.split())
    res = []
    for m in re.finditer(r"\b\w+ = (\[[^\]]*\]|nil)", flat):
        body = m.group(1)
        res.append([] if body in ("nil", "[]") else [int(x) for x in re.findall(r"\d+", body)])
    return res


def slim(c):
    return {k: c[k] for k in ("hash", "atomic", "batches", "q", "dump", "cache_limit") if k in c}


def predicates(cases, obs):
    """Direct predicates on the implementation's own observations."""
    fails = []
    by_map = {}
    for c, o in zip(cases, obs):
        if o.get("err"):
            fails.append((classify_error(c, o), "trie operation failed: " + o["err"], slim(c)))
            continue
        maps = tg.map_after(c)
        for i, m in enumerate(maps):
            exp = [m.get(k, "") for k in c["q"]]
            if o["gets"][i] != exp:
                fails.append(("get", "Get differs from the last written value after batch %d" % i, slim(c)))
                break
        for i, m in enumerate(maps):
            if o["roots"][i] != o["fresh"][i]:
                fails.append(("root-fresh", "root after batch %d differs from the root of a fresh trie holding the same pairs" % i, slim(c)))
                break
            if (o["roots"][i] == "") != (len(m) == 0):
                fails.append(("root-empty", "nil root does not coincide with the empty map after batch %d" % i, slim(c)))
                break
            key = (c["hash"], tuple(sorted(m.items())))
            prev = by_map.setdefault(key, (o["roots"][i], c))
            if prev[0] != o["roots"][i]:
                fails.append(("root-history", "two histories reaching the same map have different roots", [slim(prev[1]), slim(c)]))
                break
        committed = [i for i, b in enumerate(c["batches"]) if b["commit"] and b.get("setroot") is None]
        want = [(a, h) for n, a in enumerate(committed) for h in committed[:n + 1]]
        got = [(r["after"], r["at"]) for r in (o["reopen"] or [])]
        if want != got:
            fails.append(("reopen", "engine did not reopen every committed root", slim(c)))
        for r in (o["reopen"] or []):
            if r.get("err") or r["gets"] != o["gets"][r["at"]] or r["root"] != o["roots"][r["at"]]:
                fails.append(("reopen", "fresh instance at the root committed after batch %d (opened after batch %d) does not "
                              "return that state's contents: %s" % (r["at"], r["after"], r.get("err", "")), slim(c)))
                break
    return fails


def classify_error(c, o):
    """Known class F37a: a sole root shortcut (height 256) is pushed down to height 0 by a
    second Update that was not preceded by a Commit (byte(256) == byte(0)).  Anything else is a
    plain error (F25 was repaired in /repo; its replays are corpus regression cases regress_F22_*/regress_F23_*)."""
    import re
    m = re.search(r"batch (\d+)", o["err"])
    if m and "unavailable" in o["err"]:
        i = int(m.group(1))
        maps = [{}] + tg.map_after(c)
        for j in range(1, min(i + 1, len(c["batches"]))):
            if c["batches"][j - 1]["commit"] or len(maps[j]) != 1:
                continue
            (k0, v0), = maps[j].items()
            twin = k0[:-2] + "%02x" % (int(k0[-2:], 16) ^ 1)
            if twin in maps[j + 1] and maps[j + 1].get(k0) == v0:
                return "node-lost-height-byte-wrap"
    return "error"


def classify(c, o):
    """non-trivial = at least one delete and one insert overall, >= 2 live keys at some point"""
    maps = tg.map_after(c)
    dels = sum(1 for b in c["batches"] for v in b["v"] if v == tg.DEFAULT)
    return dels > 0 and max(len(m) for m in maps) >= 2


def run(ctx):
    import time
    phases, t0 = {}, [time.time()]

    def mark(name):
        phases[name] = round(phases.get(name, 0) + time.time() - t0[0], 1)
        t0[0] = time.time()
        ctx.cov["phase_seconds"] = phases
    pr = ctx.prove()
    mark("prove")
    ctx.cov["trusted_base"] = ["Coq 8.16.1 kernel + vm_compute (primitive Uint63 in ToyHash only)", "Go toolchain",
                               "engine harness/engines/trie, generator lib/trie_gen.py", "aergo-lib memory DB"]
    ctx.assumptions = ["batches are strictly sorted by key, non-empty, keys 32 bytes, values 32 bytes or DefaultLeaf (what stateBuffer.export produces)",
                       "hash function returns 32 bytes; binding theorems conclude `... \\/ hash_break H`",
                       "parallel subtree updates modelled sequentially (schedules: observed only)"]
    binp = build_engine(ctx)
    cases = gen_cases(ctx)
    try:
        lines, crash = tg.run_engine_safe(ctx, binp, "TestVerifTrieOps", cases, "c10")
    except tg.EngineFlaky as ex:
        ctx.finding("C10:crash-schedule-dependent", "the trie crashes on some goroutine schedules (not reproducible on a fixed input)",
                    {"log": str(ex)[-3000:]})
        return
    crashed = None
    if crash is not None:
        crashed = cases[crash]
        cases = cases[:crash]
    if len(lines) != len(cases):
        raise RuntimeError("engine returned %d observations for %d cases" % (len(lines), len(cases)))
    obs = [json.loads(l) for l in lines]
    mark("engine build + run")
    fails = predicates(cases, obs)
    if crashed is not None:
        fails.insert(0, ("crash", "the trie panics (process killed) on this op sequence", slim(crashed)))
    toy = [(c, o) for c, o in zip(cases, obs) if c["hash"] == "toy" and not o.get("err")]
    # kernel evaluation: corpus + a sample; extracted model: everything
    ksel = [x for x in toy if x[0].get("shape") == "corpus"]
    rest = [x for x in toy if x[0].get("shape") not in ("corpus", "exh")]
    ksel += rest[:(12 if ctx.tier == "quick" else 200)]
    err, bad = model_compare(ctx, ksel)
    mark("kernel eval (tree model)")
    corr = None
    if err:
        corr = (err, [])
    elif bad:
        corr = ("model (vm_compute) and implementation differ (root or Get) on %d of %d cases" % (len(bad), len(ksel)),
                [dict(case=slim(ksel[i][0]), impl_roots=ksel[i][1]["roots"], impl_gets=ksel[i][1]["gets"]) for i in bad[:3]])
    err3, bad3 = model_compare_batch_kernel(ctx, ksel[:20])
    if err3:
        corr = corr or (err3, [])
    elif bad3:
        corr = corr or ("batch-storage model (vm_compute) differs from the implementation's roots or from the tree model on %d cases" % len(bad3),
                        [dict(case=slim(c), impl_roots=o["roots"]) for c, o in bad3[:3]])
    mark("kernel eval (batch model)")
    err2, bad2 = model_compare_extracted(ctx, toy)
    mark("extracted model (build + run)")
    if err2:
        corr = corr or (err2, [])
    elif bad2:
        bad2.sort(key=lambda i: sum(len(b["k"]) for b in toy[i][0]["batches"]))
        corr = corr or ("extracted model and implementation differ (root or Get) on %d of %d cases" % (len(bad2), len(toy)),
                        [dict(case=slim(toy[i][0]), impl_roots=toy[i][1]["roots"], impl_gets=toy[i][1]["gets"]) for i in bad2[:3]])
    ctx.cov["kernel_evaluated_cases"] = len(ksel)
    # ---- parallel subtree updates under the race detector (needs cgo)
    rbin, rnote = tg.build_race_engine(ctx, ENGINE)
    if rbin is None:
        ctx.cov["race_detector"] = rnote
    else:
        wide = [c for c in cases if c.get("shape") not in ("exh", "corpus")]
        wide.sort(key=lambda c: -max(len(b["k"]) for b in c["batches"]))
        sel = [dict(c, dump=False, proofs=0) for c in wide[:(50 if ctx.tier == "quick" else 1500)]]
        raced, rlog = tg.run_race(ctx, rbin, sel, "c10race")
        ctx.cov["race_detector"] = {"cases": len(sel), "data_race_reported": raced}
        if raced:
            fails.append(("data-race", "the Go race detector reports a data race in pkg/trie on these op sequences", {"log": rlog}))
        elif rlog:
            fails.append(("race-run-error", "the race-enabled engine failed", {"log": rlog}))
    mark("race detector run")
    # ---- Revert / Stash / LoadCache
    exe_r, _ = tg.build_driver(ctx)
    rfails, rcorr = revert_check(ctx, binp, exe_r)
    fails += rfails
    corr = corr or rcorr
    mark("revert")
    # ---- statedb level: per-contract storage tries under the account trie, blocks the node's way
    sfails, scorr, sstats = sdb_hist_check(ctx, exe_r)
    fails += sfails
    corr = corr or scorr
    ctx.cov["statedb_histories"] = sstats
    mark("statedb histories")
    # evidence
    nb = sum(len(c["batches"]) for c in cases)
    ctx.cov["evaluations"] = nb
    ctx.cov["traces_validated_against_impl"] = len(toy)
    distinct = {(c["hash"], json.dumps(c["batches"], sort_keys=True)) for c, o in zip(cases, obs) if classify(c, o)}
    ctx.cov["distinct_nontrivial"] = len(distinct)
    ctx.cov["rule"] = ("a case = a sequence of sorted batches over keys sharing 240..255-bit prefixes; evaluations = batches applied; "
                       "distinct_nontrivial = distinct batch sequences that contain a delete and reach >= 2 live keys")
    shapes = {}
    for c in cases:
        shapes[c.get("shape", "?")] = shapes.get(c.get("shape", "?"), 0) + 1
    ctx.cov["input_distribution"] = {
        "cases": len(cases), "toy_hash_cases_compared_with_model": len(toy),
        "sha256_cases": sum(1 for c in cases if c["hash"] == "sha"),
        "atomic_update_cases": sum(1 for c in cases if c.get("atomic")),
        "batches": nb, "deletes": sum(1 for c in cases for b in c["batches"] for v in b["v"] if v == tg.DEFAULT),
        "deletes_of_absent_keys": count_absent_deletes(cases),
        "reopened_historical_roots": sum(len(o.get("reopen") or []) for o in obs), "shapes": shapes}
    if quick_exhaustive(cases):
        ctx.cov["notes"] = ["exhaustive family: all sequences of 2 batches (set/delete/untouched per key) over a 3-key universe"]
    for c, o in list(zip(cases, obs))[:2]:
        ctx.sample({"case": slim(c), "roots": o["roots"]})
    # ---- decide
    seen = set()
    for key, what, rep in fails:
        if key in seen:
            continue
        seen.add(key)
        ctx.finding("C10:" + key, what, rep)
    hard = [f for f in fails if not ctx.known_match("C10:" + f[0])]
    if not pr["ok"] and not hard:
        ctx.violation("proof obligation no longer checks: %s" % pr["broken"],
                      {"theorem_or_file": pr["broken"], "log": pr["log"][-3000:]}, no_input=True)
    if corr and not hard:
        ctx.violation("correspondence broken: " + corr[0], {"correspondence": corr[0], "cases": corr[1]}, no_input=True)


def count_absent_deletes(cases):
    n = 0
    for c in cases:
        cur = set()
        for b in c["batches"]:
            for k, v in zip(b["k"], b["v"]):
                if v == tg.DEFAULT:
                    if k not in cur:
                        n += 1
                    cur.discard(k)
                else:
                    cur.add(k)
    return n


def quick_exhaustive(cases):
    return any(c.get("shape") == "exh" for c in cases)

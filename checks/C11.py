"""C11 Merkle proofs for accounts and contract variables are sound and complete.
Proof: coq/Properties/C11.v over coq/Trie/Proof.v.
Correspondence: proofs produced by the real trie (MerkleProof / MerkleProofCompressed, at
current and historical roots, live and fresh instances) must equal the model's proofs byte for
byte (shared toy hash); honest and corrupted proofs are fed to the four real verifiers and to
the model verifiers and the verdicts compared.  Direct predicates (SHA-256 and toy): honest
proofs verify; whatever a verifier accepts is true of the map."""
import hashlib
import json
import os
import sys

import vf

sys.path.insert(0, os.path.join(vf.VERIF, "lib"))
import trie_gen as tg  # noqa: E402

META = {
    "text": "19 theorems (Coq, no axioms, parametric in H) over a model of merkleProof(Compressed) and the four verifiers. "
            "FULL: completeness for present keys and for absent keys (empty subtree or foreign leaf on the path) in every non-empty trie, plain "
            "and compressed (compress/decompress, compressed verifiers = plain verifiers on the decompressed path); the F2 repair; the leaf test of merkleProof compares the FULL stored key, so for query keys of any length Inclusion=true comes only with the "
            "value stored under exactly that key. FULL with "
            "`\\/ hash_break H` (collision or DefaultLeaf shift pair): soundness of inclusion and of non-inclusion by a foreign leaf (plain and "
            "compressed), non-transplantability across key/value/root/height; statedb composition (account proof + variable proof against the "
            "storage root in the proved state bind the variable to the state root); chain level: the proof returned through name "
            "resolution, labelled Key := resolved address, is accepted by a client deriving the trie key from that Key. PARTIAL: non-inclusion by an empty subtree is sound only if the audit nodes are hash outputs (not checkable). REFUTED: that "
            "statement without the hypothesis (C11:noninclusion-default-shift-forgery, forged with SHA-256 on every run) and completeness "
            "for the empty trie (C11:empty-trie-proof-rejected; via the ChainWorker: C11:chain-var-proof-empty-storage). Every run: real proofs "
            "(current/historical roots) = model proofs byte for byte (toy hash); honest and single-field-corrupted proofs through real and "
            "model verifiers (verdicts equal; accepted => claim true of the map); statedb and ChainWorker answers (by address, name, special "
            "accounts, variables, plain/compressed, every root; on a live StateDB with pending writes before Update, between Update and Commit "
            "(C11:statedb-proof-between-update-and-commit, API level only) and after, root nil = explicit root; malformed storage keys of 0..64 bytes: never Inclusion=true, absence proofs verify; a panic on keys shorter "
            "than the walk was F37h, repaired by /repo 948a63b6, and is reported as a violation if it returns) verified like a light client by "
            "the real and the model verifiers.",
    "note": "Trusted: Coq kernel (vm_compute sample), extraction (ExtrOcamlBasic) + OCaml driver incl. its SHA-256 (test vector each run), Go "
            "toolchain, engines in pkg/trie, state/statedb and chain (overlay build with the VM stub, irrelevant here), generators. No axioms, no "
            "translator. Modelled: the protobuf encoding of types.State and name resolution are function parameters (injectivity assumed for "
            "the encoding, format in C19). Assumptions: verifier inputs are length-checked (32-byte key/value, audit nodes 32 bytes or "
            "DefaultLeaf, enough nodes/bitmap bytes: the Go verifiers do not check and panic on short input, counted as not accepted); H "
            "returns 32 bytes.",
    "technique": "Coq proof over Gallina proof/verifier model + extracted-model correspondence on real proofs, their corruptions, statedb and ChainWorker answers",
}

ENGINE = os.path.join(vf.HARNESS, "engines/trie/zz_verif_trie_engine_test.go")
MASK = (1 << 63) - 1


def toy_hash(data):
    def lane(m, seed):
        x = seed
        for b in data:
            x = (x * m + b + 1) & MASK
        x ^= x >> 29
        x = (x * 0x1b873593cc9e2d51) & MASK
        x ^= x >> 32
        return x.to_bytes(8, "big")
    return (lane(0x100000001b3, 0x2bf29ce484222325) + lane(0x5851f42d4c957f2d, 0x14057b7ef767814f)
            + lane(0x2545f4914f6cdd1d, 0x1234567890abcdef) + lane(0x369dea0f31a53f85, 0x0fedcba987654321))


def sha(data):
    return hashlib.sha256(data).digest()


def forgery_case(hname):
    """F37b: two keys 10.. and 11.. (root = Nd E r); grind a value until hash(r) ends in 0x00."""
    hf = sha if hname == "sha" else toy_hash
    k1 = bytes([0x80] + [0] * 31)
    k2 = bytes([0xC0] + [0] * 31)
    v1 = hf(b"v1")
    i = 0
    while True:
        v2 = hf(b"grind" + i.to_bytes(4, "big"))
        hr = hf(hf(k1 + v1 + bytes([254])) + hf(k2 + v2 + bytes([254])))
        if hr[31] == 0:
            break
        i += 1
    root = hf(b"\x00" + hr)
    case = {"hash": hname, "atomic": False, "proofs": 1, "shape": "forgery",
            "batches": [{"k": [k1.hex(), k2.hex()], "v": [v1.hex(), v2.hex()], "commit": True}],
            "q": [k1.hex(), k2.hex(), bytes([0x40] + [0] * 31).hex()]}
    forged = {"hash": hname, "kind": "N", "root": root.hex(), "ap": [(b"\x00" + hr[:31]).hex()], "bitmap": "", "length": 0,
              "key": k1.hex(), "value": "", "pk": ""}
    forged_c = dict(forged, kind="NC", bitmap="80", length=1)
    return case, [forged, forged_c], root.hex()


def gen_cases(ctx):
    rng = ctx.rng
    quick = ctx.tier == "quick"
    cases = []
    for c in tg.load_corpus(os.path.join(vf.VERIF, "corpus", "C10")) + tg.load_corpus(os.path.join(vf.VERIF, "corpus", "C11")):
        if c["name"].startswith("known_"):
            continue
        for hn in ("toy", "sha"):
            d = dict(c)
            d.update(hash=hn, proofs=2, shape="corpus")
            d.setdefault("atomic", False)
            cases.append(d)
    n_toy, n_sha = (44, 16) if quick else (1000, 300)
    for i in range(n_toy + n_sha):
        hn = "toy" if i < n_toy else "sha"
        c = tg.rand_case(rng, hn, nkeys=rng.choice([1, 2, 3, 4, 5, 6, 8]), nbatches=rng.choice([1, 2, 3, 4]),
                         proofs=2 if i % 3 == 0 else 1, atomic=False)
        for b in c["batches"]:
            b["commit"] = True
        cases.append(c)
    return cases


def flip_hex(hx, i, mask=1):
    b = bytearray.fromhex(hx)
    b[i % len(b)] ^= mask
    return bytes(b).hex()


def variants(rng, p, hname, exhaustive=False):
    """Single-field corruptions of an honest proof -> list of (label, query, claim) where claim =
    ('I', key, value) or ('N', key).  The honest query itself is first."""
    out = []
    key, root = p["key"], p["root"]

    def q(kind, **kw):
        d = {"hash": hname, "kind": kind, "root": root, "ap": list(p["ap"]), "bitmap": "", "length": 0,
             "key": key, "value": p["pv"], "pk": p["pk"]}
        if kind in ("IC", "NC"):
            d.update(ap=list(p["apc"]), bitmap=p["bitmap"], length=p["height"], value=p["pvc"], pk=p["pkc"])
        d.update(kw)
        return d

    def claim(d):
        return ("I", d["key"], d["value"]) if d["kind"] in ("I", "IC") else ("N", d["key"])

    def add(label, d):
        out.append((label, d, claim(d)))

    kinds = ("I", "IC") if p["inc"] else ("N", "NC")
    for kind in kinds:
        comp = kind in ("IC", "NC")
        add("honest", q(kind))
        ap = list(p["apc"] if comp else p["ap"])
        n = len(ap)
        add("root", q(kind, root=flip_hex(root, rng.randrange(32), 1 << rng.randrange(8)) if root else "00" * 32))
        # key: a bit inside the proved depth and one below it
        depth = p["height"]
        if depth > 0:
            d = rng.randrange(depth)
            add("key-in-path", q(kind, key=flip_hex(key, d // 8, 1 << (7 - d % 8))))
            d = depth - 1       # the last bit the non-inclusion verifiers compare with the proof key
            add("key-last-path-bit", q(kind, key=flip_hex(key, d // 8, 1 << (7 - d % 8))))
            add("key-first-path-bit", q(kind, key=flip_hex(key, 0, 0x80)))
        if depth < 256:
            d = rng.randrange(depth, 256)
            add("key-below-path", q(kind, key=flip_hex(key, d // 8, 1 << (7 - d % 8))))
        if p["pv"]:
            add("value", q(kind, value=flip_hex(p["pv"], rng.randrange(32), 1 << rng.randrange(8))))
        if p["pk"]:
            add("proofkey", q(kind, pk=flip_hex(p["pk"], rng.randrange(32), 1 << rng.randrange(8))))
            add("proofkey=key", q(kind, pk=key))
            add("proofkey-dropped", q(kind, pk=""))
        if not p["inc"] and not p["pk"]:
            add("proofkey-added", q(kind, pk=flip_hex(key, 31, 1), value="11" * 32))
        idxs = list(range(n)) if exhaustive else sorted(set([0, n - 1] + [rng.randrange(n) for _ in range(2)])) if n else []
        for i in idxs:
            a2 = list(ap)
            a2[i] = flip_hex(ap[i], rng.randrange(len(ap[i]) // 2), 1 << rng.randrange(8))
            add("audit-node", q(kind, ap=a2))
            if not comp:
                a3 = list(ap)
                a3[i] = "00" if ap[i] != "00" else "22" * 32
                add("audit-node-default-swap", q(kind, ap=a3))
        if n:
            add("audit-drop-last", q(kind, ap=ap[:-1], **({"length": p["height"]} if comp else {})))
            add("audit-drop-first", q(kind, ap=ap[1:], **({"length": p["height"]} if comp else {})))
        if not comp:
            add("audit-append-default", q(kind, ap=ap + ["00"]))
            add("audit-prepend-default", q(kind, ap=["00"] + ap))
        else:
            h = p["height"]
            bm = p["bitmap"]
            for i in (list(range(h)) if exhaustive else sorted({0, max(h - 1, 0), rng.randrange(max(h, 1))})):
                if i < h:
                    add("bitmap-bit", q(kind, bitmap=flip_hex(bm, i // 8, 1 << (7 - i % 8))))
            if h > 0:
                add("height-1", q(kind, length=h - 1))
            if h + 1 < 8 * (len(bm) // 2):
                add("height+1", q(kind, length=h + 1))
        # the other verifier on the same material
        if p["inc"]:
            other = "N" if kind == "I" else "NC"
            add("as-noninclusion-pk=key", q(other, pk=key))
            add("as-noninclusion-empty", q(other, pk=""))
        elif p["pk"]:
            other = "I" if kind == "N" else "IC"
            add("foreign-leaf-as-inclusion", q(other))
    return out


SDB_ENGINE = os.path.join(vf.HARNESS, "engines/trie/zz_verif_statedb_proof_engine_test.go")


def statedb_cases(rng, n):
    cases = []
    names = ["acct%d" % i for i in range(12)]
    vnames = ["var%d" % i for i in range(8)]
    for _ in range(n):
        rounds = []
        for ri in range(rng.choice([1, 2, 3])):
            accts = {a: rng.randrange(1, 1000) for a in rng.sample(names, rng.randrange(1, 7))}
            if ri == 0:
                accts["ctr"] = 1
            vs = {}
            for v in rng.sample(vnames, rng.randrange(0, 5)):
                vs[v] = "" if rng.random() < 0.3 else "val%d" % rng.randrange(100)
            if ri == 0:
                vs["var0"] = "keep"      # the storage never becomes empty
            elif "var0" in vs:
                del vs["var0"]
            rounds.append({"accounts": accts, "vars": vs})
        c = {"rounds": rounds, "qaccts": names + ["ctr", "nobody"], "qvars": vnames + ["novar"], "contract": "ctr"}
        # malformed storage keys (GetStateQuery forwards the client's StorageKeys unchanged): proper
        # prefixes of stored keys (0, 1, 4, 31 bytes) and extensions (33, 64 bytes)
        bad = [""]
        for v in vnames + ["novar"]:
            full = hashlib.sha256(v.encode()).digest()
            bad += [full[:1].hex(), full[:4].hex(), full[:31].hex(), (full + b"\x01").hex(), (full + b"\x00").hex(),
                    (full + bytes(rng.randrange(256) for _ in range(32))).hex()]
        c["qbadkeys"] = bad
        if not cases or rng.random() < 0.75:
            # puts / storage writes left PENDING on the live StateDB after the last commit: proofs are
            # asked before Update ("buffered") and between Update and Commit ("updated"), root nil
            # and explicit current root
            known = sorted({a for r in rounds for a in r["accounts"]} - {"ctr"})
            pa = {a: rng.randrange(1000, 2000) for a in rng.sample(known, min(len(known), rng.randrange(1, 4)))}
            for a in rng.sample(names, rng.randrange(0, 3)):
                pa.setdefault(a, rng.randrange(1000, 2000))
            pv = {}
            for v in rng.sample(vnames[1:], rng.randrange(0, 4)):
                pv[v] = "" if rng.random() < 0.3 else "pend%d" % rng.randrange(100)
            c["pending"] = {"accounts": pa, "vars": pv}
        cases.append(c)
    return cases


def statedb_predicates(cases, obs):
    fails, n = [], 0
    for c, os_ in zip(cases, obs):
        accts, vars_, hist = {}, {}, []
        for r in c["rounds"]:
            accts.update(r["accounts"])
            for k, v in r["vars"].items():
                if v == "":
                    vars_.pop(k, None)
                else:
                    vars_[k] = v
            hist.append((dict(accts), dict(vars_)))
        if c.get("pending"):
            pa, pv = dict(accts), dict(vars_)
            pa.update(c["pending"]["accounts"])
            for k, val in c["pending"]["vars"].items():
                if val == "":
                    pv.pop(k, None)
                else:
                    pv[k] = val
            pend = (pa, pv)
        agree = {}
        for o in os_:
            n += 1
            # before Update the current root is still the committed one; after Update it is the
            # root of committed + pending contents
            a, v = pend if o.get("phase") in ("updated", "committed") else hist[o["round"]]
            rep = {"case": c, "obs": o}
            if o.get("phase") and o["kind"] == "account":
                k = (o["phase"], o["name"], o["comp"])
                ans = (o["err"], o["inclusion"], o["nonce"], o["verified"])
                if k in agree and agree[k][0] != ans:
                    fails.append(("statedb-proof-nil-root-differs", "live StateDB with pending writes (%s): the answer for "
                                  "root=nil (latest) differs from the answer for the same root passed explicitly" % o["phase"],
                                  {"case": c, "obs": o, "other": agree[k][1]}))
                agree.setdefault(k, (ans, o))
            if o["kind"] == "badvar":
                klen = len(o["name"]) // 2
                if "panic in GetVarAndProof" in o["err"]:
                    fails.append(("statedb-proof-malformed-key-panic", "GetVarAndProof panics on a storage key of %d bytes (GetStateQuery "
                                  "forwards the client's StorageKeys unchanged)" % klen, rep))
                elif o["err"]:
                    pass        # an error is an acceptable answer to a malformed key
                elif o["inclusion"]:
                    fails.append(("statedb-proof-malformed-key-inclusion", "the node answers Inclusion=true for a storage key of %d bytes that was "
                                  "never written (proof verifies: %s)" % (klen, o["verified"]), rep))
                elif not o["verified"]:
                    fails.append(("statedb-proof-malformed-key-rejected", "the absence proof returned for a storage key of %d bytes is not accepted "
                                  "against the storage root (%s)" % (klen, o["value"] or "verdict false"), rep))
                continue
            if o.get("phase") == "updated":
                # F37g: between Update and Commit the new leaf data is not in the store yet
                pnd = c["pending"]
                if (o["kind"] == "account" and (o["name"] in pnd["accounts"] or (o["name"] == c["contract"] and pnd["vars"]))
                        and not o["err"] and o["inclusion"] and not o["verified"] and o["nonce"] == 0):
                    fails.append(("statedb-proof-between-update-and-commit", "account changed by the pending block: inclusion proof with an empty State", rep))
                    continue
                if o["kind"] == "var" and pnd["vars"] and "unavailable in the disk db" in o["err"]:
                    fails.append(("statedb-proof-between-update-and-commit", "variable proof against the updated, uncommitted storage root fails", rep))
                    continue
            if o["err"]:
                fails.append(("statedb-proof-error", "GetAccountAndProof/GetVarAndProof failed: " + o["err"], rep))
                continue
            if o["kind"] == "contract":
                if not (o["inclusion"] and o["verified"] and o["nonce"] == a[o["name"]]):
                    fails.append(("statedb-contract-proof", "account proof of the contract (composition flow) not verified", rep))
                continue
            if o["kind"] == "account":
                exp = o["name"] in a
                good = (not exp) or o["nonce"] == a[o["name"]]
            else:
                exp = o["name"] in v
                good = (not exp) or o["value"] == v[o["name"]]
            if o["inclusion"] != exp or not good:
                fails.append(("statedb-proof-content", "statedb proof reports inclusion/state different from what was written", rep))
            elif not o["verified"]:
                fails.append(("statedb-proof-rejected", "honest statedb proof rejected by the trie verifier", rep))
    return fails, n


CHAIN_ENGINE = os.path.join(vf.HARNESS, "engines/trie/zz_verif_chain_proof_engine_test.go")


def chain_cases(rng, n):
    """Block states with funded accounts, names registered through contract/name, one contract
    with storage variables; queried by address, by name (registered, unregistered, special)."""
    pool = ["seedc11named", "verifnameaaa", "verifnamebbb", "contractname"]
    cases = []
    for ci in range(n):
        nacc = rng.choice([3, 4, 5])
        contract = rng.randrange(nacc)
        names = {}
        rounds = []
        for ri in range(rng.choice([1, 2, 3])):
            bal = {str(i): rng.randrange(1, 10 ** 6) for i in rng.sample(range(nacc), rng.randrange(1, nacc + 1))}
            if ri == 0:
                bal[str(contract)] = bal.get(str(contract), 5)
                bal["0"] = bal.get("0", 7)
            new = {}
            for nm in rng.sample(pool, rng.choice([0, 1, 2]) if ri else rng.choice([1, 2])):
                if nm not in names:
                    # a name is registered for an account that already exists
                    owners = [i for i in range(nacc) if any(str(i) in r["bal"] for r in rounds) or str(i) in bal]
                    new[nm] = rng.choice(owners)
            if ci == 0 and ri == 0:
                new.setdefault("contractname", contract)
            names.update(new)
            vs = {}
            for v in rng.sample(["x", "y", "z", "u", "w"], rng.randrange(0, 4)):
                vs[v] = "" if (ri and rng.random() < 0.3) else "val%d" % rng.randrange(100)
            if ri == 0:
                vs["keep"] = "1"
            rounds.append({"bal": bal, "names": new, "vars": vs})
        qv = ["x", "y", "z", "u", "w", "keep", "never"]
        bad = [""]
        for v in qv:
            full = hashlib.sha256(v.encode()).digest()
            bad += [full[:1].hex(), full[:4].hex(), full[:31].hex(), (full + b"\x01").hex(), (full + full).hex()]
        cases.append({"nacc": nacc, "contract": contract, "rounds": rounds,
                      "qnames": pool + ["unregistered", "aergo.system", "aergo.name"], "qvars": qv, "qbadkeys": bad})
    return cases


def chain_check(ctx, exe):
    """Returns (fails, corr, n)."""
    rng = ctx.rng
    rc, log, cbin = ctx.go_test_binary("chain", [CHAIN_ENGINE], "chain_c11.test")
    if rc != 0:
        raise RuntimeError("chain engine build failed:\n" + log[-3000:])
    cases = chain_cases(rng, 3 if ctx.tier == "quick" else 60)
    outs = [json.loads(l) for l in tg.run_engine(ctx, cbin, "TestVerifChainProofs", cases, "c11c")]
    fails, corr, n = [], None, 0
    qlines, qwant = [], []
    for c, o in zip(cases, outs):
        if o.get("err"):
            fails.append(("chain-engine-error", "chain proof engine failed: " + o["err"], c))
            continue
        if o.get("sha_vec") != hashlib.sha256(b"abc").hexdigest():
            fails.append(("chain-engine-error", "hash test vector differs", c))
        # plain map semantics of the rounds
        bal_hist, var_hist, owner = [], [], {}
        bal, vars_ = {}, {}
        for r in c["rounds"]:
            for i, a in r["bal"].items():
                bal[int(i)] = bal.get(int(i), 0) + a
            for k, v in r["vars"].items():
                if v == "":
                    vars_.pop(k, None)
                else:
                    vars_[k] = v
            owner.update(r["names"])
            bal_hist.append(dict(bal))
            var_hist.append(dict(vars_))
        for x in o["obs"]:
            n += 1
            rep = {"case": c, "proof": {k: x[k] for k in ("label", "account", "round", "use_root", "comp", "inclusion", "key", "balance", "verified", "err")}}
            kind = x["label"].split(":")[0]
            if kind == "badvar":
                klen = len(x["label"].split(":")[1]) // 2
                if "panic" in x["err"]:
                    fails.append(("chain-query-malformed-key-panic", "ChainWorker.Receive(GetStateQuery) panics on a storage key of %d bytes: %s" % (klen, x["err"]), rep))
                elif x["err"]:
                    pass        # an error is an acceptable answer to a malformed key
                elif x["inclusion"]:
                    fails.append(("chain-proof-malformed-key-inclusion", "GetStateQuery answers Inclusion=true for a storage key of %d bytes that was "
                                  "never written (proof verifies: %s)" % (klen, x["verified"]), rep))
                elif not x["verified"]:
                    fails.append(("chain-proof-malformed-key-rejected", "the absence proof GetStateQuery returns for a storage key of %d bytes is not "
                                  "accepted against the storage root" % klen, rep))
                continue
            if x["err"]:
                fails.append(("chain-proof-error", "the node returned an error instead of a proof: " + x["err"], rep))
                continue
            if not x["verified"]:
                if kind == "var" and x["root"] == "":
                    fails.append(("chain-var-proof-empty-storage", "variable proof for an account without storage is taken from the account trie "
                                  "and cannot verify against the (empty) storage root", rep))
                else:
                    fails.append(("chain-proof-rejected", "a proof returned by the node (%s) is rejected by a light client that derives the trie key "
                                  "from the proof's own Key against the root the request named" % x["label"], rep))
            # contents
            who = None
            if kind == "address":
                who = int(x["label"].split(":")[1])
            elif kind == "name" and x["label"].split(":")[1] in owner:
                who = owner[x["label"].split(":")[1]]
            elif kind == "query" and x["label"] == "query:contract-address":
                who = c["contract"]
            if who is not None:
                exp = bal_hist[x["round"]].get(who)
                if x["inclusion"] != (exp is not None) or (exp is not None and x["balance"] != str(exp)):
                    fails.append(("chain-proof-content", "account proof reports a state different from what the blocks wrote", rep))
            if kind == "var" and x["label"].startswith("var:contract-address:"):
                vn = x["label"].split(":")[2]
                exp = var_hist[x["round"]].get(vn)
                if x["inclusion"] != (exp is not None) or (exp is not None and x["value"] != exp):
                    fails.append(("chain-proof-content", "variable proof reports a value different from what the blocks wrote", rep))
            # the same proof through the model verifier (SHA-256)
            if x["root"] != "" or kind != "var":
                k = ("I" if x["inclusion"] else "N") + ("C" if x["comp"] else "")
                ap = ",".join(a if a else "." for a in (x["ap"] or [])) or "-"
                val = x["trieval"] if x["inclusion"] else x["pv"]
                qlines.append("VS %s %s %s %s %s %d %s %s" % (k, x["root"] or "-", x["triekey"], val or "-", x["pk"] or "-",
                                                             x["height"] if x["comp"] else 0, x["bitmap"] or "-", ap))
                qwant.append((x["verified"], rep))
    if exe and qlines:
        out = [l for l in tg.run_driver(ctx, exe, "S 616263\n" + "\n".join(qlines) + "\n") if l]
        if not out or out[0] != hashlib.sha256(b"abc").hexdigest():
            corr = ("SHA-256 of the OCaml driver differs from the reference", [])
        elif len(out) - 1 != len(qwant):
            corr = ("model driver returned %d verdicts for %d chain proofs" % (len(out) - 1, len(qwant)), [])
        else:
            bad = [rep for (v, rep), m in zip(qwant, out[1:]) if v != (m == "1")]
            if bad:
                corr = ("real verifier and model verifier (SHA-256) disagree on %d of %d proofs returned by the ChainWorker" % (len(bad), len(qwant)), bad[:2])
        ctx.cov["chain_proofs_model_verified"] = len(qwant)
    return fails, corr, n


def query_line(d):
    ap = ",".join(x if x else "." for x in d["ap"]) or "-"
    return "V %s %s %s %s %s %d %s %s" % (d["kind"], d["root"] or "-", d["key"], d["value"] or "-", d["pk"] or "-",
                                          d["length"], d["bitmap"] or "-", ap)


def run(ctx):
    import time
    phases, t0 = {}, [time.time()]

    def mark(name):
        phases[name] = round(time.time() - t0[0], 1)
        t0[0] = time.time()
    pr = ctx.prove()
    mark("prove")
    ctx.cov["trusted_base"] = ["Coq 8.16.1 kernel", "Coq extraction (ExtrOcamlBasic) + OCaml driver harness/engines/trie/driver*.ml",
                               "Go toolchain, engine harness/engines/trie", "generator lib/trie_gen.py + checks/C11.py"]
    ctx.assumptions = ["verifier inputs are length-checked: key and value 32 bytes, audit nodes 32 bytes or DefaultLeaf, height <= 256",
                       "soundness theorems conclude `... \\/ hash_break H` (collision or DefaultLeaf shift pair)",
                       "non-inclusion by an empty subtree is sound only for audit paths made of hash outputs (F37b)"]
    rc, log, binp = ctx.go_test_binary("pkg/trie", [ENGINE], "trie.test", use_overlay=False)
    if rc != 0:
        raise RuntimeError("trie engine build failed:\n" + log[-3000:])
    exe, derr = tg.build_driver(ctx)
    mark("build engine+driver")
    rng = ctx.rng
    cases = gen_cases(ctx)
    forged = []
    for hn in ("sha", "toy"):
        fc, fq, froot = forgery_case(hn)
        cases.append(fc)
        forged.append((len(cases) - 1, fq, froot))
    # empty trie (nil root): insert then delete
    for hn in ("sha", "toy"):
        k = bytes([7] * 32).hex()
        cases.append({"hash": hn, "atomic": False, "proofs": 2, "shape": "empty",
                      "batches": [{"k": [k], "v": ["ab" * 32], "commit": True}, {"k": [k], "v": ["00"], "commit": True}], "q": [k]})
    lines, crash = tg.run_engine_safe(ctx, binp, "TestVerifTrieOps", cases, "c11")
    fails = []      # (key, what, replay)
    if crash is not None:
        fails.append(("crash", "the trie panics (process killed) on this op sequence", cases[crash]))
        forged = [f for f in forged if f[0] < crash]
        cases = cases[:crash]
    obs = [json.loads(l) for l in lines]
    mark("ops engine")
    if len(obs) != len(cases):
        raise RuntimeError("engine returned %d observations for %d cases" % (len(obs), len(cases)))
    corr = None
    # ---- honest proofs: direct predicates
    nproofs = 0
    classes = {"present": 0, "absent-empty": 0, "absent-foreign": 0}
    honest = []     # (case index, proof)
    for ci, (c, o) in enumerate(zip(cases, obs)):
        if o.get("err"):
            fails.append(("error", "trie operation failed: " + o["err"], c))
            continue
        maps = tg.map_after(c)
        for p in o.get("proofs") or []:
            nproofs += 1
            p["ap"] = p.get("ap") or []
            p["apc"] = p.get("apc") or []
            m = maps[p["at"]]
            rep = {"case": {k: c[k] for k in ("hash", "batches")}, "proof": p}
            if p.get("err"):
                fails.append(("proof-error", "proof generation failed: " + p["err"], rep))
                continue
            if p["root"] != o["roots"][p["at"]]:
                fails.append(("proof-root", "proof generated against a different root", rep))
            present = p["key"] in m
            if p["inc"] != present or p["incc"] != present:
                fails.append(("included-flag", "included flag differs from the map", rep))
                continue
            if (p["pk"], p["pv"]) != (p["pkc"], p["pvc"]) or len(p["ap"]) != p["height"] \
               or [x for x in p["ap"] if x != "00"] != p["apc"]:
                fails.append(("compressed-differs", "compressed proof is not the compression of the plain proof", rep))
            if present:
                classes["present"] += 1
                if p["pv"] != m[p["key"]]:
                    fails.append(("proof-value", "inclusion proof carries a value different from the stored one", rep))
            elif p["pk"]:
                classes["absent-foreign"] += 1
                if m.get(p["pk"]) != p["pv"] or p["pk"] == p["key"]:
                    fails.append(("foreign-leaf", "foreign leaf of a non-inclusion proof is not a stored pair", rep))
            else:
                classes["absent-empty"] += 1
            if not (p["ok"] and p["okc"]):
                if p["root"] == "":
                    fails.append(("empty-trie-proof-rejected", "honest non-inclusion proof against the empty trie (nil root) is rejected", rep))
                else:
                    fails.append(("honest-rejected", "honest proof rejected by the real verifier", rep))
            honest.append((ci, p))
    # ---- model proofs equal real proofs (toy hash)
    if derr:
        corr = (derr, [])
    else:
        text, expect = [], []
        for ci, (c, o) in enumerate(zip(cases, obs)):
            if c["hash"] != "toy" or o.get("err"):
                continue
            text += tg.driver_case_text(c, o)
            for p in o.get("proofs") or []:
                if p.get("err"):
                    continue
                text.append("P %d %s" % (p["at"], p["key"]))
                ap = ",".join(p["ap"]) or "-"
                apc = ",".join(p["apc"] or []) or "-"
                expect.append((ci, p, "proof %d %s %s %d %s %s %s" % (1 if p["inc"] else 0, p["pk"] or "-", p["pv"] or "-", p["height"],
                                                                   p["bitmap"] or "-", ap, apc)))
            text.append("E")
        out = [l for l in tg.run_driver(ctx, exe, "\n".join(text) + "\n") if l.startswith("proof") or l.startswith("diff")]
        got = [l for l in out if l.startswith("proof")]
        if any(l.startswith("diff") for l in out):
            corr = ("model and implementation differ on roots/Get (see C10)", [])
        elif len(got) != len(expect):
            corr = ("model driver returned %d proofs for %d" % (len(got), len(expect)), [])
        else:
            bad = [(e, g) for e, g in zip(expect, got) if e[2] != g]
            if bad:
                e, g = bad[0]
                corr = ("model proof differs from the real proof on %d of %d proofs" % (len(bad), len(expect)),
                        [{"case": {k: cases[e[0]][k] for k in ("hash", "batches")}, "key": e[1]["key"], "at": e[1]["at"],
                          "impl": e[2][:2000], "model": g[:2000]}])
        ctx.cov["model_proofs_compared"] = len(expect)
        # a sample inside Coq (vm_compute), independent of extraction
        ksample = [e for e in expect if len(cases[e[0]]["batches"]) <= 4][: (12 if ctx.tier == "quick" else 60)]
        if ksample:
            items = []
            for ci, p, _ in ksample:
                c = dict(cases[ci])
                c["batches"] = c["batches"][: p["at"] + 1]
                items.append("((%s,%s),(%s,%s,%s,%s))" % (
                    tg.cq_batches(c), tg.cq_bytes(p["key"]), tg.cq_list([tg.cq_bytes(x) for x in p["ap"]]),
                    "true" if p["inc"] else "false", tg.cq_bytes(p["pk"]), tg.cq_bytes(p["pv"])))
            txt = ["From Coq Require Import List NArith Bool.", "From Verif Require Import Trie.Model Trie.Eval Trie.EvalProof.",
                   "Import ListNotations.", "Open Scope N_scope.",
                   "Definition cases : list c11_case := [\n%s]." % ";\n".join(items),
                   "Definition M := Eval vm_compute in c11_mismatches cases.", "Print M."]
            rc, _ = tg.ensure_vo(ctx, ["Trie/ToyHash", "Trie/Eval", "Trie/EvalProof"])
            ok, idx, out = ctx.coq_eval_mismatches("c11_cases", "\n".join(txt), timeout=900)
            if not ok:
                corr = corr or ("kernel-side proof evaluation failed: " + out[-800:], [])
            elif idx:
                e = ksample[idx[0]]
                corr = corr or ("model proof (vm_compute) differs from the real proof or is rejected by the model verifier on %d of %d sampled proofs"
                                % (len(idx), len(ksample)), [{"case": {k: cases[e[0]][k] for k in ("hash", "batches")}, "key": e[1]["key"], "at": e[1]["at"]}])
            ctx.cov["kernel_evaluated_proofs"] = len(ksample)
    mark("model proofs (driver + kernel sample)")
    # ---- corrupted proofs through the real verifiers and the model verifiers
    budget = 3000 if ctx.tier == "quick" else 100000
    queries = []    # (label, query, claim, truth-map)
    rng.shuffle(honest)
    for n, (ci, p) in enumerate(honest):
        if len(queries) >= budget:
            break
        c = cases[ci]
        m = tg.map_after(c)[p["at"]]
        for label, d, cl in variants(rng, p, c["hash"], exhaustive=(n < 6)):
            queries.append((label, d, cl, m, ci))
    for ci, fq, froot in forged:
        if obs[ci].get("roots") and obs[ci]["roots"][0] == froot:
            for d in fq:
                queries.append(("forged-default-shift", d, ("N", d["key"]), tg.map_after(cases[ci])[0], ci))
        else:
            fails.append(("forgery-setup", "root computed by the check differs from the trie's root", cases[ci]))
    qlines = tg.run_engine(ctx, binp, "TestVerifTrieVerify", [d for _, d, _, _, _ in queries], "c11v")
    verdicts = [int(x) for x in qlines]
    if len(verdicts) != len(queries):
        raise RuntimeError("verify engine returned %d verdicts for %d queries" % (len(verdicts), len(queries)))
    labels = {}
    panics = 0
    for (label, d, cl, m, ci), v in zip(queries, verdicts):
        st = labels.setdefault(label, {"n": 0, "accepted": 0, "panic": 0})
        st["n"] += 1
        if v == 2:
            st["panic"] += 1
            panics += 1
        if v == 1:
            st["accepted"] += 1
            true = (m.get(cl[1]) == cl[2]) if cl[0] == "I" else (cl[1] not in m)
            rep = {"query": d, "variant": label, "map": m}
            if label == "honest":
                continue
            if not true:
                if label == "forged-default-shift":
                    fails.append(("noninclusion-default-shift-forgery", "forged non-inclusion proof accepted for a present key "
                                  "(DefaultLeaf/child-hash ambiguity)", rep))
                elif label == "as-noninclusion-pk=key":
                    fails.append(("noninclusion-proofkey-equals-key", "non-inclusion accepted with proofKey = key for a present key (F2)", rep))
                else:
                    fails.append(("unsound-" + label, "corrupted proof (%s) accepted for a false claim" % label, rep))
    # model verdicts (toy queries only)
    if not derr:
        tq = [(i, qv) for i, qv in enumerate(queries) if qv[1]["hash"] == "toy"]
        out = [l for l in tg.run_driver(ctx, exe, "\n".join(query_line(qv[1]) for _, qv in tq) + "\n") if l in ("0", "1")]
        if len(out) != len(tq):
            corr = corr or ("model driver returned %d verdicts for %d queries" % (len(out), len(tq)), [])
        else:
            bad = [(queries[i], verdicts[i], int(mv)) for (i, _), mv in zip(tq, out) if verdicts[i] != 2 and verdicts[i] != int(mv)]
            if bad:
                corr = corr or ("real verifier and model verifier disagree on %d of %d queries" % (len(bad), len(tq)),
                                [{"variant": b[0][0], "query": b[0][1], "impl": b[1], "model": b[2]} for b in bad[:3]])
        ctx.cov["model_verdicts_compared"] = len(tq)
    mark("verifier queries (engine + driver)")
    # ---- statedb level: GetAccountAndProof / GetVarAndProof through the real verifiers
    rc, log, sbin = ctx.go_test_binary("state/statedb", [SDB_ENGINE], "statedb.test", use_overlay=False)
    if rc != 0:
        raise RuntimeError("statedb engine build failed:\n" + log[-3000:])
    scases = statedb_cases(rng, 6 if ctx.tier == "quick" else 150)
    sobs = [json.loads(l) for l in tg.run_engine(ctx, sbin, "TestVerifStateDBProofs", scases, "c11s")]
    sf, nsdb = statedb_predicates(scases, sobs)
    fails += sf
    mark("statedb engine")
    cf, ccorr, nchain = chain_check(ctx, exe)
    fails += cf
    corr = corr or ccorr
    mark("chain engine")
    ctx.cov["chain_proofs_verified"] = nchain
    # ---- evidence
    ctx.cov["phase_seconds"] = phases
    ctx.cov["statedb_proofs_verified"] = nsdb
    ctx.cov["evaluations"] = nproofs + len(queries) + nsdb + nchain
    ctx.cov["traces_validated_against_impl"] = ctx.cov.get("model_proofs_compared", 0) + ctx.cov.get("model_verdicts_compared", 0)
    ctx.cov["distinct_nontrivial"] = len({(d["kind"], d["root"], d["key"], d["value"], d["pk"], tuple(d["ap"]), d["bitmap"], d["length"])
                                          for lab, d, _, _, _ in queries if lab != "honest"})
    ctx.cov["rule"] = ("evaluations = honest proofs generated (plain+compressed, current and historical roots, live and fresh instances) + "
                       "verifier queries; distinct_nontrivial = distinct corrupted verifier queries (single-field corruptions of honest proofs)")
    ctx.cov["input_distribution"] = {"cases": len(cases), "honest_proofs": nproofs, "key_classes": classes, "queries": len(queries),
                                     "verifier_panics_on_malformed_input": panics, "variants": labels}
    for ci, p in honest[:2]:
        ctx.sample({"key": p["key"], "root": p["root"], "inc": p["inc"], "pk": p["pk"], "height": p["height"],
                    "non_default_nodes": len(p["apc"] or [])})
    # ---- decide
    seen = set()
    for key, what, rep in fails:
        if key in seen:
            continue
        seen.add(key)
        ctx.finding("C11:" + key, what, rep)
    hard = [f for f in fails if not ctx.known_match("C11:" + f[0])]
    if not pr["ok"] and not hard:
        ctx.violation("proof obligation no longer checks: %s" % pr["broken"],
                      {"theorem_or_file": pr["broken"], "log": pr["log"][-3000:]}, no_input=True)
    if corr and not hard:
        ctx.violation("correspondence broken: " + corr[0], {"correspondence": corr[0], "cases": corr[1]}, no_input=True)

"""C12 State snapshots: reverting restores exactly the earlier visible state.
Proof: coq/Properties/C12.v over coq/StateBuf/{Model,Db}.v (literal undo log, storage cache with
explicit pointers, handles, BlockState snapshots, Update/Commit).
Correspondence: the real state / state/statedb packages driven through the exported API on the
same operation traces as the Gallina model (vm_compute), every observable compared after every
operation; direct predicates (revert restores, reverted writes do not influence root/persisted
data) evaluated implementation against implementation."""
import hashlib
import itertools
import json
import os
import re
import vf

META = {
    "text": "31 theorems (Coq, no axioms) over a literal model of stateBuffer and of StateDB / storage cache / ContractState and "
            "AccountState handles (pointer identity) / BlockState / ChainStateDB.  FULL: the index invariant holds after every valid run "
            "and excludes every panic; reads = latest surviving write; rollback restores the log for any nesting; export/stage sorted, "
            "duplicate free, map-order independent, functions of the surviving writes; every non-panicking operation (31 kinds) keeps "
            "the block invariant; handles are copies until PutState (all setters, in every reachable state); "
            "SetRoot/Revert, reopen at a root, Apply, StateDB.Rollback specs; a failed Update (a storage cannot be folded in) leaves the "
            "account buffer as before, in any map order.  FULL UNDER A STATED DISCIPLINE (run_ok: valid nesting, "
            "no Update/Commit inside the span, mutations only through objects not in the buffer): block revert restores accounts and "
            "every staged storage.  REFUTED without it (witness theorems, each reproduced on /repo every run): C12:update-then-rollback, "
            "C12:mutate-after-put, C12:setcode-aliases-buffer (F48a-c, API contracts the node respects), C12:clone-drops-sourcehash (F47).  "
            "Tie: in-package engine of package state drives the real API on the same traces as the model (vm_compute); all accounts, "
            "handles, cached storages (revision, export(), stacks, root), account buffer, handle states and the state root compared after "
            "every step; direct predicates on the implementation alone: revert restores, reverted writes reach neither root nor reopened "
            "state (twin trace), reads = explicit frame-stack specification, caller-side operations invisible, no panic; fault family: Update with storages whose root node is missing (failed Update "
            "changes nothing; predicate only, the model side is the theorem).",
    "note": "Trusted: Coq kernel + vm_compute; no axioms, no translator; engine harness/engines/statebuf (+ read-only accessor shim in "
            "state/statedb), generator and specification state in this script.  Modelled, not verified: tries are finite maps (root = "
            "injective function of the map: C10, SHA-256); byte strings are ids; the DB below db.DB.  Assumptions of the theorems: rollback "
            "revisions not above the current one (Go re-slices beyond len: never executed); run_ok for the block-level restore.",
    "technique": "Coq proof over literal Gallina undo-log/heap model + vm_compute trace correspondence against real state packages",
}

UA = [n + "_" * 31 for n in ("a0", "a1", "c0", "c1")]     # 33 bytes like a real address (AccountState.ID() pads shorter ids)
UK = ["k0", "k1"]


def h256(b):
    return int.from_bytes(hashlib.sha256(b).digest(), "big")


AKEY = [h256(a.encode()) for a in UA]     # types.ToAccountID(id) = sha256(id)
KKEY = [h256(k.encode()) for k in UK]     # types.GetHashID(key)  = sha256(key)


# ------------------------------------------------------------------ generators
class Gen:
    """Abstract bookkeeping of what the caller holds (handles, snapshot tokens)."""

    def __init__(self, rng, disciplined):
        self.rng = rng
        self.disc = disciplined
        self.ops = []
        self.handles = []      # (contract index, live?)
        self.ahs = []          # AccountState handles: [account index, put?]
        self.hvia = []         # per contract handle: (index, generation) of the AccountState newState it embeds (openas), or None
        self.hput = set()      # contract handles whose embedded State object has been stored by PutState
        self.ahgen = []        # per AccountState handle: generation of its newState object (Reset makes a new one)
        self.ah_unknown = False  # an acreate on a possibly existing account: the handle table is unknown until the next clear
        self.touched = set()   # accounts that may exist
        self.nssnaps = 0
        self.ncommits = 0
        self.cache_dirty = False  # some storage has been staged in this StateDB instance
        self.nsnaps = 0
        self.ncsnaps = 0
        self.tokens = []       # live tokens, oldest first: ("B", i) / ("C", j, h)
        self.after_commit = False
        self.spans = []        # (index of snap op, index of rb op) for disciplined reverts

    def live_handles(self):
        return [i for i, (_, l) in enumerate(self.handles) if l]

    def emit(self, op):
        self.ops.append(op)
        self.after_commit = op[0] == "commit"
        if op[0] in ("commit", "apply"):
            self.ncommits += 1
        if op[0] in ("reopen", "reopenat", "apply"):
            self.cache_dirty = False
        if op[0] == "stage":
            self.cache_dirty = True
        if op[0] in ("put", "aget", "acreate", "open"):
            self.touched.add(op[1])

    def new_instance(self):
        self.handles, self.hvia, self.tokens, self.nsnaps, self.ncsnaps, self.ahs = [], [], [], 0, 0, []
        self.hput, self.ahgen = set(), []
        self.nssnaps, self.ah_unknown = 0, False

    def clear(self):
        if self.handles or self.ahs or self.ah_unknown or any(t[0] == "C" for t in self.tokens):
            self.emit(["clear"])
        self.handles = []
        self.hvia = []
        self.hput = set()
        self.ahgen = []
        self.ahs = []
        self.ah_unknown = False
        self.ncsnaps = 0
        self.tokens = [t for t in self.tokens if t[0] in ("B", "S")]

    def step(self):
        rng = self.rng
        lh = self.live_handles()
        choices = ["put", "put", "open"]
        if lh:
            choices += ["set", "set", "set", "del", "stage", "csnap"]
        choices += ["snap", "ssnap"]
        if not self.ah_unknown:
            choices += ["aget", "acreate"]
            if self.ahs:
                choices += ["amut", "amut", "aput", "areset", "asetf", "openas"]
        if self.handles:
            choices += ["getcode", "rawset", "rawget", "setcode"]
        if any(t[0] == "S" for t in self.tokens):
            choices += ["srb"]
        if rng.random() < 0.15:
            choices += ["apply"]
        if rng.random() < 0.2:
            choices += ["update_only"]
        if self.ncommits and rng.random() < 0.15:
            choices += ["reopenat"]
        if self.ncommits and (not self.cache_dirty or not self.disc) and rng.random() < 0.3:
            choices += ["setroot"]
        if any(t[0] == "B" for t in self.tokens):
            choices += ["rb", "rb"]
        if any(t[0] == "C" for t in self.tokens):
            choices += ["crb", "crb"]
        choices += ["updcommit"] if rng.random() < 0.5 else []
        if self.after_commit and rng.random() < 0.5:
            choices += ["reopen"]
        if not self.disc:
            choices += ["wild"]
        c = rng.choice(choices)
        if c == "put":
            self.emit(["put", rng.randrange(4), rng.choice([rng.randrange(1, 200)] * 6 + [0, 255, 256, 65535, 65536, 2 ** 40])])
        elif c == "aget":
            self.emit(["aget", rng.randrange(4)])
            self.ahs.append([self.ops[-1][1], False])
            self.ahgen.append(0)
        elif c == "acreate":
            a = rng.randrange(4)
            if a in self.touched:
                self.ah_unknown = True      # a handle is appended only if the account does not exist
            else:
                self.ahs.append([a, False])
                self.ahgen.append(0)
            self.emit(["acreate", a])
        elif c == "asetf":
            cand = [i for i, h in enumerate(self.ahs) if not (self.disc and h[1])]
            if cand:
                f = rng.randrange(1, 4)
                self.emit(["asetf", rng.choice(cand), f, rng.choice([0, 1, 2, 7] + ([] if f == 2 else [255, 256, 2 ** 40]))])
        elif c == "openas":
            # disciplined: contract storages only for the contract accounts (a0, a1 stay plain accounts)
            cand = [i for i, h in enumerate(self.ahs) if not self.disc or h[0] >= 2]
            if not cand:
                return
            i = rng.choice(cand)
            self.emit(["openas", i])
            self.handles.append((self.ahs[i][0], True))
            self.hvia.append((i, self.ahgen[i]))
            if self.ahs[i][1]:
                self.hput.add(len(self.hvia) - 1)
            self.touched.add(self.ahs[i][0])
        elif c == "setcode":
            # disciplined: only while the embedded State is an AccountState's newState that has not been put
            cand = [h for h in range(len(self.handles)) if not self.disc or (self.hvia[h] is not None and h not in self.hput)]
            if cand:
                self.emit(["setcode", rng.choice(cand), rng.randrange(1, 6), rng.choice([0, 0, 1, 2])])
        elif c == "getcode":
            self.emit(["getcode", rng.randrange(len(self.handles))])
        elif c == "rawset":
            self.emit(["rawset", rng.randrange(len(self.handles)), rng.randrange(1, 3), rng.randrange(0, 5)])
        elif c == "rawget":
            self.emit(["rawget", rng.randrange(len(self.handles)), rng.randrange(1, 3)])
        elif c == "ssnap":
            self.tokens.append(("S", self.nssnaps))
            self.emit(["ssnap"])
            self.nssnaps += 1
        elif c == "srb":
            t = rng.choice([t for t in self.tokens if t[0] == "S"])
            self.tokens = self.tokens[: self.tokens.index(t) + 1]
            self.emit(["srb", t[1]])
        elif c == "update_only":
            # StateDB.Update without Commit (a preview of the root; a second Update follows before Commit).  Every
            # snapshot taken before it is dead (Update is not undone by a revert: known finding), handles survive it
            self.tokens = []
            self.emit(["update"])
        elif c == "apply":
            if self.disc:
                self.handles = [(ci, False) for ci, _ in self.handles]
                self.clear()
            self.emit(["apply"])
            self.new_instance()
        elif c == "reopenat":
            self.emit(["reopenat", rng.randrange(self.ncommits)])
            self.new_instance()
        elif c == "setroot":
            # StateDB.SetRoot / Revert: the account buffer is reset (every revision and block snapshot dies), the
            # storage cache is kept — disciplined traces only do it while nothing is staged
            if self.disc:
                self.handles = [(ci, False) for ci, _ in self.handles]
                self.clear()
            self.tokens = []
            self.emit(["setroot", rng.randrange(self.ncommits)])
        elif c == "amut":
            # disciplined: Add/SubBalance only through a handle whose newState has not been put
            cand = [i for i, h in enumerate(self.ahs) if not (self.disc and h[1])]
            if cand:
                self.emit([rng.choice(["aadd", "asub"]), rng.choice(cand), rng.choice([rng.randrange(1, 50)] * 5 + [0, 255, 256, 2 ** 33])])
        elif c == "aput":
            i = rng.randrange(len(self.ahs))
            self.emit(["aput", i])
            self.ahs[i][1] = True
            self.hput |= {h for h, v in enumerate(self.hvia) if v == (i, self.ahgen[i])}
        elif c == "areset":
            i = rng.randrange(len(self.ahs))
            self.emit(["areset", i])
            self.ahs[i][1] = False
            self.ahgen[i] += 1
        elif c == "open":
            ci = rng.choice([2, 3, 2, 3, 0]) if not self.disc else rng.choice([2, 3])
            self.emit(["open", ci])
            self.handles.append((ci, True))
            self.hvia.append(None)
        elif c == "set":
            self.emit(["set", rng.choice(lh), rng.randrange(2), rng.choice([0, 1, 2, 3, rng.randrange(200)])])
        elif c == "del":
            self.emit(["del", rng.choice(lh), rng.randrange(2)])
        elif c == "stage":
            h = rng.choice(lh)
            self.emit(["stage", h])
            self.handles[h] = (self.handles[h][0], False)
            self.tokens = [t for t in self.tokens if not (t[0] == "C" and t[2] == h)]
        elif c == "csnap":
            h = rng.choice(lh)
            self.emit(["csnap", h])
            self.tokens.append(("C", self.ncsnaps, h))
            self.ncsnaps += 1
        elif c == "snap":
            if self.disc:
                self.clear()
            self.tokens.append(("B", self.nsnaps, len(self.ops)))
            self.emit(["snap"])
            self.nsnaps += 1
        elif c == "rb":
            cand = [t for t in self.tokens if t[0] == "B"]
            t = rng.choice(cand)
            self.tokens = self.tokens[: self.tokens.index(t) + 1]
            if self.disc:
                self.spans.append((t[2], len(self.ops)))
            self.emit(["rb", t[1]])
            if self.disc:
                self.handles = [(ci, False) for ci, _ in self.handles]
                self.clear()
        elif c == "crb":
            cand = [t for t in self.tokens if t[0] == "C"]
            t = rng.choice(cand)
            self.tokens = self.tokens[: self.tokens.index(t) + 1]
            self.emit(["crb", t[1]])
        elif c == "updcommit":
            self.tokens = []
            if self.disc:
                self.handles = [(ci, False) for ci, _ in self.handles]
                self.clear()
            if self.disc or rng.random() < 0.7:
                self.emit(["update"])
            self.emit(["commit"])
        elif c == "reopen":
            self.emit(["reopen"])
            self.new_instance()
        elif c == "wild":
            # anything, valid or not: stale tokens, dead handles, unknown indices
            k = rng.choice(["rb", "crb", "stage", "set", "csnap", "clear"])
            if k == "rb":
                self.emit(["rb", rng.randrange(self.nsnaps + 1)])
                self.tokens = []
            elif k == "crb":
                self.emit(["crb", rng.randrange(self.ncsnaps + 1)])
                self.tokens = []
            elif k == "clear":
                self.clear()
            elif k == "stage":
                h = rng.randrange(len(self.handles) + 1)
                self.emit(["stage", h])
                if h < len(self.handles):
                    self.handles[h] = (self.handles[h][0], False)
            else:
                self.emit([k, rng.randrange(len(self.handles) + 1)] + ([rng.randrange(2), rng.randrange(5)] if k == "set" else []))


def gen_trace(rng, length, disciplined):
    g = Gen(rng, disciplined)
    while len(g.ops) < length:
        g.step()
    return g


ALPHABET = [
    ["put", 0, 1], ["put", 2, 2], ["open", 2], ["set", 0, 0, 1], ["set", 0, 0, 2], ["del", 0, 0],
    ["set", 1, 0, 3], ["set", 0, 1, 4], ["stage", 0], ["stage", 1], ["snap"], ["rb", 0], ["csnap", 0], ["crb", 0],
    ["update"], ["commit"], ["aget", 0], ["aadd", 0, 3], ["aput", 0],
    ["aget", 2], ["openas", 0], ["setcode", 0, 1, 2], ["getcode", 0], ["asetf", 0, 1, 4], ["ssnap"], ["srb", 0],
    ["apply"], ["setroot", 0], ["acreate", 2], ["rawset", 0, 1, 3],
]


# every disciplined trace ends by persisting everything and reading the two contracts back
EPILOGUE = [["clear"], ["update"], ["commit"], ["reopen"], ["open", 2], ["open", 3]]


def erase_spans(ops, spans):
    """Remove the state-changing operations inside reverted top-level spans (snap/rb kept so
    that snapshot numbering is unchanged)."""
    drop = set()
    for s, e in spans:
        for i in range(s + 1, e):
            if ops[i][0] not in ("snap", "rb", "ssnap", "srb"):
                drop.add(i)
    return [op for i, op in enumerate(ops) if i not in drop]


# ------------------------------------------------------------------ Coq emission
def coq_op(op):
    k = op[0]
    if k == "put":
        return "OPut A%d %d" % (op[1], op[2])
    if k == "open":
        return "OOpen A%d" % op[1]
    if k == "set":
        return "OSet %d K%d %d" % (op[1], op[2], op[3])
    if k == "del":
        return "ODel %d K%d" % (op[1], op[2])
    if k == "stage":
        return "OStage %d" % op[1]
    if k == "snap":
        return "OSnap"
    if k == "rb":
        return "ORollback %d" % op[1]
    if k == "csnap":
        return "OCSnap %d" % op[1]
    if k == "crb":
        return "OCRollback %d" % op[1]
    if k == "aget":
        return "OAGet A%d" % op[1]
    if k in ("aadd", "asub"):
        return "%s %d %d" % ("OAAdd" if k == "aadd" else "OASub", op[1], op[2])
    if k == "aput":
        return "OAPut %d" % op[1]
    if k == "areset":
        return "OAReset %d" % op[1]
    if k == "acreate":
        return "OACreate A%d" % op[1]
    if k == "asetf":
        return "OASetF %d %s %d" % (op[1], {1: "FNonce", 2: "FCode", 3: "FRp"}[op[2]], op[3])
    if k == "openas":
        return "OOpenAs %d" % op[1]
    if k == "setcode":
        return "OSetCode %d %d %d" % (op[1], op[2], op[3])
    if k == "getcode":
        return "OGetCode %d" % op[1]
    if k == "rawset":
        return "ORawSet %d %d %d" % (op[1], op[2], op[3])
    if k == "rawget":
        return "ORawGet %d %d" % (op[1], op[2])
    if k == "ssnap":
        return "OSSnap"
    if k == "srb":
        return "OSRollback %d" % op[1]
    if k == "setroot":
        return "OSetRoot %d" % op[1]
    if k == "reopenat":
        return "OReopenAt %d" % op[1]
    if k == "apply":
        return "OApply"
    return {"update": "OUpdate", "commit": "OCommit", "reopen": "OReopen", "clear": "OClear"}[k]


def coq_num(x):
    if x <= -1001 and x > -2000:
        return "K%d" % (-x - 1001)
    if x < 0 and x > -1000:
        return "A%d" % (-x - 1)
    if x < 0:
        return "7777777"
    return str(x)


def coq_obs(o, classes):
    if o.get("p"):
        return "OP"
    nums = ((o.get("a") or []) + (o.get("h") or []) + (o.get("c") or []) + (o.get("b") or []) + (o.get("ah") or [0])
            + (o.get("hs") or [0]) + (o.get("last") or [0]))
    ids = []
    rs = o.get("r") or []
    for i, r in enumerate(rs):
        # the last root is the account trie's (RA in the model), the others are storage roots (RS):
        # the empty tries of both kinds have the same (empty) root bytes
        r = ("A" if i == len(rs) - 1 else "S") + r
        if r not in classes:
            classes[r] = len(classes)
        ids.append(classes[r])
    return "OO [%s] [%s]" % (";".join(coq_num(x) for x in nums), ";".join(str(i) for i in ids))


def coq_trace(ops, obs):
    classes = {}
    steps = []
    for op, o in zip(ops, obs):
        steps.append("(%s, %s)" % (coq_op(op), coq_obs(o, classes)))
    return "(UA, UK, [%s])" % ";\n ".join(steps)


HEADER = ["From Coq Require Import NArith List.", "From Verif Require Import StateBuf.Model StateBuf.Db.",
          "Import ListNotations.", "Open Scope N_scope."] + \
         ["Definition A%d : N := %d." % (i, k) for i, k in enumerate(AKEY)] + \
         ["Definition K%d : N := %d." % (i, k) for i, k in enumerate(KKEY)] + \
         ["Definition UA := [A0;A1;A2;A3].", "Definition UK := [K0;K1]."]


def run_engine(ctx, binp, traces, tag):
    fin = os.path.join(ctx.workdir, "c12_%s.in" % tag)
    fout = os.path.join(ctx.workdir, "c12_%s.out" % tag)
    with open(fin, "w") as f:
        for ops in traces:
            f.write(json.dumps({"ua": UA, "uk": UK, "ops": ops}) + "\n")
    rc, log = ctx.run_bin(binp, ["-test.run", "TestVerifC12Engine"], env={"VERIF_IN": fin, "VERIF_OUT": fout})
    if rc != 0:
        raise RuntimeError("C12 engine failed:\n" + log[-3000:])
    res = [json.loads(l)["obs"] for l in open(fout)]
    if len(res) != len(traces):
        raise RuntimeError("C12 engine: %d results for %d traces" % (len(res), len(traces)))
    return res


def model_check(ctx, traces, results, tag, shard=200):
    """Returns list of (trace index, step index) where model and implementation differ, or None
    when the evaluation itself failed (with the log).  Shards are evaluated in parallel."""
    from concurrent.futures import ThreadPoolExecutor

    def one(s):
        items = [coq_trace(traces[i], results[i]) for i in range(s, min(s + shard, len(traces)))]
        txt = HEADER + ["Definition traces : list trace := [%s]." % ";\n".join(items),
                        "Definition M := Eval vm_compute in bad_traces traces 0.", "Print M."]
        rc, out = ctx.coq_eval("c12_%s_%d" % (tag, s), "\n".join(txt))
        if rc != 0:
            return None, out[-3000:]
        flat = " ".join(out.split())
        m = re.search(r"M = (\[.*?\]|nil)\s*:", flat)
        if not m:
            return None, out[-3000:]
        found = re.findall(r"\((\d+)(?:%nat)?\s*,\s*(\d+)(?:%nat)?\)", m.group(1))
        if not found and m.group(1) not in ("[]", "nil"):
            return None, "could not parse the list of disagreeing traces: " + m.group(1)[:300]
        return [(s + int(a), int(b)) for a, b in found], ""

    # long traces are expensive: order by size so that shards are balanced
    bad = []
    with ThreadPoolExecutor(max_workers=6) as ex:
        for r, log in ex.map(one, range(0, len(traces), shard)):
            if r is None:
                return None, log
            bad += r
    return bad, ""


def visible(o):
    """accounts, cached storages, account buffer and the roots of those (the StorageRoot fields of the caller's
    AccountState handles, listed just before the state root, are not block state)"""
    r = o.get("r") or []
    nah = (o.get("ah") or [0])[0] + (o.get("hs") or [0])[0]
    if r:
        r = r[: len(r) - 1 - nah] + r[-1:]
    return (o.get("a") or [], o.get("c") or [], o.get("b") or [], r)


def run(ctx):
    pr = ctx.prove()
    rng = ctx.rng
    quick = ctx.tier == "quick"
    ctx.cov["trusted_base"] = ["Coq 8.16.1 kernel + vm_compute", "Go toolchain", "aergo-lib in-memory db",
                               "engine harness/engines/statebuf (in-package test of package state + accessor shim in statedb)",
                               "trace generator checks/C12.py", "SHA-256 collision freedom (root equality = map equality)"]
    ctx.assumptions = ["tries are finite maps; equal roots iff equal maps (C10)",
                       "rollback revisions above the current revision are outside the contract and not executed",
                       "block-level restore (run_ok): valid nesting of snapshots and reverts, handles of a reverted span not used "
                       "afterwards, setters / SetCode only through State objects that are not in the buffer, no Update / Commit / "
                       "SetRoot / Apply between a snapshot and the revert to it"]
    eng = os.path.join(vf.HARNESS, "engines/statebuf/zz_verif_c12_engine_test.go")
    shim = os.path.join(vf.HARNESS, "engines/statebuf/zz_verif_statedb_shim.go")
    rc, log, binp = ctx.go_test_binary("state", [eng], "state_c12.test", use_overlay=False,
                                       overlay_extra={"state/statedb/zz_verif_statedb_shim.go": shim})
    if rc != 0:
        raise RuntimeError("C12 engine build failed:\n" + log[-3000:])

    # aliasing between API values and buffered objects (evidence only: these are the contracts the callers rely on)
    aout = os.path.join(ctx.workdir, "c12_alias.out")
    rc_a, log_a = ctx.run_bin(binp, ["-test.run", "TestVerifC12Alias"], env={"VERIF_OUT": aout})
    if rc_a == 0 and os.path.exists(aout):
        ctx.cov["aliasing_observed"] = json.load(open(aout))
        ctx.notes.append("aliasing of API values with buffered objects as observed on the implementation: %s — callers must copy "
                         "before mutating (state.GetAccountState does, via Clone); the engine never mutates a returned value and "
                         "always puts fresh objects, except through AccountState handles, which are modelled with pointer identity"
                         % json.dumps(ctx.cov["aliasing_observed"], sort_keys=True))

    pred_fail = []      # (key, what, replay)
    if ctx.cov.get("aliasing_observed", {}).get("AccountState_newState_is_a_copy_before_PutState") is False:
        pred_fail.append(("C12:handle-mutation-visible", "AddBalance through a fresh AccountState handle (no PutState) changed the buffered account state",
                          {"probe": "PutState(a0, bal 7); h := GetAccountState(a0); h.AddBalance(1); GetState(a0).Balance != 7"}))
    corr_broken = None

    # ---- StateDB.Update with a fault: some staged storages cannot be folded in (storage root names a node missing
    # from the store).  A failed Update must leave every account entry, the buffer revision, the root and every read
    # as before the call (updateStorage takes ONE snapshot before the loop and reverts to it).  Repeated: map order.
    fcases = []
    for plain in (0, 2):
        for healthy in ((1, 3, 6) if quick else (1, 2, 3, 4, 6, 9)):
            for bad in (0, 1, 2):
                for pre in (False, True):
                    fcases.append({"plain": plain, "healthy": healthy, "bad": bad, "precommit": pre, "trials": 4 if quick else 12})
    fin, fout = os.path.join(ctx.workdir, "c12_fault.in"), os.path.join(ctx.workdir, "c12_fault.out")
    json.dump(fcases, open(fin, "w"))
    if os.path.exists(fout):
        os.remove(fout)
    rc_f, log_f = ctx.run_bin(binp, ["-test.run", "TestVerifC12Fault"], env={"VERIF_IN": fin, "VERIF_OUT": fout})
    if rc_f != 0 or not os.path.exists(fout):
        raise RuntimeError("C12 fault engine failed:\n" + log_f[-3000:])
    fres = json.load(open(fout))
    nfail = nok = 0
    for fc, trials in zip(fcases, fres):
        for tr in trials:
            if tr["err"] != (fc["bad"] > 0):
                pred_fail.append(("C12:failed-update", "StateDB.Update %s" % ("succeeds although a staged storage cannot be updated" if fc["bad"] else
                                  "fails without a fault"), {"fault_case": fc, "trial": tr}))
                break
            if tr["err"]:
                nfail += 1
                if tr["after"] != tr["before"]:
                    pred_fail.append(("C12:failed-update-leaves-writes", "a failed StateDB.Update (one staged storage cannot be folded in) leaves "
                                      "account entries / a buffer revision / reads that differ from the state before the call",
                                      {"fault_case": fc, "trial": tr}))
                    break
            else:
                nok += 1
                if tr["after"]["reads"] != tr["before"]["reads"] or tr["after"]["rev"] < tr["before"]["rev"] + fc["healthy"]:
                    pred_fail.append(("C12:failed-update", "a successful Update does not put an account entry per dirty storage or changes a read",
                                      {"fault_case": fc, "trial": tr}))
                    break
    ctx.cov["update_fault_runs"] = {"cases": len(fcases), "failed_updates": nfail, "successful_updates": nok}

    # ---- corpus (hand-written / minimised edge cases run first)
    corpus = []
    cdir = os.path.join(ctx.verif, "corpus", "C12")
    for f in sorted(os.listdir(cdir)) if os.path.isdir(cdir) else []:
        if f.endswith(".json"):
            corpus.append((f, json.load(open(os.path.join(cdir, f)))))
    ctraces = [c["ops"] for _, c in corpus]
    cres = run_engine(ctx, binp, ctraces, "corpus") if ctraces else []
    for (name, c), ops, obs in zip(corpus, ctraces, cres):
        exp = c.get("expect")
        if exp and exp.get("kind") == "revert_differs":
            # a documented way to make a revert not restore the state (known finding)
            i, j = exp["snap_step"], exp["rb_step"]
            if len(obs) > j and not obs[j].get("p") and visible(obs[i]) != visible(obs[j]):
                ctx.finding(exp["key"], exp["what"], {"corpus": name, "ops": ops,
                                                      "at_snapshot": visible(obs[i]), "after_revert": visible(obs[j])})
            else:
                ctx.notes.append("corpus %s: expected finding %s no longer reproduces" % (name, exp["key"]))
        if exp and exp.get("kind") == "revert_restores":
            i, j = exp["snap_step"], exp["rb_step"]
            if len(obs) <= j or obs[j].get("p") or visible(obs[i]) != visible(obs[j]):
                pred_fail.append(("C12:revert-restores", "revert does not restore the state visible at snapshot time (corpus %s)" % name,
                                  {"corpus": name, "ops": ops}))

    # ---- exhaustive short sequences (wild: every call, valid or not)
    L = 2 if quick else 4
    ex = []
    for n in range(1, L + 1):
        if n == 4:
            # length 4: all sequences starting with "open c0" (the interesting prefix); the rest sampled
            ex += [[ALPHABET[2]] + list(p) for p in itertools.product(ALPHABET, repeat=3)]
            continue
        ex += [list(p) for p in itertools.product(ALPHABET, repeat=n)]
    if quick:
        allt = [list(p) for p in itertools.product(ALPHABET, repeat=3)]
        ex += rng.sample(allt, 250)
    # ---- random traces
    rnd_d, rnd_w = [], []
    nd, nw = (40, 25) if quick else (1500, 1200)
    for i in range(nd):
        ln = 200 if i % 10 == 0 else rng.randrange(10, 60)
        rnd_d.append(gen_trace(rng, ln, True))
    for i in range(nw):
        ln = 200 if i % 12 == 0 else rng.randrange(5, 50)
        rnd_w.append(gen_trace(rng, ln, False))
    # root independence: the disciplined trace with its reverted spans erased, both finished by update+commit
    pairs = []
    for g in rnd_d:
        full = g.ops + EPILOGUE
        top = []
        for s, e in sorted(g.spans):
            if top and s >= top[-1][0] and e <= top[-1][1]:
                continue
            while top and top[-1][0] >= s:
                top.pop()
            top.append((s, e))
        erased = erase_spans(g.ops, top) + EPILOGUE
        pairs.append((full, erased, g))
    traces = ex + [p[0] for p in pairs] + [p[1] for p in pairs] + [g.ops for g in rnd_w]
    results = run_engine(ctx, binp, traces, "main")

    # ---- direct predicates on the implementation's own observations
    base = len(ex)

    def eval_pair(full, erased, g, of, oe):
        # (1) every disciplined revert restores exactly what was visible right after the snapshot
        for s, e in g.spans:
            if e < len(of) and s < len(of) and not of[e].get("p") and not of[s].get("p"):
                if visible(of[s]) != visible(of[e]):
                    pred_fail.append(("C12:revert-restores", "revert does not restore the state visible at snapshot time",
                                      {"ops": full[: e + 1], "snap_step": s, "rb_step": e,
                                       "at_snapshot": visible(of[s]), "after_revert": visible(of[e])}))
        # (2) reverted writes influence neither the root nor what is read back after commit
        if len(of) == len(full) and len(oe) == len(erased) and not of[-1].get("p") and not oe[-1].get("p"):
            if visible(of[-1]) != visible(oe[-1]) or of[-1].get("h") != oe[-1].get("h"):
                pred_fail.append(("C12:reverted-write-leaks", "state root / persisted data differ between a run with reverted writes and the run without them",
                                  {"ops_with_reverted": full, "ops_without": erased,
                                   "final_with": [visible(of[-1]), of[-1].get("h")], "final_without": [visible(oe[-1]), oe[-1].get("h")]}))
        # (3)+(4) reads return the latest non-reverted write, against an explicit specification state kept by the
        #     script: accounts a0, a1, contract storage through every live handle (committed maps, staged overlays
        #     restored by block snapshots, private overlays; storages are dict objects: identity matters), history of
        #     persisted states for SetRoot / reopen at an older root.  (6) operations that only create or modify
        #     caller-side objects leave the visible state unchanged (hold and compare).
        NOOPS = ("aget", "acreate", "aadd", "asub", "asetf", "areset", "open", "openas", "getcode", "rawget", "rawset",
                 "setcode", "ssnap", "csnap", "snap", "clear")
        vis, frames, sfr, ahb, hist, codes, hvia, ahcode, ahgen = {}, [], [], [], [], {}, [], {}, {}
        committed, staged, sframes, hs, ctoks = {}, {}, [], [], []
        unstaged = False            # an Update has run whose values Commit has not staged yet
        objbase, keep = {}, []      # storage object (by identity of its overlay dict) -> content of its storage trie
        for si, op in enumerate(full):
            if si >= len(of) or of[si].get("p"):
                break
            k = op[0]
            if k in NOOPS and si > 0 and visible(of[si]) != visible(of[si - 1]):
                pred_fail.append(("C12:handle-mutation-visible", "an operation on caller-side objects only (AccountState handle not yet "
                                  "PutState'd, ContractState open/SetCode on an unbuffered State, snapshots) changed the visible state",
                                  {"ops": full[: si + 1], "before": visible(of[si - 1]), "after": visible(of[si])}))
                break
            nah = (of[si].get("ah") or [0])[0]
            nah_before = (of[si - 1].get("ah") or [0])[0] if si > 0 else 0
            vis_before = dict(vis)
            # ---- accounts (the handle table of the implementation tells whether CreateAccountState made a handle)
            if k == "put":
                vis[op[1]] = op[2]
            elif k == "aget" or (k == "acreate" and nah == len(ahb) + 1):
                ahb.append([op[1], vis.get(op[1], 0), vis.get(op[1], 0)])   # account, old balance, working balance
            elif k == "aadd":
                ahb[op[1]][2] += op[2]
            elif k == "asub":
                ahb[op[1]][2] = abs(ahb[op[1]][2] - op[2])
            elif k == "areset":
                ahb[op[1]][2] = ahb[op[1]][1]
            elif k == "aput":
                vis[ahb[op[1]][0]] = ahb[op[1]][2]
            elif k == "snap":
                frames.append(dict(vis))
            elif k == "rb":
                vis = dict(frames[op[1]])
            elif k == "ssnap":
                sfr.append(dict(vis))
            elif k == "srb":
                vis = dict(sfr[op[1]])
            # ---- contract storage
            if k in ("open", "openas"):
                c = op[1] if k == "open" else ahb[op[1]][0]
                if c in staged:
                    hs.append([c, staged[c], True])                        # alias of the staged object
                else:
                    ov = {}
                    objbase[id(ov)] = dict(committed.get(c, {}))          # private: its trie is the storage root of now
                    keep.append(ov)
                    hs.append([c, ov, True])
            elif k == "update":
                unstaged = True
                # Update flushes every staged buffer into its storage trie (the buffers are kept until Commit)
                for c, ov in staged.items():
                    b = objbase.setdefault(id(ov), dict(committed.get(c, {})))
                    for kk, vv in ov.items():
                        if vv is None:
                            b.pop(kk, None)
                        else:
                            b[kk] = vv
            elif k in ("set", "del"):
                hs[op[1]][1][op[2]] = op[3] if k == "set" else None
            elif k == "stage":
                h = hs[op[1]]
                staged[h[0]] = h[1]
                h[2] = False
            elif k == "csnap":
                ctoks.append((op[1], dict(hs[op[1]][1])))
            elif k == "crb":
                hi, saved = ctoks[op[1]]
                hs[hi][1].clear()
                hs[hi][1].update(saved)
            elif k == "snap":
                sframes.append({c: dict(o) for c, o in staged.items()})
            elif k == "rb":
                fr = sframes[op[1]]
                for c in list(staged):
                    if c in fr:
                        staged[c].clear()
                        staged[c].update(fr[c])
                    else:
                        del staged[c]
            elif k == "clear":
                hs, ctoks, ahb = [], [], []
            elif k in ("commit", "apply"):                                # always preceded by update in disciplined traces
                for c, ov in staged.items():
                    b = objbase.setdefault(id(ov), dict(committed.get(c, {})))
                    if k == "apply":                                      # Apply = Update + Commit
                        for kk, vv in ov.items():
                            if vv is None:
                                b.pop(kk, None)
                            else:
                                b[kk] = vv
                    committed[c] = dict(b)                               # what the last Update put into the storage trie
                    ov.clear()
                hist.append((dict(vis), {c: dict(m) for c, m in committed.items()}))
                unstaged = False
            if k in ("setroot", "reopenat"):
                vis, committed = dict(hist[op[1]][0]), {c: dict(m) for c, m in hist[op[1]][1].items()}
                objbase = {}
            if k == "acreate" and op[1] in (0, 1) and (op[1] in vis_before) and nah != nah_before:
                pred_fail.append(("C12:create-existing", "CreateAccountState handed out a handle for an account that exists",
                                  {"ops": full[: si + 1]}))
                break
            if k == "setcode":
                codes[op[1]] = op[2]
                if op[1] < len(hvia) and hvia[op[1]] is not None and hvia[op[1]][1] == ahgen.get(hvia[op[1]][0], 0):
                    ahcode[hvia[op[1]][0]] = op[2]
            if k == "openas":
                hvia.append((op[1], ahgen.get(op[1], 0)))
            elif k == "open":
                hvia.append(None)
            if k == "asetf" and op[2] == 2:
                ahcode[op[1]] = op[3]
            elif k == "areset":
                ahcode.pop(op[1], None)
                ahgen[op[1]] = ahgen.get(op[1], 0) + 1
            elif k in ("clear", "reopen", "reopenat", "apply"):
                hvia, ahcode, ahgen = [], {}, {}
            if k == "aput" and op[1] in ahcode:
                # the code hash set through the handle (SetCodeHash, or SetCode on the contract state opened on it)
                # is the one the account shows once the handle is put
                ai, sec, pos, got_code = ahb[op[1]][0], of[si].get("a") or [], 0, None
                for aj in range(len(UA)):
                    if sec[pos] == 0:
                        pos += 1
                    else:
                        if aj == ai:
                            got_code = sec[pos + 3]
                        pos += 6
                if got_code != ahcode[op[1]]:
                    pred_fail.append(("C12:code-lost", "the code hash written through an AccountState handle is not the one the account has after PutState",
                                      {"ops": full[: si + 1], "account": UA[ai], "got": got_code, "expected": ahcode[op[1]]}))
                    break
            elif k in ("clear", "reopen", "reopenat", "apply"):
                codes = {}
            if k == "getcode" and op[1] in codes and (of[si].get("last") or [0])[1:] != [1, codes[op[1]]]:
                pred_fail.append(("C12:code-lost", "GetCode through the handle that did SetCode does not return that bytecode",
                                  {"ops": full[: si + 1], "got": of[si].get("last"), "expected": codes[op[1]]}))
                break
            if k in ("reopen", "reopenat", "apply"):
                staged, sframes, hs, ctoks, frames, sfr, ahb, objbase, keep = {}, [], [], [], [], [], [], {}, []
            # ---- compare: accounts
            sec, pos, seen_acc = of[si].get("a") or [], 0, {}
            for ai in range(len(UA)):
                if sec[pos] == 0:
                    pos += 1
                else:
                    seen_acc[ai] = sec[pos + 1]
                    pos += 6                      # present flag, balance, nonce, code, rp, source
            bad_acc = [ai for ai in (0, 1) if seen_acc.get(ai) != vis.get(ai)]
            if bad_acc:
                pred_fail.append(("C12:stale-read", "an account read does not return the latest non-reverted PutState",
                                  {"ops": full[: si + 1], "account": UA[bad_acc[0]], "read": seen_acc.get(bad_acc[0]),
                                   "expected": vis.get(bad_acc[0])}))
                break
            # ---- compare: every live handle
            if k == "rb":
                continue        # the handles of the reverted span are forgotten by the next operation (clear)
            sec = of[si].get("h") or [0]
            pos, bad_h = 1, None
            if sec[0] != len(hs):
                bad_h = ("handle count", sec[0], len(hs))
            for hi, h in enumerate(hs):
                if bad_h:
                    break
                if sec[pos] == 0:
                    if h[2]:
                        bad_h = (hi, "dead", "live")
                    pos += 1
                    continue
                if not h[2]:
                    bad_h = (hi, "live", "dead")
                pos += 2                                                  # live flag, revision
                tb = objbase.get(id(h[1]), committed.get(h[0], {}))
                for kk in range(len(UK)):
                    want = h[1][kk] if kk in h[1] else tb.get(kk)
                    if sec[pos] == 0:
                        got = None
                        pos += 1
                    else:
                        got = sec[pos + 1]
                        pos += 2
                    if got != want and not bad_h:
                        bad_h = (hi, UK[kk], got, want)
                for kk in range(len(UK)):                                 # HasKey: indexed in the buffer (a buffered
                    want_has = 1 if (kk in h[1] or kk in tb) else 0                       # delete counts) or in the trie
                    if sec[pos] != want_has and not bad_h:
                        bad_h = (hi, "HasKey " + UK[kk], sec[pos], want_has)
                    pos += 1
                for kk in range(len(UK)):                                 # GetInitialData = committed value
                    want0 = tb.get(kk)
                    got0 = None if sec[pos] == 0 else sec[pos + 1]
                    pos += 1 if sec[pos] == 0 else 2
                    # (a value Update put into the trie whose bytes Commit has not staged yet reads back empty)
                    if got0 != want0 and not (got0 == 0 and want0 is not None and unstaged) and not bad_h:
                        bad_h = (hi, "initial " + UK[kk], got0, want0)
            if bad_h:
                pred_fail.append(("C12:stale-storage-read", "a contract storage read does not return the latest non-reverted write",
                                  {"ops": full[: si + 1], "detail": bad_h}))
                break
        if any(o.get("p") for o in of):
            pred_fail.append(("C12:panic", "panic (or out-of-contract call) in a disciplined trace",
                              {"ops": full[: len(of)]}))

    for pi, (full, erased, g) in enumerate(pairs):
        eval_pair(full, erased, g, results[base + pi], results[base + len(pairs) + pi])
    # hand-written disciplined traces of the corpus go through the same direct predicates
    for (name, c), ops, obs in zip(corpus, ctraces, cres):
        if (c.get("expect") or {}).get("kind") == "disciplined":
            class _G:
                spans = []
            nb = len(pred_fail)
            eval_pair(ops, ops, _G, obs, obs)
            for i in range(nb, len(pred_fail)):
                k_, w_, r_ = pred_fail[i]
                pred_fail[i] = (k_, w_ + " (corpus %s)" % name, dict(r_, corpus=name))

    # ---- model / implementation correspondence
    call = ctraces + traces
    rall = cres + results
    bad, elog = model_check(ctx, call, rall, "main")
    if bad is None:
        corr_broken = ("trace correspondence could not be evaluated", elog)
    elif bad:
        bad.sort(key=lambda b: (len(call[b[0]]), b[1]))
        t, s = bad[0]
        corr_broken = ("model/implementation differ on %d traces" % len(bad),
                       {"smallest": {"ops": call[t][: s + 1], "impl_obs": rall[t][s] if s < len(rall[t]) else None},
                        "others": [(call[b[0]][: b[1] + 1]) for b in bad[1:4]]})

    steps = sum(len(r) for r in rall)
    ctx.cov["evaluations"] = steps
    ctx.cov["traces_validated_against_impl"] = len(call)
    kinds = {}
    shapes = set()
    for ops in call:
        for op in ops:
            kinds[op[0]] = kinds.get(op[0], 0) + 1
        shapes.add(tuple(op[0] for op in ops))
    nspans = sum(len(g.spans) for _, _, g in pairs)
    ctx.cov["distinct_nontrivial"] = len(shapes)
    ctx.cov["rule"] = ("a case is one operation trace, compared after every step; distinct = distinct sequences of operation kinds "
                       "(put/open/set/del/stage/snap/rb/csnap/crb/update/commit/reopen/clear) among the traces run")
    ctx.cov["exhaustive"] = False
    ctx.cov["input_distribution"] = {
        "exhaustive_short": {"alphabet": len(ALPHABET), "all_sequences_up_to_length": (2 if quick else 3),
                             "plus": ("250 sampled of length 3" if quick else "all length-4 sequences starting with open"),
                             "traces": len(ex)},
        "random_disciplined": len(pairs), "with_erased_twin": len(pairs), "random_wild": len(rnd_w),
        "max_length": max(len(t) for t in call) if call else 0, "op_kinds": kinds,
        "reverted_spans_checked": nspans, "panic_or_out_of_contract_steps": sum(1 for r in rall for o in r if o.get("p")),
        "corpus": len(corpus)}
    if results:
        ctx.sample({"ops": traces[base][:12], "obs_step0": results[base][0]})
        ctx.sample({"ops": ex[min(300, len(ex) - 1)], "obs_last": results[min(300, len(ex) - 1)][-1]})

    # ---- a correspondence or proof break without a failing input: spend more budget on the direct
    #      predicates (more disciplined traces with erased twins) before reporting "no failing input"
    if (corr_broken or not pr["ok"]) and not pred_fail:
        extra = []
        for i in range(300 if quick else 3000):
            g = gen_trace(rng, rng.randrange(8, 80), True)
            full = g.ops + EPILOGUE
            top = []
            for s_, e_ in sorted(g.spans):
                if top and s_ >= top[-1][0] and e_ <= top[-1][1]:
                    continue
                while top and top[-1][0] >= s_:
                    top.pop()
                top.append((s_, e_))
            extra.append((full, erase_spans(g.ops, top) + EPILOGUE, g))
        xres = run_engine(ctx, binp, [p[0] for p in extra] + [p[1] for p in extra], "search")
        for pi, (full, erased, g) in enumerate(extra):
            eval_pair(full, erased, g, xres[pi], xres[len(extra) + pi])
        ctx.cov["input_distribution"]["directed_search_traces"] = 2 * len(extra)

    # ---- decide
    seen = set()
    for key, what, rep in pred_fail:
        if key in seen:
            continue
        seen.add(key)
        ctx.finding(key, what, rep)
    real_fail = [k for k in seen if ctx.known_match(k) is None]
    if not pr["ok"] and not real_fail:
        ctx.violation("proof obligation no longer checks: %s" % pr["broken"],
                      {"theorem_or_file": pr["broken"], "log": pr["log"][-3000:]}, no_input=True)
    if corr_broken and not real_fail:
        ctx.violation("correspondence broken: " + corr_broken[0],
                      {"correspondence": corr_broken[0], "cases": corr_broken[1]}, no_input=True)

"""C13 Transaction pool: per-account nonce order, no stale or duplicate entries.
Proof: coq/Properties/C13.v over coq/Mempool/{Model,Proofs*}.v.
Correspondence: a real MemPool over a real in-memory ChainStateDB (engine
harness/engines/mempool) driven by operation sequences, compared after every operation
with the Gallina model (vm_compute); direct predicate = the pool invariant evaluated on
the real pool's own fields and results."""
import json
import os
import re
import vf

META = {
    "text": "21 theorems (Coq, no axioms) over a Gallina model of txList/MemPool. FULL: the pool invariant (per-account lists strictly "
            "nonce-sorted above the list's base nonce, ready = maximal gap-free prefix, no duplicate hash or (account, nonce), hash cache = "
            "transactions in the lists, length/orphan counters = sums) is kept by every atomic step (unlocked put check, locked insert, block "
            "arrival with setStateDB's scan flags and resetAll, removeTx, eviction incl. a pass cut short by its work timeout between accounts, getUnconfirmed, get), hence by every interleaving of any "
            "number of threads and every sequential run; a producer receives base+1, base+2, ... per account, also under a size budget; after "
            "a processed notification no pooled nonce of a scanned account is <= the new state nonce (advance or rewind); a child of the best "
            "block scans every list. PARTIAL: accounts a non-child block does not scan keep a stale base (theorem "
            "with the hypothesis 'new nonce <= list base'); the schedules clause over real goroutines rests on the lock translator. REFUTED "
            "(kept visible, code repaired): list lookup by Body.Account (F11). Tie on every run: real MemPool over a real in-memory "
            "ChainStateDB, every operation's full pool state diffed with the model (vm_compute), incl. a put split by a real block arrival; a "
            "real txList driven directly; PoolInv / get-run / no-stale predicates on the real fields; 8-32 goroutine runs with a watchdog; "
            "gen/gen_locks.go (go/ast) -> Gen/Locks.v closed by a reflection obligation. Open known finding reproduced each run: "
            "C13:pool-write-under-read-lock:getUnconfirmed.",
    "note": "Trusted: Coq kernel + vm_compute (no axioms); engines, generators and predicates of checks/C13.py; gen_locks.go's textual lock "
            "scopes and package call graph; sync.RWMutex gives mutual exclusion. Assumptions of the theorems: the tx hash determines (owner "
            "account, nonce) for all submitted transactions (no collision; a name resolves to one owner between two submissions of one tx); "
            "nonces < 2^64-1. Modelled rather than verified: validateTx's type-specific recipient/governance checks (engine uses TRANSFER, zero "
            "fee: cost = amount); unlocked reads of mp.stateDB/bestBlockInfo in validateTx and of the counters in Size()/monitor; the budgeted "
            "get is tied by the direct predicate only.",
    "technique": "Coq invariant proof over a Gallina pool model with a thread scheduler + step-by-step vm_compute correspondence "
                 "against the real MemPool/txList + go/ast lock translator",
}

RES = {"ok": 0, "toolow": 1, "samenonce": 2, "already": 3, "balance": 4, "notfound": 5, "yes": 6, "no": 7,
       "init": 0, "skip": 0, "final": 0}


# ----------------------------------------------------------------------------- generator
def gen_case(rng, size="m", named_p=0.3):
    k = rng.choice([1, 2, 2, 3, 3, 4])
    named = [rng.random() < named_p for _ in range(k)]
    init = [[rng.choice([0, 0, 1, 3]), rng.choice([100, 100, 40, 1000])] for _ in range(k)]
    txs = []
    seen = set()
    ntx = rng.randrange(6, 22)
    for _ in range(ntx):
        a = rng.randrange(k)
        lo = init[a][0]
        n = max(1, lo + rng.choice([-1, 0, 1, 1, 2, 2, 3, 3, 4, 5, 6, 8]))
        amt = rng.choice([1, 1, 2, 5, 10, 30, 60, 120])
        v = rng.choice([0, 0, 0, 1])
        if (a, n, amt, v) in seen:
            continue
        seen.add((a, n, amt, v))
        # transactions of different sizes: proto size is about 110 bytes + pad
        txs.append({"acc": a, "nonce": n, "amount": amt, "variant": v, "pad": rng.choice([0, 0, 0, 0, 150, 400, 1200, 4000])})
    if not txs:
        txs.append({"acc": 0, "nonce": init[0][0] + 1, "amount": 1, "variant": 0})
    cur = [list(x) for x in init]
    ops = []
    nops = rng.randrange(8, 34) if size == "m" else rng.randrange(30, 80)
    for _ in range(nops):
        r = rng.random()
        if r < 0.55:
            ops.append({"op": "put", "tx": rng.randrange(len(txs))})
        elif r < 0.72:
            st = []
            for a in range(k):
                n, b = cur[a]
                q = rng.random()
                if q < 0.45:
                    n += rng.choice([1, 1, 2, 3])
                elif q < 0.55:
                    n = max(0, n - rng.choice([1, 2]))     # rewind
                q = rng.random()
                if q < 0.3:
                    b = max(0, b - rng.choice([1, 10, 50, 90]))
                elif q < 0.4:
                    b += rng.choice([10, 100])
                st.append([n, b])
            kind = rng.choice(["next"] * 6 + ["jump"] * 4 + ["same", "fork", "forkjump"])
            dirty = [a for a in range(k) if rng.random() < 0.5]
            ops.append({"op": "block", "state": st, "kind": kind, "dirty": dirty})
            if kind != "same":
                cur = st
        elif r < 0.745:
            # a submission racing a block: validation before, insertion after the notification; the block
            # typically consumes exactly the submitted nonce (a tx of the same account included elsewhere)
            ti = rng.randrange(len(txs))
            st = [list(x) for x in cur]
            a = txs[ti]["acc"]
            if rng.random() < 0.7:
                st[a][0] = max(st[a][0], txs[ti]["nonce"] - rng.choice([0, 0, 0, 1]))
            kind = rng.choice(["next", "next", "next", "jump"])
            ops.append({"op": "putrace", "tx": ti, "state": st, "kind": kind, "dirty": [a] if rng.random() < 0.8 else []})
            cur = st
        elif r < 0.765:
            # two removals of one hash / a removal racing a block arrival
            ti = rng.randrange(len(txs))
            if rng.random() < 0.5:
                ops.append({"op": "rmrace", "tx": ti, "kind": "twice"})
            else:
                st = [list(x) for x in cur]
                a = txs[ti]["acc"]
                if rng.random() < 0.7:
                    st[a][0] = max(st[a][0], txs[ti]["nonce"] - rng.choice([0, 0, 1]))
                ops.append({"op": "rmrace", "tx": ti, "state": st, "kind": rng.choice(["next", "next", "jump"]), "dirty": [a]})
                cur = st
        elif r < 0.82:
            ops.append({"op": "remove", "tx": rng.randrange(len(txs))})
        elif r < 0.845:
            ops.append({"op": "evict", "accs": [a for a in range(k) if rng.random() < 0.5]})
        elif r < 0.86:
            # an eviction pass whose work timeout expires during the pass (it may stop between accounts)
            ops.append({"op": "evictto", "accs": [a for a in range(k) if rng.random() < 0.8],
                        "timeout_ns": rng.choice([0, 1, 100, 500, 2000, 10000, 10 ** 9])})
        elif r < 0.92:
            # mostly the whole pool; sometimes a small block body budget (proto size of a tx here is about 110 bytes)
            ops.append({"op": "get", "max": (1 << 30) if rng.random() < 0.5 else
                        rng.choice([0, 100, 150, 250, 400, 700]) + rng.choice([0, 0, 300, 600, 1500, 4500])})
        elif r < 0.96:
            ops.append({"op": "unconf", "accs": [rng.randrange(k) for _ in range(rng.randrange(1, 3))]})
        else:
            ops.append({"op": "exist", "tx": rng.randrange(len(txs))})
    return {"naccs": k, "named": named, "txs": txs, "init": init, "ops": ops}


def big_evict_case(rng, naccs, per, timeout_ns, passes):
    """A backlog large enough that one eviction pass outlasts its work timeout: the pass must stop between accounts only."""
    txs = []
    for a in range(naccs):
        gap = rng.randrange(per // 2, per)
        for n in range(1, per + 1):
            txs.append({"acc": a, "nonce": n if n < gap else n + 1, "amount": 1, "variant": 0, "pad": 0})   # orphans above the gap
    ops = [{"op": "bulkput", "from": 0, "to": len(txs)}]
    for _ in range(passes):
        ops.append({"op": "evictto", "accs": list(range(naccs)), "timeout_ns": timeout_ns})
        ops.append({"op": "exist", "tx": rng.randrange(len(txs))})
    ops.append({"op": "evict", "accs": list(range(naccs))})
    return {"naccs": naccs, "named": [False] * naccs, "txs": txs, "init": [[0, 10 ** 7]] * naccs, "ops": ops, "_nomodel": True}


def corpus_cases(ctx):
    d = os.path.join(ctx.verif, "corpus", "C13")
    res = []
    if os.path.isdir(d):
        for f in sorted(os.listdir(d)):
            if f.endswith(".json"):
                c = json.load(open(os.path.join(d, f)))
                c["_name"] = f
                res.append(c)
    return res


# ------------------------------------------------------------------- model-side encoding
def N(x):
    return "%d" % x


def lN(xs):
    return "[" + ";".join("%d" % x for x in xs) + "]"


def block_ids(case):
    """Symbolic block ids as the model sees them: (bid, parent, cid) per block op, and the
    effective state / scan mode per block op for the direct predicate."""
    best, cid, nxt = 1, 0, 2
    out = []
    for op in case["ops"]:
        if op["op"] not in ("block", "putrace") and not (op["op"] == "rmrace" and op.get("kind") != "twice"):
            out.append(None)
            continue
        kind = op["kind"]
        if kind == "same":
            out.append((best, 0, cid, "same"))
            continue
        par = best if kind in ("next", "fork") else 0
        if kind in ("fork", "forkjump"):
            cid = 1 - cid
        bid = nxt
        nxt += 1
        out.append((bid, par, cid, kind))
        best = bid
    return out


def coq_obs(o):
    lists = "[" + ";".join("(%d,%d,%d%%nat,%s)" % (l["acc"], l["base"], l["ready"], lN(l["txs"])) for l in o["lists"]) + "]"
    get = "[" + ";".join("(%d,%s)" % (g[0], lN(g[1:])) for g in (o.get("get") or [])) + "]"
    unc = "[" + ";".join("(%s,%s)" % (lN(u[0]), lN(u[1])) for u in (o.get("unconf") or [])) + "]"
    return "(%d,%s,%s,%s,%s,%s,%s)" % (RES.get(o["res"], 99), vf.coq_Z(o["len"]) + "%Z", vf.coq_Z(o["orphan"]) + "%Z",
                                      lists, lN(o["cache"]), get, unc)


def coq_case(case, obs):
    k = case["naccs"]
    tbl = "[" + ";".join("mkTx %d %d %d %d %d%%Z" % (i, t["acc"], (100 + t["acc"]) if case["named"][t["acc"]] else t["acc"],
                                                      t["nonce"], t["amount"]) for i, t in enumerate(case["txs"])) + "]"
    st = lambda s: "[" + ";".join("(%d,%d%%Z)" % (n, b) for n, b in s) + "]"
    bids = block_ids(case)
    steps = []
    for (op, o, bi), prev in zip(zip(case["ops"], obs[1:], bids), obs):
        kind = op["op"]
        if kind == "put":
            e = "EPut %d%%nat" % op["tx"]
        elif kind == "remove":
            e = "ERemove %d%%nat" % op["tx"]
        elif kind == "exist":
            e = "EExist %d%%nat" % op["tx"]
        elif kind == "block":
            e = "EBlock %d %d %d %s %s" % (bi[0], bi[1], bi[2], st(op["state"]), lN(op["dirty"]))
        elif kind == "putrace":
            if "order:put-first" in (o.get("extra") or []):
                break               # the lock was handed over in the other order: compare the prefix only
            e = "ERacePut %d%%nat %d %d %d %s %s" % (op["tx"], bi[0], bi[1], bi[2], st(op["state"]), lN(op["dirty"]))
        elif kind == "rmrace" and op.get("kind") == "twice":
            e = "ERmTwice %d%%nat" % op["tx"]
        elif kind == "rmrace":
            e = "ERmBlock %d%%nat %d %d %d %s %s" % (op["tx"], bi[0], bi[1], bi[2], st(op["state"]), lN(op["dirty"]))
        elif kind == "evict":
            e = "EEvict %s" % lN(op["accs"])
        elif kind == "evictto":
            # the pass may stop between accounts: the model evicts exactly the accounts that disappeared
            gone = sorted({l["acc"] for l in prev["lists"]} - {l["acc"] for l in o["lists"]})
            e = "EEvict %s" % lN([a for a in gone if a in op["accs"]])
        elif kind == "unconf":
            e = "EUnconf %s" % lN(op["accs"])
        elif kind == "get" and op.get("max", 1 << 30) < (1 << 30):
            e = "EExist 0%nat"      # budgeted get: the model only checks that the pool is unchanged
            o = dict(o)
            o["res"] = "yes" if 0 in o["cache"] else "no"
        else:
            e = "EGet"
        steps.append("(%s,%s)" % (e, coq_obs(o)))
    return "(%s,%s,1,0,[%s])" % (tbl, st(case["init"]), ";\n  ".join(steps))


# ---------------------------------------------------------------------- direct predicate
def pool_predicate(case, o, what):
    """PoolInv on the real pool's own fields.  Returns list of (name, detail)."""
    bad = []
    txs = case["txs"]
    seen = {}
    tot = orph = 0
    for l in o["lists"]:
        a = l["acc"]
        if a < 0:
            bad.append(("list-under-foreign-key", l))
            continue
        nonces = []
        for i in l["txs"]:
            if i < 0:
                bad.append(("unknown-tx-in-list", l))
                continue
            if txs[i]["acc"] != a:
                bad.append(("tx-in-wrong-list", l))
            if i in seen:
                bad.append(("duplicate-hash", l))
            seen[i] = a
            nonces.append(txs[i]["nonce"])
        if any(x >= y for x, y in zip(nonces, nonces[1:])):
            bad.append(("not-strictly-sorted", l))
        if nonces and nonces[0] <= l["base"]:
            bad.append(("nonce-not-above-base", l))
        r = 0
        while r < len(nonces) and nonces[r] == l["base"] + r + 1:
            r += 1
        if r != l["ready"]:
            bad.append(("ready-not-maximal-gapfree-prefix", l))
        tot += len(nonces)
        orph += len(nonces) - l["ready"]
    if sorted(seen) != o["cache"]:
        bad.append(("cache-differs-from-lists", {"cache": o["cache"], "in_lists": sorted(seen)}))
    if tot != o["len"]:
        bad.append(("length-counter", {"len": o["len"], "held": tot}))
    if orph != o["orphan"]:
        bad.append(("orphan-counter", {"orphan": o["orphan"], "held": orph}))
    for x in o.get("extra") or []:
        if not x.startswith("order:"):
            bad.append(("engine-note", x))
    return bad


def step_predicates(case, obs):
    """All direct predicates over one sequential case.  Returns (failures, stats)."""
    fails = []
    cur = [list(x) for x in case["init"]]
    bids = block_ids(case)
    for si, (op, o) in enumerate(zip(case["ops"], obs[1:])):
        for name, det in pool_predicate(case, o, op["op"]):
            fails.append((name, op["op"], si, det))
        if op["op"] == "get":
            by = {l["acc"]: l for l in o["lists"]}
            limited = op.get("max", 1 << 30) < (1 << 30)
            for g in o.get("get") or []:
                a, got = g[0], g[1:]
                l = by.get(a)
                ns = [case["txs"][i]["nonce"] for i in got]
                if l is None or ns != [l["base"] + 1 + j for j in range(len(ns))] or (len(ns) != l["ready"] and not limited) \
                        or got != l["txs"][:len(got)]:
                    fails.append(("get-not-gapfree-from-base", "get", si, {"acc": a, "nonces": ns, "list": l}))
        if op["op"] == "evictto":
            gone = {l["acc"] for l in obs[si]["lists"]} - {l["acc"] for l in o["lists"]}
            if not gone <= set(op["accs"]):
                fails.append(("evicted-account-not-selected", "evictto", si, sorted(gone)))
        if op["op"] in ("block", "putrace") or (op["op"] == "rmrace" and op.get("kind") != "twice"):
            bi = bids[si]
            if bi[3] != "same":
                cur = [list(x) for x in op["state"]]
            full = bi[3] in ("next", "same", "fork")
            for l in o["lists"]:
                a = l["acc"]
                if a < 0 or not (full or a in op["dirty"]):
                    continue
                for i in l["txs"]:
                    if i >= 0 and case["txs"][i]["nonce"] <= cur[a][0]:
                        fails.append(("stale-after-notification", op["op"] + ":" + bi[3], si,
                                      {"acc": a, "state_nonce": cur[a][0], "tx": case["txs"][i]}))
                if l["base"] != cur[a][0]:
                    fails.append(("base-not-refreshed", op["op"] + ":" + bi[3], si, {"acc": a, "base": l["base"], "state": cur[a]}))
    return fails


# ------------------------------------------------------------------------- list level
def gen_list_case(rng):
    base = [rng.choice([0, 1, 3, 7]), rng.choice([100, 100, 40])]
    ops, nid, curb = [], 0, base[0]
    held = []
    for _ in range(rng.randrange(5, 30)):
        r = rng.random()
        if r < 0.6:
            nid += 1
            n = max(0, curb + rng.choice([-2, -1, 0, 0, 1, 1, 1, 2, 2, 3, 3, 4, 5, 7]))
            ops.append({"op": "put", "id": nid, "nonce": n, "amount": rng.choice([1, 1, 5, 30, 60, 120])})
            held.append(nid)
        elif r < 0.72:
            ops.append({"op": "remove", "id": rng.choice(held) if held and rng.random() < 0.8 else 9000 + nid, "nonce": 1, "amount": 1})
        elif r < 0.88:
            curb = max(0, curb + rng.choice([-2, -1, 0, 0, 1, 1, 2, 3]))
            ops.append({"op": "filter", "nonce": curb, "bal": rng.choice([100, 100, 50, 10, 1000])})
        else:
            ops.append({"op": "get"})
    return {"base": base, "ops": ops}


def coq_list_case(c, obs):
    steps = []
    for op, o in zip(c["ops"], obs):
        if op["op"] == "put":
            e = "LPut (mkTx %d 0 0 %d %d%%Z)" % (op["id"], op["nonce"], op["amount"])
        elif op["op"] == "remove":
            e = "LRemove %d" % op["id"]
        elif op["op"] == "filter":
            e = "LFilter (mkSt %d %d%%Z)" % (op["nonce"], op["bal"])
        else:
            e = "LGet"
        steps.append("(%s,(%d,%s,%d,%d%%nat,%s,%s,%s))" % (e, RES.get(o["res"], 99), vf.coq_Z(o["diff"]) + "%Z", o["base"], o["ready"],
                                                            lN(o["txs"]), lN(o["removed"]), lN(o["got"])))
    return "(mkSt %d %d%%Z,[%s])" % (c["base"][0], c["base"][1], ";\n ".join(steps))


def list_predicate(c, obs):
    bad = []
    for si, (op, o) in enumerate(zip(c["ops"], obs)):
        ns = o["nonces"]
        if any(x >= y for x, y in zip(ns, ns[1:])):
            bad.append(("list:not-strictly-sorted", si, o))
        if ns and ns[0] <= o["base"]:
            bad.append(("list:nonce-not-above-base", si, o))
        r = 0
        while r < len(ns) and ns[r] == o["base"] + r + 1:
            r += 1
        if r != o["ready"]:
            bad.append(("list:ready-not-maximal-gapfree-prefix", si, o))
        if op["op"] == "get" and o["got"] != o["txs"][:o["ready"]]:
            bad.append(("list:get-not-ready-prefix", si, o))
    return bad


def run_list_engine(ctx, binp, cases):
    fin = os.path.join(ctx.workdir, "list.in")
    fout = os.path.join(ctx.workdir, "list.out")
    with open(fin, "w") as f:
        for c in cases:
            f.write(json.dumps(c) + "\n")
    rc, log = ctx.run_bin(binp, ["-test.run", "TestVerifC13List"], env={"VERIF_IN": fin, "VERIF_OUT": fout}, timeout=600)
    if rc != 0:
        raise RuntimeError("txList engine failed:\n" + log[-3000:])
    obs = [json.loads(l) for l in open(fout)]
    if len(obs) != len(cases):
        raise RuntimeError("txList engine: %d observations for %d cases" % (len(obs), len(cases)))
    return obs


def eval_list_cases(ctx, cases, obs):
    res = []
    shard = 400
    for s0 in range(0, len(cases), shard):
        items = [coq_list_case(c, o) for c, o in zip(cases[s0:s0 + shard], obs[s0:s0 + shard])]
        txt = ["From Coq Require Import ZArith NArith List Bool.",
               "From Verif Require Import Mempool.Model Mempool.Eval.", "Import ListNotations.", "Open Scope N_scope.",
               "Definition cases : list lcase := [%s]." % ";\n".join(items),
               "Definition M := Eval vm_compute in map lcase_bad_step cases.", "Print M."]
        rc, out = ctx.coq_eval("list_%d" % (s0 // shard), "\n".join(txt))
        flat = " ".join(out.split())
        m = re.search(r"M = (\[[^\]]*\]|nil)", flat)
        if rc != 0 or not m:
            return None, out
        body = m.group(1)
        vals = [] if body in ("nil", "[]") else [int(x) for x in re.findall(r"\d+", body)]
        if len(vals) != len(items):
            return None, out
        res += vals
    return res, ""


# --------------------------------------------------------------------------------- run
def run_engine(ctx, binp, cases, tag):
    fin = os.path.join(ctx.workdir, tag + ".in")
    fout = os.path.join(ctx.workdir, tag + ".out")
    with open(fin, "w") as f:
        for c in cases:
            f.write(json.dumps({k: v for k, v in c.items() if not k.startswith("_")}) + "\n")
    rc, log = ctx.run_bin(binp, ["-test.run", "TestVerifC13Engine", "-test.timeout", "25m"], env={"VERIF_IN": fin, "VERIF_OUT": fout},
                          timeout=1600)
    if rc != 0:
        raise RuntimeError("mempool engine failed:\n" + log[-3000:])
    obs = [json.loads(l) for l in open(fout)]
    if obs and obs[-1][-1]["res"] == "hang":
        return obs          # the engine stopped at a case whose goroutines never returned
    if len(obs) != len(cases):
        raise RuntimeError("mempool engine: %d observations for %d cases" % (len(obs), len(cases)))
    return obs


def eval_cases(ctx, cases, obs, name):
    """-> list of bad-step numbers (0 = agrees) or None."""
    res = []
    shard = 250
    for s in range(0, len(cases), shard):
        items = [coq_case(c, o) for c, o in zip(cases[s:s + shard], obs[s:s + shard])]
        txt = ["From Coq Require Import ZArith NArith List Bool.",
               "From Verif Require Import Mempool.Model Mempool.Eval.", "Import ListNotations.", "Open Scope N_scope.",
               "Definition cases : list ecase := [%s]." % ";\n".join(items),
               "Definition M := Eval vm_compute in map case_bad_step cases.", "Print M."]
        rc, out = ctx.coq_eval("%s_%d" % (name, s // shard), "\n".join(txt))
        if rc != 0:
            return None, out
        flat = " ".join(out.split())
        m = re.search(r"M = (\[[^\]]*\]|nil)", flat)
        if not m:
            return None, out
        body = m.group(1)
        vals = [] if body in ("nil", "[]") else [int(x) for x in re.findall(r"\d+", body)]
        if len(vals) != len(items):
            return None, out
        res += vals
    return res, ""


def gen_locks(ctx, repo=None):
    """Translator: go/ast over <repo>/mempool -> coq/Gen/Locks.v."""
    src = os.path.join(ctx.verif, "gen", "gen_locks.go")
    if not os.path.exists(src):
        return None
    outp = os.path.join(ctx.verif, "coq", "Gen", "Locks.v")
    tmp = os.path.join(ctx.workdir, "Locks.v")
    rc, log = vf.sh(["go", "run", src, os.path.join(repo or ctx.repo, "mempool"), tmp], cwd=os.path.join(ctx.verif, "gen"),
                    env=ctx.goenv(), timeout=300)
    if rc != 0:
        raise RuntimeError("gen_locks failed:\n" + log[-2000:])
    with vf.Lock("coq"):
        vf.write_if_changed(outp, open(tmp).read())
    return log


def run(ctx):
    quick = ctx.tier == "quick"
    rng = ctx.rng
    lock_log = gen_locks(ctx)
    pr = ctx.prove()
    try:
        locks_txt = open(os.path.join(ctx.verif, "coq", "Gen", "Locks.v")).read()
    except OSError:
        locks_txt = ""
    # coq/Gen/Locks.v is shared by everybody building coq/: after proving against another tree
    # (mutant / proposed fix) put the translation of the default tree back at once
    if os.path.realpath(ctx.repo) != "/repo" and os.path.isdir("/repo/mempool"):
        try:
            gen_locks(ctx, "/repo")
        except RuntimeError:
            pass
    ctx.cov["trusted_base"] = ["Coq 8.16.1 kernel + vm_compute", "Go toolchain", "overlay build of package mempool (VM stub unused)",
                               "engine harness/engines/mempool (real MemPool, real in-memory ChainStateDB)",
                               "case generator and direct predicate in checks/C13.py", "gen/gen_locks.go (go/ast lock analysis)"]
    ctx.assumptions = ["sync.RWMutex provides mutual exclusion; the sections under mp.Lock are atomic steps",
                       "the transaction hash determines (owner account, nonce) for all submitted transactions (no collision)",
                       "nonces < 2^64-1, counters within int range",
                       "zero fee configuration: validation cost of a TRANSFER = amount",
                       "removeTx / resetAll as in /repo (F11, F26 fixed)"]
    rc, log, binp = ctx.go_test_binary("mempool", [os.path.join(vf.HARNESS, "engines/mempool/zz_verif_c13_engine_test.go")],
                                       "mempool_c13.test")
    if rc != 0:
        raise RuntimeError("mempool engine build failed:\n" + log[-3000:])

    cases = corpus_cases(ctx)
    ncorpus = len(cases)
    nrand = 130 if quick else 6000
    for i in range(nrand):
        cases.append(gen_case(rng, "m" if (quick or i % 4) else "l"))
    # eviction passes interrupted by the work timeout (the pass outlasts the timeout on a large backlog)
    cases.append(big_evict_case(rng, 4, 1500 if quick else 20000, 40000 if quick else 4000000, 5))
    if not quick:
        cases.append(big_evict_case(rng, 6, 3000, 100000, 8))
    obs = run_engine(ctx, binp, cases, "seq")

    # ---- direct predicate on the implementation
    pred_fail = []
    for ci, (c, o) in enumerate(zip(cases, obs)):
        for name, opk, si, det in step_predicates(c, o):
            pred_fail.append((name, opk, ci, si, det))
    # ---- correspondence
    midx = [i for i, c in enumerate(cases) if not c.get("_nomodel")]
    mbad, out = eval_cases(ctx, [cases[i] for i in midx], [obs[i] for i in midx], "seq")
    bad = None
    if mbad is not None:
        bad = [0] * len(cases)
        for i, b in zip(midx, mbad):
            bad[i] = b
    corr_broken = None
    if bad is None:
        corr_broken = ("pool correspondence could not be evaluated", out[-2000:])
    else:
        diffs = [(ci, b - 1) for ci, b in enumerate(bad) if b]
        if diffs:
            ci, si = min(diffs, key=lambda x: (len(cases[x[0]]["ops"]), x[1]))
            c = cases[ci]
            corr_broken = ("model/implementation differ after operation %d (%s) of a %d-operation case; %d differing cases" % (
                si, c["ops"][si]["op"], len(c["ops"]), len(diffs)),
                {"case": {k: v for k, v in c.items()}, "step": si, "op": c["ops"][si], "impl_after": obs[ci][si + 1],
                 "impl_before": obs[ci][si]})
    nsteps = sum(len(c["ops"]) for c in cases)

    # ---- list level: a real txList driven directly (nonces at, below and above the base)
    lcases = [gen_list_case(rng) for _ in range(150 if quick else 4000)]
    lobs = run_list_engine(ctx, binp, lcases)
    for ci, (c, o) in enumerate(zip(lcases, lobs)):
        for name, si, det in list_predicate(c, o):
            pred_fail.append((name, "txlist", -1 - ci, si, det))
    lbad, lout = eval_list_cases(ctx, lcases, lobs)
    if lbad is None:
        corr_broken = corr_broken or ("txList correspondence could not be evaluated", lout[-2000:])
    else:
        ld = [(ci, b - 1) for ci, b in enumerate(lbad) if b]
        if ld and not corr_broken:
            ci, si = min(ld, key=lambda x: (x[1], len(lcases[x[0]]["ops"])))
            corr_broken = ("txList model/implementation differ at operation %d (%d differing cases)" % (si, len(ld)),
                           {"case": lcases[ci], "step": si, "impl": lobs[ci][si]})
    nsteps += sum(len(c["ops"]) for c in lcases)
    ctx.cov["list_level_cases"] = len(lcases)

    # ---- concurrent runs (support for the atomicity assumption)
    conc_fail = []
    nconc = 4 if quick else 120
    ccases = []
    for _ in range(nconc):
        base = gen_case(rng, "l", named_p=0.2)
        nthreads = 8 if quick else 32
        threads = [[] for _ in range(nthreads)]
        for j, op in enumerate(base["ops"] * (1 if quick else 3)):
            if op["op"] in ("block", "evict"):
                threads[0].append(op)       # the actor / monitor goroutine
            else:
                threads[1 + rng.randrange(nthreads - 1)].append(op)
        cc = dict(base)
        cc["ops"] = []
        cc["threads"] = threads
        ccases.append(cc)
    cobs = run_engine(ctx, binp, ccases, "conc")
    for ci, (c, o) in enumerate(zip(ccases, cobs)):
        if o[-1]["res"] == "hang":
            stack = (o[-1].get("extra") or [""])[0]
            blocked = [l for l in stack.split("\n") if "mempool.(*MemPool)" in l or "sync.(*Map)" in l][:12]
            conc_fail.append(("goroutines-never-return", "concurrent", ci, 0, {"blocked_in": blocked}))
            break
        for name, det in pool_predicate(c, o[-1], "concurrent"):
            conc_fail.append((name, "concurrent", ci, 0, det))

    ctx.cov["evaluations"] = nsteps + len(ccases)
    ctx.cov["traces_validated_against_impl"] = len(cases)
    kinds = {}
    shapes = set()
    for c, o in zip(cases, obs):
        for op, ob in zip(c["ops"], o[1:]):
            key = op["op"] + (":" + op["kind"] if op["op"] in ("block", "putrace", "rmrace") else "") + "/" + ob["res"]
            kinds[key] = kinds.get(key, 0) + 1
            shapes.add((key, len(ob["lists"]), ob["orphan"] > 0, ob["len"]))
    ctx.cov["distinct_nontrivial"] = len(shapes)
    ctx.cov["rule"] = ("one evaluation = one pool operation whose complete resulting pool state (lists, bases, ready counts, cache, "
                       "counters, result) was compared with the model; distinct = distinct (operation kind/result, number of lists, "
                       "orphans present, pool length) classes")
    ctx.cov["input_distribution"] = {"cases": len(cases), "corpus_cases": ncorpus, "operations": nsteps, "op_result_kinds": kinds,
                                     "concurrent_cases": len(ccases),
                                     "named_sender_cases": sum(1 for c in cases if any(c["named"]))}
    if lock_log:
        ctx.cov["lock_analysis"] = lock_log.strip().split("\n")[-12:]
    if cases:
        ctx.sample({"case": {k: v for k, v in cases[0].items() if k != "ops"}, "ops": cases[0]["ops"][:6], "obs_after_first": obs[0][1]})

    # ---- lock analysis rows that are not exclusive
    lock_rows = []
    for m in re.finditer(r'\("([^"]+)", "([^"]+)", (\w+)\)', locks_txt):
        lock_rows.append(m.groups())
    ctx.cov["lock_rows"] = len(lock_rows)
    weak = [r for r in lock_rows if r[2] != "Excl"]
    created = None      # getUnconfirmed seen creating a list on the real pool
    for c, o in zip(cases, obs):
        for si, op in enumerate(c["ops"]):
            if op["op"] == "unconf" and len(o[si + 1]["lists"]) > len(o[si]["lists"]):
                created = {"case": c, "step": si, "before": o[si]["lists"], "after": o[si + 1]["lists"]}
                break
        if created:
            break
    if ("acquireMemPoolList", "mp.pool", "RLockOnly") in weak and created:
        ctx.finding("C13:pool-write-under-read-lock:getUnconfirmed",
                    "getUnconfirmed inserts a list into mp.pool while holding only the read lock",
                    {"lock_analysis_row": ["acquireMemPoolList", "mp.pool", "RLockOnly"], "observed": created})

    # ---- decide
    allfail = pred_fail + conc_fail
    reported = set()
    for name, opk, ci, si, det in allfail:
        key = "C13:%s:%s" % (name, opk)
        if key in reported:
            continue
        reported.add(key)
        src = ccases if opk == "concurrent" else cases
        c = lcases[-1 - ci] if opk == "txlist" else src[ci]
        ctx.finding(key, "pool invariant '%s' fails on the real pool after a %s operation" % (name, opk),
                    {"case": c, "step": si, "detail": det,
                     "ops_prefix": (c.get("ops") or [])[:si + 1]})
        if len(reported) >= 4:
            break
    if not pr["ok"] and not allfail:
        ctx.violation("proof obligation no longer checks: %s" % pr["broken"],
                      {"theorem_or_file": pr["broken"], "log": pr["log"][-3000:]}, no_input=True)
    if corr_broken and not allfail:
        ctx.violation("correspondence broken: " + corr_broken[0], {"correspondence": corr_broken[0], "detail": corr_broken[1]},
                      no_input=True)

"""C14 Admission totality.
Proof: coq/Properties/C14.v over coq/AdmitTotal (validators + governance execution with explicit
Panic outcomes).  Ties: (1) gen/gen_panicsites regenerates coq/Gen/PanicSites.v from ctx.repo and
the inclusion in the model's site list is a proof obligation; (2) the engine runs the real
validators and the real block executor under recover() and the model is evaluated (vm_compute)
on the same decoded inputs and stored records."""
import base64
import json
import os
import random
import re
import vf

META = {
    "text": "17 theorems (Coq, no axioms).  FULL: Tx.Validate, the stateful validators and the governance dispatch never panic for "
            "any payload / string oracle (C14_tx_validate_total, C14_validate_total); an admitted tx executes without panic "
            "(C14_admitted_executes, C14_exec_total); enterprise state well-formedness / conf round trip preserved; storage and "
            "key invariants preserved by every executed governance tx, hence validation and execution are total on EVERY state "
            "reachable from genesis (C14_reachable_*; PARTIAL only in the hypotheses of note); executeTx's dispatch covers every "
            "admitted type; every pool function releases each mutex on every exit (C14_pool_locks_released).  The model is HEAD (fixes F3, F4, F15, F24, F28, F29 included); nothing REFUTED, no open "
            "finding.  Tie, every run: gen_panicsites regenerates the panic-site inventory and dispatch case lists (C14_sites_covered, "
            "C14_dispatch_complete); gen_panicsites_locks translates the lock paths of mempool/*.go (C14_pool_lock_paths_checked, "
            "offending return printed as a path); engine 1 (package chain) runs the real "
            "Validate / stateful validators / executeTx under recover() on ~920 signed txs (tx type x network x fork, life "
            "cycles, envelope bounds, raw bytes); outcome classes, enterprise post-states and every staking / vote record "
            "written are compared with the model by vm_compute; engine 2 runs the real mempool.verifyTx / validateTx on the same "
            "cases; engine 3 runs sequences on one real pool (19 rejection classes, then put / get / block / list / remove), 3 s "
            "watchdog per operation; a representative subset is re-run at log level debug.  Direct predicates: no panic, no hang, "
            "expected accept / specific rejection, same outcome at every log level.",
    "note": "Trusted: Coq kernel + vm_compute (no axioms); Go toolchain, overlay build with a VM stub that always succeeds; "
            "encoding/json (the model starts from the decoded CallInfo); string functions as oracles (DecodeAddress, base58 + "
            "IDFromBytes, SetString, ToUpper, ParseListEntry, RPC permission split, json round trip of a one-element list), their "
            "observed values checked each run; gen_panicsites / gen_panicsites_locks (go/parser, no types, name-based reachability; "
            "lock translation skips calls, so a callee panicking under a non-deferred lock is not an exit) and the reviewed site "
            "list AdmitTotal/Sites.v; the error-text classifier and the case generator.  Hypotheses of the reachable-state "
            "theorems: records < 2^32 bytes, amounts < 2^304 (supply bound, C01), genesis BP ids are 39-byte peer ids.  Modelled "
            "or engine-only, not verified: vprt.go voting-power rank, balances / fees, DB errors, receipts, contract execution, "
            "evictTransactions timing, actor message handlers; lock order / double acquisition belong to C13.",
    "technique": "Coq totality / invariant proofs over a Panic-explicit model + generated site, dispatch and lock-path obligations + vm_compute correspondence against three engines",
}

GOV, NORMAL, REDEPLOY, FEEDELEG, TRANSFER, CALL, DEPLOY, MULTICALL = 1, 0, 2, 3, 4, 5, 6, 7
TYNAME = {0: "TNormal", 1: "TGov", 2: "TRedeploy", 3: "TFeeDeleg", 4: "TTransfer", 5: "TCall", 6: "TDeploy", 7: "TMulticall"}
AERGO = 10 ** 18
MAXAER = 500000000 * AERGO
B58 = "123456789ABCDEFGHJKLMNPQRSTUVWXYZabcdefghijkmnopqrstuvwxyz"

ERR_CLASSES = [
    (r"^tx invalid format$", "ETxFormat"), (r"^tx invalid chain id hash$", "EChainId"), (r"^size of tx exceeds", "ESize"),
    (r"^tx has invalid hash$", "EHash"), (r"^tx invalid amount$", "EAmount"), (r"^tx invalid price$", "EPrice"),
    (r"^tx invalid account$", "EAccount"), (r"^tx invalid recipient$", "ERecipient"), (r"^tx invalid type$", "EType"),
    (r"^tx only supported in private$", "EPrivOnly"), (r"^tx invalid payload$", "EInvalidPayload"),
    (r"^the number of args less then 1$", "EArgsLess1"), (r"^the number of args less then 2$", "EArgsLess2"),
    (r"^invalid arguments in payload for ChangeCluster", "ECC"), (r"^invalid arguments in payload for", "EEntArgs"), (r"^invalid arguments\[0\]", "EEntArg0"),
    (r"^invalid arguments in ", "ENameArgs"), (r"^too long name", "ENameTooLong"), (r"^not supported yet$", "ENameNotSupported"),
    (r"^not allowed character", "ENameChar"), (r"^invalid receiver in", "ENameReceiver"), (r"^invalid new owner", "ENameOwner"),
    (r"^not enough balance$", "EInsufficient"), (r"^less time has passed$", "ELessTime"), (r"^too small amount", "ETooSmall"),
    (r"^must stake before vote$", "EMustStakeVote"), (r"^must stake before unstake$", "EMustStakeUnstake"),
    (r"^request amount exceeds$", "EExceed"), (r"^not supported operation$", "ENotSupportedOp"),
    (r"^args\[0\] invalid id$", "EInvalidId"), (r"^too many candidates", "ETooManyCand"),
    (r"^include invalid character$", "ECandChar"), (r"^include invalid number$", "ECandNumber"),
    (r"^include invalid number range$", "ECandRange"),
    (r"^aleady occupied", "EOccupied"), (r"^owner not matched", "EOwnerNotMatched"), (r"^owner aleady set", "EOwnerSet"),
    (r"^could not execute unknown cmd$", "EUnknownCmd"), (r"is not created yet$", "ENotCreated"),
    (r"^already exist admin", "EAdminExist"), (r"^admins is not exist", "EAdminNotExist"),
    (r"^admin is in the account whitelist", "EAdminInWhite"), (r"^admin is not set$", "EAdminNotSet"),
    (r"^admin address not matched$", "EAdminNotMatched"), (r"^could not get admin", "EAdminGet"),
    (r"^not allowed key", "ENotAllowedKey"), (r"^not string in payload", "ENotString"),
    (r"^not allowed charactor", "EBackslash"), (r"^the request has duplicate arguments", "EDup"),
    (r"^invalid p2p whitelist", "EP2P"), (r"^invalid account ", "EAccountWhite"), (r"^invalid RPC permission", "ERpc"),
    (r"^invalid RPC cert", "ERpcCert"), (r"^already included config value", "EConfExist"), (r"^value not exist", "EConfNotExist"),
    (r"should have at least one write permission$", "EConfWritePerm"), (r"should have at least one admin address$", "EConfAdminAddr"),
    (r"^not bool in payload", "ENotBool"), (r"^Not supported Enterprise Tx$", "ENotSupportedMethod"),
    (r"^invalid ChangeCluster argument", "ECC"), (r"^invalid argument in payload for ChangeCluster", "ECC"),
    (r"^unsupported call ", "EUnsupportedCall"), (r"already included in the block$", "ECCAlready"),
]
JSON_ERR = re.compile(r"^(json: |invalid character|unexpected end of JSON)")


def b58(b):
    n = int.from_bytes(b, "big")
    s = ""
    while n > 0:
        n, r = divmod(n, 58)
        s = B58[r] + s
    z = 0
    for x in b:
        if x == 0:
            z += 1
        else:
            break
    return "1" * z + s


def peer_id(rng, length=39):
    """a libp2p peer id of `length` bytes: identity multihash 0x00 <len> <digest>"""
    return b58(bytes([0, length - 2]) + bytes(rng.randrange(1, 256) for _ in range(length - 2)))


def classify(msg, stage):
    if msg == "OK" or msg.startswith("OK SUCCESS"):
        return "COk"
    if msg == "SKIP":
        return "CSkip"
    if msg.startswith("PANIC"):
        return "CPanic"
    if msg.startswith("OK ERROR "):
        m = msg[len("OK ERROR "):]
    elif msg.startswith("OK "):   # other receipt status
        return "COther"
    else:
        m = msg[len("ERR: "):]
    for rx, cl in ERR_CLASSES:
        if re.search(rx, m):
            return "CErr " + cl
    if JSON_ERR.search(m):
        return "CErr EJson"
    return "COther" if stage == "exec" else "CErr EUnknown_" + re.sub(r"\W+", "_", m)[:40]


# --------------------------------------------------------------------------- generation
def mk(g, rcpt, payload, amt=0, snd=0, ty=GOV, fork=3, **kw):
    if isinstance(payload, (dict, list)) or payload is None:
        payload = json.dumps(payload)
    if isinstance(payload, str):
        payload = payload.encode()
    kw = {k: v for k, v in kw.items() if v is not None}
    d = {"g": g, "rcpt": rcpt, "p": base64.b64encode(payload).decode(), "amt": str(amt), "snd": snd, "ty": ty, "fork": fork}
    d.update(kw)
    return d


def ci(name, args, nk="Name", ak="Args"):
    return {nk: name, ak: args}


def wrong_values(rng):
    deep = "x"
    for _ in range(rng.randrange(1, 30)):
        deep = [deep]
    return [None, True, False, 0, 1, -1, 1.5, 2 ** 70, 1e300, "", "x", "aergo.system", "aergo.name", "aergo.enterprise", "@A1",
            "abcdefghijkl", "ABCDEFGHIJKL", "abc", "a.b", "K" * 4, "ſ" * 6, "\\", "a\\b", "1", "0", "-5", "13", "101",
            str(MAXAER + 1), "1e5", " 7", [], ["x"], {}, {"command": "add"}, deep, "bpcount", "BPCOUNT", "GAſPRICE",
            "rpcpermissions", "dGVzdA==:RW", "dGVzdA==:R", "x:y:z", ":", "!!:W", "accountwhite", "p2pwhite",
            '{"peerid":"16Uiu2HAmPZE7gT1hF2bjpg1UVH65xyNUbBVRf3mBFBJpz3tgLGGt","address":"","cidr":""}', '{"address":"1.2.3.4"}']


SYS_SETUP = lambda g: [mk(g, "aergo.system", ci("v1stake", []), amt=10000 * AERGO)]
ENT_SETUP = lambda g: [mk(g, "aergo.enterprise", {"name": "appendAdmin", "args": ["@A0"]})]
NAME_SETUP = lambda g: [mk(g, "aergo.name", ci("v1createName", ["abcdefghijkl"]), amt=AERGO)]


def right_shapes(rng):
    """well-formed governance commands (recipient, callinfo, amount)"""
    p = [peer_id(rng) for _ in range(3)]
    return [
        ("aergo.system", ci("v1stake", []), 10000 * AERGO), ("aergo.system", ci("v1unstake", []), AERGO),
        ("aergo.system", ci("v1voteBP", p[:2]), 0), ("aergo.system", ci("v1voteBP", []), 0),
        ("aergo.system", ci("v1voteDAO", ["BPCOUNT", "13"]), 0), ("aergo.system", ci("v1voteDAO", ["namePrice", "1000"]), 0),
        ("aergo.system", ci("v1voteDAO", ["STAKINGMIN", str(AERGO)]), 0),
        ("aergo.name", ci("v1createName", ["abcdefghijkl"]), AERGO), ("aergo.name", ci("v1updateName", ["abcdefghijkl", "@A1"]), AERGO),
        ("aergo.name", ci("v1setOwner", ["@A2"]), 0),
        ("aergo.enterprise", ci("appendAdmin", ["@A1"], "name", "args"), 0), ("aergo.enterprise", ci("removeAdmin", ["@A0"], "name", "args"), 0),
        ("aergo.enterprise", ci("setConf", ["rpcpermissions", "dGVzdA==:RW", "dGVzdDI=:R"], "name", "args"), 0),
        ("aergo.enterprise", ci("appendConf", ["rpcpermissions", "dGVzdDM=:W"], "name", "args"), 0),
        ("aergo.enterprise", ci("removeConf", ["rpcpermissions", "dGVzdA==:RW"], "name", "args"), 0),
        ("aergo.enterprise", ci("enableConf", ["rpcpermissions", True], "name", "args"), 0),
        ("aergo.enterprise", ci("enableConf", ["accountwhite", True], "name", "args"), 0),
        ("aergo.enterprise", ci("setConf", ["accountwhite", "@A0", "@A3"], "name", "args"), 0),
        ("aergo.enterprise", ci("appendConf", ["p2pwhite", '{"address":"1.2.3.4"}'], "name", "args"), 0),
        ("aergo.enterprise", ci("changeCluster", [{"command": "remove", "id": "ff"}], "name", "args"), 0),
        ("aergo.enterprise", ci("changeCluster", [{"command": "add", "name": "n", "address": "/ip4/1.2.3.4/tcp/7846",
                                                   "peerid": "16Uiu2HAmPZE7gT1hF2bjpg1UVH65xyNUbBVRf3mBFBJpz3tgLGGt"}], "name", "args"), 0),
    ]


def mutate(rng, c):
    """one structural mutation of a callinfo dict"""
    c = json.loads(json.dumps(c))
    nk = [k for k in c if k.lower() == "name"][0]
    ak = [k for k in c if k.lower() == "args"][0]
    args = c[ak]
    if not isinstance(args, list):
        return c
    w = wrong_values(rng)
    k = rng.randrange(12)
    if k == 0 and args:
        args[rng.randrange(len(args))] = rng.choice(w)          # wrong type / value
    elif k == 1 and args:
        del args[rng.randrange(len(args)):]                      # missing
    elif k == 2:
        args.append(rng.choice(w))                               # extra
    elif k == 3:
        c[ak] = rng.choice([None, {}, "x", 1, True])             # Args not an array
    elif k == 4:
        c[nk] = rng.choice([None, 1, "", "v1unknown", "V1STAKE", "v1voteBP", "v1voteDAO", "v1stake", "v1updateName",
                            "v1setOwner", "v1createName", "appendAdmin", "setConf", "enableConf", "removeConf", "changeCluster"])
    elif k == 5 and args:
        args.insert(0, rng.choice(w))                            # shifted
    elif k == 6 and args:
        args.append(args[0])                                     # duplicate
    elif k == 7:
        c[ak] = [rng.choice(w) for _ in range(rng.randrange(0, 4))]
    elif k == 8 and args and isinstance(args[0], dict):
        d = args[0]
        kk = rng.choice(list(d) + ["command"])
        d[kk] = rng.choice(w)
    elif k == 9:
        c[ak] = [peer_id(rng, rng.choice([2, 8, 32, 33, 34, 38, 39, 40, 64])) for _ in range(rng.randrange(1, 4))]
    elif k == 10:
        c[ak] = [peer_id(rng) for _ in range(rng.choice([29, 30, 31, 32]))]
    else:
        c[rng.choice(["Name", "name", "NAME", "nAmE"])] = c.pop(nk)
    return c


def gen_cases(ctx, extra_bias=None):
    rng = ctx.rng
    quick = ctx.tier == "quick"
    cases = []
    g = [0]

    def newg():
        g[0] += 1
        return g[0]

    # corpus first (hand-written / minimised)
    cdir = os.path.join(ctx.verif, "corpus", "C14")
    if os.path.isdir(cdir):
        for f in sorted(os.listdir(cdir)):
            if f.endswith(".json"):
                for seq in json.load(open(os.path.join(cdir, f)))["sequences"]:
                    gi = newg()
                    for st in seq:
                        kw = {k: v for k, v in st.items() if k not in ("rcpt", "payload", "amt")}
                        cases.append(mk(gi, st["rcpt"], st["payload"], amt=st.get("amt", 0), **kw))
    ncorpus = len(cases)
    setups = {"aergo.system": SYS_SETUP, "aergo.name": NAME_SETUP, "aergo.enterprise": ENT_SETUP}
    # staking / voting life cycles over several blocks: re-votes (SubVote old + AddVote new), partial and
    # full unstake (refreshAllVote over every issue), two voters sharing candidates
    for _ in range(3 if quick else 120):
        gi = newg()
        ps = [peer_id(rng) for _ in range(4)]
        fork = rng.choice([2, 3])
        sysc = lambda c, **kw: mk(gi, "aergo.system", c, fork=fork, **kw)
        cases.append(sysc(ci("v1stake", []), amt=15000 * AERGO, bno=1))
        cases.append(sysc(ci("v1stake", []), amt=12000 * AERGO, snd=1, bno=1))
        cases.append(sysc(ci("v1voteBP", ps[:2]), bno=2))
        cases.append(sysc(ci("v1voteBP", ps[1:3]), snd=1, bno=2))
        cases.append(sysc(ci("v1voteDAO", ["BPCOUNT", "13"]), bno=3))
        cases.append(sysc(ci("v1voteDAO", ["bpcount", rng.choice(["13", "14"])]), snd=1, bno=3))
        cases.append(sysc(ci("v1voteDAO", ["GASPRICE", "7"]), bno=3))
        cases.append(sysc(ci("v1voteBP", ps[2:4]), bno=100000))
        cases.append(sysc(ci("v1voteDAO", ["BPCOUNT", "15"]), bno=100001))
        cases.append(sysc(ci("v1voteBP", []), snd=1, bno=100002))
        cases.append(sysc(ci("v1unstake", []), amt=rng.choice([5000, 1, 4999]) * AERGO, bno=200000))
        cases.append(sysc(ci("v1stake", []), amt=1 * AERGO, snd=1, bno=200001))
        cases.append(sysc(ci("v1unstake", []), amt=10000 * AERGO, bno=300000))
        cases.append(sysc(ci("v1unstake", []), amt=13000 * AERGO, snd=1, bno=300001))
        cases.append(sysc(ci("v1voteBP", ps[:1]), bno=400000))
    # the consensus kind (dpos / raft / sbp) as a dimension of admission and execution: changeCluster is refused unless
    # raft; the dpos and sbp executors have a nil cluster handle
    cc_add = {"command": "add", "name": "n", "address": "/ip4/1.2.3.4/tcp/7846", "peerid": "16Uiu2HAmPZE7gT1hF2bjpg1UVH65xyNUbBVRf3mBFBJpz3tgLGGt"}
    for cons in ("dpos", "raft", "sbp"):
        for ccarg in (cc_add, {"command": "remove", "id": "ff"}, {"command": "add"}, "x"):
            gi = newg()
            ent = lambda c, **kw: mk(gi, "aergo.enterprise", c, cons=cons, **kw)
            cases.append(ent(ci("appendAdmin", ["@A0"], "name", "args")))
            cases.append(ent(ci("changeCluster", [ccarg], "name", "args")))
            cases.append(ent(ci("changeCluster", [ccarg], "name", "args"), snd=1))
            cases.append(ent(ci("setConf", ["rpcpermissions", "dGVzdA==:RW"], "name", "args")))
        gi = newg()
        cases.append(mk(gi, "aergo.system", ci("v1stake", []), amt=10000 * AERGO, cons=cons))
        cases.append(mk(gi, "aergo.name", ci("v1createName", ["abcdefghijkl"]), amt=AERGO, cons=cons))
        cases.append(mk(gi, "@A1", "", amt=5, ty=TRANSFER, cons=cons))
    # governance HISTORIES of one account: a voted value (or candidate) loses its last supporter by a full unstake and is
    # voted again after staking again -- the previous vote record then names a tally entry whose amount went to zero.
    # Deterministic shapes per parameter / for BP votes, then random histories over {stake, full / partial unstake,
    # voteDAO, voteBP} for two accounts with the staked amounts tracked (every step one delay period later).
    D = 100000
    for fork in ((3,) if quick else (2, 3)):
        for prm, v1, v2 in (("BPCOUNT", "13", "14"), ("GASPRICE", "7", "8"), ("NAMEPRICE", "1000", "2000"), ("STAKINGMIN", str(AERGO), str(2 * AERGO))):
            gi = newg()
            sysc = lambda c, **kw: mk(gi, "aergo.system", c, fork=fork, **kw)
            cases.append(sysc(ci("v1stake", []), amt=10000 * AERGO, bno=1))
            cases.append(sysc(ci("v1voteDAO", [prm, v1]), bno=2))
            cases.append(sysc(ci("v1unstake", []), amt=10000 * AERGO, bno=D))
            cases.append(sysc(ci("v1stake", []), amt=10000 * AERGO, bno=2 * D))
            cases.append(sysc(ci("v1voteDAO", [prm, v1]), bno=3 * D))
            cases.append(sysc(ci("v1voteDAO", [prm.lower(), v2]), bno=4 * D))
            cases.append(sysc(ci("v1unstake", []), amt=10000 * AERGO, bno=5 * D))
        gi = newg()
        ps = [peer_id(rng) for _ in range(3)]
        sysc = lambda c, **kw: mk(gi, "aergo.system", c, fork=fork, **kw)
        cases.append(sysc(ci("v1stake", []), amt=10000 * AERGO, bno=1))
        cases.append(sysc(ci("v1voteBP", ps[:2]), bno=2))
        cases.append(sysc(ci("v1unstake", []), amt=10000 * AERGO, bno=D))
        cases.append(sysc(ci("v1stake", []), amt=10000 * AERGO, bno=2 * D))
        cases.append(sysc(ci("v1voteBP", ps[:1]), bno=3 * D))
        cases.append(sysc(ci("v1voteBP", ps[1:]), bno=4 * D))
        cases.append(sysc(ci("v1unstake", []), amt=10000 * AERGO, bno=5 * D))
    for _ in range(6 if quick else 400):
        gi = newg()
        fork = rng.choice([2, 3])
        ps = [peer_id(rng) for _ in range(3)]
        staked = {0: 0, 1: 0}
        bno = 1
        for _k in range(rng.randint(6, 11)):
            snd = rng.choice([0, 0, 1])
            r = rng.random()
            if staked[snd] == 0 or r < 0.15:
                amt = rng.choice([10000, 20000]) * AERGO
                cases.append(mk(gi, "aergo.system", ci("v1stake", []), amt=amt, snd=snd, fork=fork, bno=bno))
                staked[snd] += amt
            elif r < 0.4:
                amt = staked[snd] if rng.random() < 0.7 else 1 * AERGO
                cases.append(mk(gi, "aergo.system", ci("v1unstake", []), amt=amt, snd=snd, fork=fork, bno=bno))
                staked[snd] -= amt
            elif r < 0.75:
                prm, vals = rng.choice([("BPCOUNT", ["13", "14"]), ("GASPRICE", ["7", "8"])])
                cases.append(mk(gi, "aergo.system", ci("v1voteDAO", [prm, rng.choice(vals)]), snd=snd, fork=fork, bno=bno))
            else:
                cases.append(mk(gi, "aergo.system", ci("v1voteBP", rng.sample(ps, rng.randint(1, 2))), snd=snd, fork=fork, bno=bno))
            bno += D
    # special account names (DecodeAddress accepts them), a registered 12-character name, the sender itself and the
    # contract accounts in EVERY address-typed argument position, each on a fresh state, through admission and execution
    special = ["aergo.name", "aergo.system", "aergo.enterprise", "aergo.vault", "abcdefghijkl", "@A0", "@A1"]
    for addr in special:
        for snd in ((0,) if quick else (0, 1)):
            gi = newg()                                  # name-contract owner still unset
            cases.append(mk(gi, "aergo.name", ci("v1setOwner", [addr]), snd=snd))
            cases.append(mk(gi, "aergo.name", ci("v1setOwner", ["@A2"]), snd=snd))
            cases.append(mk(gi, "aergo.name", ci("v1createName", ["mnopqrstuvwx"]), amt=AERGO, snd=snd))
        gi = newg()
        cases += NAME_SETUP(gi)
        cases.append(mk(gi, "aergo.name", ci("v1setOwner", [addr]), snd=1))
        cases.append(mk(gi, "aergo.name", ci("v1updateName", ["abcdefghijkl", addr]), amt=AERGO))
        cases.append(mk(gi, "aergo.name", ci("v1updateName", ["abcdefghijkl", "@A1"]), amt=AERGO))
        cases.append(mk(gi, "aergo.name", ci("v1createName", [addr if len(addr) == 12 else "abcdefghijkl"]), amt=AERGO, snd=1))
        gi = newg()
        cases += ENT_SETUP(gi)
        for cmd in ("appendAdmin", "removeAdmin"):
            cases.append(mk(gi, "aergo.enterprise", ci(cmd, [addr], "name", "args")))
        cases.append(mk(gi, "aergo.enterprise", ci("setConf", ["accountwhite", addr, "@A0"], "name", "args")))
        cases.append(mk(gi, "aergo.enterprise", ci("enableConf", ["accountwhite", True], "name", "args")))
        cases.append(mk(gi, "aergo.enterprise", ci("appendAdmin", ["@A1"], "name", "args")))
        gi = newg()
        cases += SYS_SETUP(gi)
        cases.append(mk(gi, "aergo.system", ci("v1voteBP", [addr]), bno=2))
        cases.append(mk(gi, "aergo.system", ci("v1voteBP", [addr, peer_id(rng)]), bno=3))
        cases.append(mk(gi, "aergo.system", ci("v1voteDAO", ["BPCOUNT", addr]), bno=4))
        for ty in ((TRANSFER, GOV) if quick else (TRANSFER, NORMAL, CALL, GOV, FEEDELEG)):
            gi = newg()                                  # as the recipient of every kind of transaction
            cases.append(mk(gi, addr, "" if ty != GOV else ci("v1stake", []), amt=5, ty=ty, pub=False))
    # enterprise conf values with the storage separator and other special characters, followed by the
    # transactions that load the stored conf again (enableConf, append/removeConf: Conf.Validate path)
    cert = "dGVzdAo="
    special = [cert + ":R\\x", cert + ":R\\", "\\" + cert + ":W", cert + ":R\\\\x", cert + ":R:W", cert + ":R,W", cert + ':"W"',
               cert + ":R\u0000", cert + ":\u00e9W", cert + ": W ", cert + ":", ":W", cert + ":R\nW", cert + ":R'W'", cert + ":R;x"]
    raw_special = ['{"name":"setConf","args":["rpcpermissions","%s:R\\u005cx","dGVzdDIK:W"]}' % cert,
                   '{"name":"appendConf","args":["rpcpermissions","%s:R\\u005c\\u005cx"]}' % cert,
                   '{"name":"setConf","args":["p2pwhite","{\\"address\\":\\"1.2.3.4\\",\\"cidr\\":\\"\\\\\\"}"]}']
    picks = special if not quick else special[:3] + rng.sample(special[3:], 2)
    for sp in picks:
        for cmdname in ("setConf", "appendConf"):
            gi = newg()
            ent = lambda c: mk(gi, "aergo.enterprise", c)
            cases += ENT_SETUP(gi)
            if cmdname == "setConf":
                cases.append(ent({"name": "setConf", "args": ["rpcpermissions", sp, "dGVzdDIK:W"]}))
            else:
                cases.append(ent({"name": "setConf", "args": ["rpcpermissions", "dGVzdDIK:R"]}))
                cases.append(ent({"name": "appendConf", "args": ["rpcpermissions", sp]}))
            cases.append(ent({"name": "enableConf", "args": ["rpcpermissions", True]}))
            cases.append(ent({"name": "appendConf", "args": ["rpcpermissions", "dGVzdDMK:RW"]}))
            cases.append(ent({"name": "enableConf", "args": ["rpcpermissions", True]}))
            cases.append(ent({"name": "removeConf", "args": ["rpcpermissions", sp]}))
            cases.append(ent({"name": "enableConf", "args": ["RpcPermissions", False]}))
    for rawp in raw_special:
        gi = newg()
        cases += ENT_SETUP(gi)
        cases.append(mk(gi, "aergo.enterprise", rawp))
        cases.append(mk(gi, "aergo.enterprise", {"name": "enableConf", "args": ["rpcpermissions", True]}))
        cases.append(mk(gi, "aergo.enterprise", {"name": "enableConf", "args": ["p2pwhite", True]}))
        cases.append(mk(gi, "aergo.enterprise", {"name": "appendConf", "args": ["rpcpermissions", "dGVzdDMK:RW"]}))
    # every right shape after its setup, on fork 1..3, by admin / staker and by a stranger
    for rcpt, c, amt in right_shapes(rng):
        for fork in ((rng.choice([1, 2, 3]),) if quick else (0, 1, 2, 3, 4)):
            for snd in (0, 2):
                gi = newg()
                cases += setups[rcpt](gi)
                cases.append(mk(gi, rcpt, c, amt=amt, snd=snd, fork=fork, raft=(c.get("name") == "changeCluster")))
                cases.append(mk(gi, rcpt, c, amt=amt, snd=snd, fork=fork, raft=(c.get("name") == "changeCluster")))
    # systematic single mutations of every right shape: each argument position x each wrong value
    rs = right_shapes(rng)
    wv = wrong_values(rng)
    for rcpt, c, amt in rs:
        ak = [k for k in c if k.lower() == "args"][0]
        n = len(c[ak])
        positions = list(range(n + 1))
        for pos in positions:
            vals = wv if not quick else rng.sample(wv, 2)
            gi = newg()
            cases += setups[rcpt](gi)
            for v in vals:
                c2 = json.loads(json.dumps(c))
                if pos < n:
                    c2[ak][pos] = v
                else:
                    c2[ak].append(v)
                cases.append(mk(gi, rcpt, c2, amt=amt, raft=(c.get("name") == "changeCluster")))
        for k in range(n + 1):      # truncations
            gi = newg()
            cases += setups[rcpt](gi)
            c2 = json.loads(json.dumps(c))
            c2[ak] = c2[ak][:k]
            cases.append(mk(gi, rcpt, c2, amt=amt, raft=(c.get("name") == "changeCluster")))
    # random sequences of mutated commands
    nseq = (15 if quick else 2500) * (3 if extra_bias else 1)
    for _ in range(nseq):
        gi = newg()
        rcpt = extra_bias if extra_bias and rng.random() < 0.8 else rng.choice(list(setups))
        if rng.random() < 0.8:
            cases += setups[rcpt](gi)
        if rcpt == "aergo.enterprise" and rng.random() < 0.5:
            cases.append(mk(gi, rcpt, {"name": "setConf", "args": ["rpcpermissions", "dGVzdA==:RW"]}))
            cases.append(mk(gi, rcpt, {"name": "enableConf", "args": ["rpcpermissions", True]}))
        for _ in range(rng.randrange(1, 5)):
            r2, c, amt = rng.choice([x for x in rs if x[0] == rcpt])
            for _ in range(rng.randrange(0, 3)):
                c = mutate(rng, c)
            cross = rng.choice(list(setups)) if rng.random() < 0.1 else rcpt   # command sent to another contract
            cases.append(mk(gi, cross, c, amt=rng.choice([amt, 0, 1, 30000 * AERGO]), snd=rng.choice([0, 0, 1, 2]),
                            fork=rng.choice([1, 2, 3]), raft=rng.random() < 0.3, pub=rng.random() < 0.1))
    # every transaction type value x public / private network x hardfork version x sender x recipient kind x payload x
    # amount: real admission, then the real executeTx with the stub VM (predicate: no panic)
    tys = list(range(-1, 10)) + [100, 2 ** 31 - 1]
    rcpts = ["@A1", "", "aergo.system", "aergo.name", "aergo.vault", "abcdefghijkl", "@A0"]
    pays = ["", "x", '{"Name":"f","Args":[]}']
    combos = [(ty, pub, fork, snd, rc, pl, amt) for ty in tys for pub in (False, True) for fork in (0, 1, 2, 3, 4)
              for snd in (0, 3) for rc in rcpts for pl in pays for amt in (0, 5)]
    if quick:
        base = [(ty, pub, rng.choice([0, 1, 2, 3, 4]), rng.choice([0, 3]), rc, rng.choice(pays), rng.choice([0, 5]))
                for ty in tys for pub in (False, True) for rc in ("@A1", "", "aergo.system")]
        combos = base + rng.sample(combos, 40)
    for ty, pub, fork, snd, rc, pl, amt in combos:
        cases.append(mk(newg(), rc, pl, ty=ty, pub=pub, fork=fork, snd=snd, amt=amt))
    # envelope cases: types, lengths, amounts
    for ty in range(0, 9):
        for rcpt in ("aergo.system", "", "aergo.vault"):
            for pl in ("", '{"Name":"v1stake"}'):
                cases.append(mk(newg(), rcpt, pl, ty=ty, amt=rng.choice([0, 5])))
    gi = newg()
    cases.append(mk(gi, "aergo.system", '{"Name":"v1stake"}', amt=MAXAER + 1))
    cases.append(mk(gi, "aergo.system", '{"Name":"v1stake"}', acctlen=34))
    cases.append(mk(gi, "aergo.system", '{"Name":"v1stake"}', acctlen=12))
    cases.append(mk(gi, "aergo.system", '{"Name":"v1stake"}', rcptraw="aa" * 34))
    cases.append(mk(gi, "aergo.system", '{"Name":"v1stake"}', rcptraw="aa" * 33))
    cases.append(mk(gi, "aergo.system", '{"Name":"v1stake"}', badhash=True))
    cases.append(mk(gi, "aergo.system", '{"Name":"v1stake","Args":["' + "x" * (210 * 1024) + '"]}'))
    # payload sizes around types.TxMaxSize (200 KiB of serialised tx): undecodable filler keeps the case small for the model
    fills = (200 * 1024 - 400, 200 * 1024 - 200, 200 * 1024 - 150, 200 * 1024 - 100, 200 * 1024, 200 * 1024 + 1, 300 * 1024)
    for fill in (fills if not quick else fills[:3] + fills[5:6]):
        cases.append(mk(newg(), "aergo.system", "{", payfill=fill))
        cases.append(mk(newg(), "aergo.name", "x", payfill=fill, ty=rng.choice([GOV, TRANSFER, CALL, DEPLOY])))
    # amount / gas price byte fields: boundary values, leading zeros, very long fields (big.Int.SetBytes is unsigned)
    be = lambda n: n.to_bytes((n.bit_length() + 7) // 8 or 1, "big").hex()
    raws = (be(MAXAER), be(MAXAER + 1), be(MAXAER - 1), "00" * 40 + be(5), "ff" * 33, "80" + "00" * 32, "", "ff" * 100000)
    for raw in (raws if not quick else raws[:4] + raws[6:7]):
        cases.append(mk(newg(), "aergo.system", '{"Name":"v1stake"}', amtraw=raw))
        cases.append(mk(newg(), "aergo.system", '{"Name":"v1stake"}', priceraw=raw))
        cases.append(mk(newg(), "aergo.name", '{"Name":"v1createName","Args":["abcdefghijkl"]}', amtraw=raw, ty=rng.choice([GOV, TRANSFER])))
    for ty in (-1, 8, 9, 100, 2 ** 31 - 1):
        cases.append(mk(newg(), "aergo.system", '{"Name":"v1stake"}', ty=ty))
    for n in ((0, 1, 12, 32, 33, 34, 64, 1000) if not quick else (0, 12, 33, 34)):
        cases.append(mk(newg(), "aergo.system", '{"Name":"v1stake"}', acctlen=n or None))
        cases.append(mk(newg(), "aergo.system", '{"Name":"v1stake"}', rcptraw="61" * n if n else None, ty=rng.choice([GOV, TRANSFER, NORMAL])))
    # JSON number formats, duplicate keys, depth limits of encoding/json
    deep = "[" * 10001 + "]" * 10001
    for pl in ('{"Name":"v1voteBP","Args":[1e400]}', '{"Name":"v1voteBP","Args":[-0]}', '{"Name":"v1voteBP","Args":[1E+308, 1e-400, 0.0000001]}',
               '{"Name":"v1voteDAO","Args":["BPCOUNT", 13.0]}', '{"Name":"v1stake","Name":"v1voteBP","Args":[1],"Args":[]}',
               '{"name":"v1stake","NAME":"v1voteDAO","args":[],"ARGS":["BPCOUNT"]}', '{"Name":"v1voteBP","Args":%s}' % deep,
               '{"Name":"v1voteBP","Args":[%s]}' % ("[" * 200 + "]" * 200), '{"Name":"v1voteBP","Args":[1e-999999999999]}',
               '{"Name":"v1voteBP","Args":[01]}', '{"Name":"v1voteBP","Args":[0x10]}', '{"Name":"v1voteBP","Args":[NaN]}',
               '{"Name":"v1voteBP","Args":["\\ud800"]}', '{"Name":"\\u0076\\u0031stake"}', ' \n{"Name":"v1stake"} \n', '{"Name":"v1stake"}{"Name":"v1unstake"}'):
        gi = newg()
        cases += SYS_SETUP(gi)
        cases.append(mk(gi, "aergo.system", pl))
    cases.append(mk(gi, "aergo.system", '{"Name":"v1stake"}', raft=True))
    cases.append(mk(gi, "aergo.enterprise", '{"name":"appendAdmin","args":["@A0"]}', pub=True))
    # raw byte stream: random bytes and byte-level mutations of valid payloads
    nraw = 25 if quick else 5000
    seeds = [json.dumps(c).encode() for _, c, _ in rs]
    for _ in range(nraw):
        gi = newg()
        rcpt = rng.choice(list(setups))
        if rng.random() < 0.3:
            pl = bytes(rng.randrange(256) for _ in range(rng.randrange(1, 40)))
        else:
            pl = bytearray(rng.choice(seeds))
            for _ in range(rng.randrange(1, 4)):
                k = rng.randrange(4)
                i = rng.randrange(len(pl))
                if k == 0:
                    pl[i] = rng.randrange(256)
                elif k == 1:
                    del pl[i:i + rng.randrange(1, 6)]
                elif k == 2:
                    pl[i:i] = rng.choice([b"null", b"[", b"]", b"{", b"}", b'"', b",", b"1e999", b"\\u0000", b"\xff"])
                else:
                    pl = pl[:i]
                if not pl:
                    pl = bytearray(b"{")
            pl = bytes(pl)
        cases += setups[rcpt](gi)
        cases.append(mk(gi, rcpt, pl))
    return cases, ncorpus


# --------------------------------------------------------------------------- Coq emission
def cs(hexs):
    return '(hx "%s")' % hexs.lower() if hexs else "[]"


def cstr(s):
    return cs(s.encode().hex())


def cjson(t):
    k = t["t"]
    if k == "null":
        return "JNull"
    if k == "bool":
        return "(JBool %s)" % ("true" if t["v"] else "false")
    if k == "num":
        return "JNum"
    if k == "str":
        return "(JStr %s)" % cs(t["v"])
    if k == "arr":
        return "(JArr [%s])" % ";".join(cjson(x) for x in t["v"])
    if k == "obj":
        return "(JObj [%s])" % ";".join("(%s,%s)" % (cs(kk), cjson(v)) for kk, v in sorted(t["v"].items()))
    return "JNull"


def B(b):
    return "true" if b else "false"


def opt(s):
    return "None" if s is None else "(Some %s)" % s


def parse_conf(rawhex):
    raw = bytes.fromhex(rawhex)
    parts = raw.split(b"\\")
    return (len(raw) > 0 and raw[0] == 1), [p.hex() for p in parts[1:]]


def cconfs(confs):
    """raw stored conf records by upper-case key (the model deserialises them itself: State.de_conf)"""
    return "[" + ";".join("(%s,%s)" % (cstr(k), cs(raw)) for k, raw in sorted(confs.items())) + "]"


def coq_case(c, o):
    payload = base64.b64decode(c["p"])
    v = o["view"]
    amt = int(c["amt"])
    rcpt = bytes.fromhex(c["rcptraw"]) if c.get("rcptraw") else c["rcpt"].encode()
    acct = bytes.fromhex(v["sender"]) if not c.get("acctlen") else bytes(c["acctlen"])
    if o["decode_ok"]:
        cinfo = "(Some (mkCI %s [%s]))" % (cs(o["name"]), ";".join(cjson(a) for a in o["args"]))
    else:
        cinfo = "None"
    size_ok = o["proto_size"] <= 200 * 1024          # types.TxMaxSize; proto.Size is reported by the engine
    if c.get("amtraw"):
        amt = min(int.from_bytes(bytes.fromhex(c["amtraw"]), "big"), 10 ** 40)   # capped: only comparisons with balances matter
    price_ok = True
    if c.get("priceraw"):
        price_ok = int.from_bytes(bytes.fromhex(c["priceraw"]), "big") <= MAXAER
    tx = "(mkTx false true %s false %s %s %s %d %d %s %d %s %s %s %s %s)" % (
        B(size_ok), B(not c.get("badhash")), B(amt <= MAXAER), B(price_ok), len(acct), len(rcpt),
        TYNAME.get(c["ty"], "TOther"), 1 if o["payload_len"] else 0, B(amt == 0), cs(rcpt.hex()),
        cinfo, vf.coq_Z(amt), cs(acct.hex()))
    cons = c.get("cons") or ("raft" if c.get("raft") else "dpos")
    env = "(mkEnv %s %s %s)" % (B(c.get("pub", False)), B(cons == "dpos"), B(cons == "raft"))
    sysv = "(mkSys %d %d %s %s %s [%s] %s)" % (
        c["fork"], v["block_no"], vf.coq_Z(int(v["balance"] or 0)), cs(v["staking"]), cs(v["vote_bp"]),
        ";".join("(%s,%s)" % (cstr(k), cs(r)) for k, r in sorted(v["votes_dao"].items())), vf.coq_Z(int(v["staking_min"])))
    namev = "(mkName %s %s [%s] [%s])" % (vf.coq_Z(int(v["balance"] or 0)), vf.coq_Z(int(v["name_price"])),
                                          ";".join("(%s,%s)" % (cs(k), cs(r)) for k, r in sorted(v["names"].items())),
                                          ";".join("(%s,%s)" % (cs(k), cs(r)) for k, r in sorted(v["names0"].items())))
    entv = "(ent_of_raw %s %s %s %s)" % (cs(v["sender"]), cs(v["admins"]), cconfs(v["confs"]), B(v["cc_set"]))
    rows = []
    for r in o.get("strs") or []:
        rows.append("(%s, mkRow %s %s %s %s %s %s %s %d %s %s %s %s %s)" % (
            cs(r["s"]), cs(r.get("b58_hex", "")), cs(r["upper"]), opt(cs(r["addr"]) if r["addr_ok"] else None),
            "(Some (%d%%nat,%s))" % (r["b58_len"], B(r["peer_ok"])) if r["b58_ok"] else "None",
            opt(vf.coq_Z(int(r["big"])) + "%Z") if r["big_ok"] else "None", B(r["allowed"]), B(r["list_ok"]), r["rpc_n"],
            B(r["rpc_b64"]), B(r["rpc_w"]), B(r["cc_peer"]), B(r["cc_addr"]), B(r["cc_hex"])))
    enc = ["(%s,%s)" % (cs(k), cs(e)) for k, e in sorted(v["admin_enc"].items())]
    vt, vs, ex = classify(o["v_types"], "types"), classify(o["v_state"], "state"), classify(o["exec"], "exec")
    if c["ty"] != GOV:
        # non-governance types: the model covers Tx.Validate and the type dispatch; fees, balances and the VM are
        # outside it (direct predicate only: no panic)
        vs = "CPanic" if vs == "CPanic" else "CSkip"
        ex = "CPanic" if ex == "CPanic" else "CSkip"
    post = "None"
    if c["ty"] == GOV and rcpt == b"aergo.enterprise" and ex == "COk":
        post = "(Some (%s,%s))" % (cs(o["post"]["admins"]), cconfs(o["post"]["confs"]))
    run = "None"
    if c["ty"] == GOV and rcpt == b"aergo.system" and ex == "COk" and o["decode_ok"]:
        pv = o["post"]
        pvotes = dict(pv["votes_dao"])
        if pv["vote_bp"]:
            pvotes["voteBP"] = pv["vote_bp"]
        run = "(Some (mkRunObs [%s] %s [%s] %s [%s] [%s]))" % (
            ";".join("(%s,%s)" % (cstr(k), cs(r)) for k, r in sorted(v["results"].items())),
            cs(o.get("jmarshal", "")),
            ";".join("(%s,[%s])" % (cs(k), ";".join(cs(x) for x in l)) for k, l in sorted(v["junm"].items())),
            cs(pv["staking"]),
            ";".join("(%s,%s)" % (cstr(k), cs(r)) for k, r in sorted(pvotes.items())),
            ";".join("(%s,%s)" % (cstr(k), cs(r)) for k, r in sorted(pv["results"].items())))
    return "(mkCase %s %s (mkState %s %s %s) [%s] [%s] %s %s %s %s %s)" % (
        env, tx, sysv, namev, entv, ";".join(rows), ";".join(enc),
        "(%s)" % vt if " " in vt else vt, "(%s)" % vs if " " in vs else vs, "(%s)" % ex if " " in ex else ex, post, run)


def eval_cases(ctx, cases, obs, tag):
    """returns (mismatch index list | None, output); shards are evaluated by parallel coqc processes"""
    from concurrent.futures import ThreadPoolExecutor
    shard = 100
    # very large payloads (tx size limit case) are checked by the direct predicate only
    keep = [i for i, c in enumerate(cases) if len(c["p"]) < 12000 and (len(json.dumps(obs[i].get("args"))) < 20000)]

    def one(s0):
        ids = keep[s0:s0 + shard]
        items = [coq_case(cases[i], obs[i]) for i in ids]
        txt = ["From Coq Require Import ZArith NArith List Bool String.",
               "From Verif Require Import AdmitTotal.Base AdmitTotal.Model AdmitTotal.State AdmitTotal.Eval.", "Import ListNotations.",
               "Open Scope N_scope.", "Open Scope string_scope.",
               "Definition cases : list ccase := [%s]." % ";\n".join(items),
               "Definition M := Eval vm_compute in mismatches cases.", "Print M."]
        ok, idx, out = ctx.coq_eval_mismatches("%s_%d" % (tag, s0 // shard), "\n".join(txt))
        return ids, ok, idx, out

    mism = []
    with ThreadPoolExecutor(max_workers=6) as ex:
        for ids, ok, idx, out in ex.map(one, range(0, len(keep), shard)):
            if not ok:
                return None, out
            mism += [ids[i] for i in idx]
    return sorted(mism), ""


def run_engine(ctx, binp, cases, tag, env_extra=None):
    fin = os.path.join(ctx.workdir, tag + ".in")
    fout = os.path.join(ctx.workdir, tag + ".out")
    with open(fin, "w") as f:
        for c in cases:
            f.write(json.dumps(c) + "\n")
    env = {"VERIF_IN": fin, "VERIF_OUT": fout}
    env.update(env_extra or {})
    rc, log = ctx.run_bin(binp, ["-test.run", "TestVerifC14Engine"], env=env, timeout=1500)
    if rc != 0:
        raise RuntimeError("C14 engine failed:\n" + log[-3000:])
    lines = [json.loads(l) for l in open(fout)]
    hdr, obs = lines[0], lines[1:]
    if len(obs) != len(cases):
        raise RuntimeError("C14 engine: %d observations for %d cases" % (len(obs), len(cases)))
    return hdr, obs


def pool_differential(ctx, poolbin, cases, obs):
    """Run the transactions that engine 1 executed on a pristine setup state through the REAL
    mempool.verifyTx / validateTx (engine 2) and compare the outcome classes."""
    setups = {}
    for kind, mkfn in (("staked", SYS_SETUP), ("admin", ENT_SETUP), ("named", NAME_SETUP)):
        c0 = mkfn(0)[0]
        setups[(c0["rcpt"], c0["p"], c0["amt"])] = kind
    plain = lambda c: (c["ty"] == GOV and c["fork"] == 3 and c["snd"] in (0, 1, 2, 3) and
                       not any(c.get(k) for k in ("raft", "cons", "pub", "acctlen", "rcptraw", "badhash", "amtraw", "priceraw", "payfill", "bno", "commit")))
    pcs, idx = [], []
    groups = {}
    for i, c in enumerate(cases):
        groups.setdefault(c["g"], []).append(i)
    for g, ids in groups.items():
        kind, start = "none", 0
        c0 = cases[ids[0]]
        k0 = setups.get((c0["rcpt"], c0["p"], c0["amt"]))
        if k0 and c0["snd"] == 0 and plain(c0) and obs[ids[0]]["exec"].startswith("OK SUCCESS"):
            kind, start = k0, 1
        for i in ids[start:]:
            if not plain(cases[i]) or len(cases[i]["p"]) > 20000:
                break
            pcs.append({"setup": kind, "rcpt": cases[i]["rcpt"], "p": cases[i]["p"], "amt": cases[i]["amt"], "snd": cases[i]["snd"], "ty": cases[i]["ty"]})
            idx.append(i)
            if obs[i]["exec"].startswith("OK SUCCESS") or obs[i]["exec"].startswith("PANIC"):
                break          # the state is no longer the pristine setup state
    fin = os.path.join(ctx.workdir, "c14pool.in")
    fout = os.path.join(ctx.workdir, "c14pool.out")
    with open(fin, "w") as f:
        for c in pcs:
            f.write(json.dumps(c) + "\n")
    rc, log = ctx.run_bin(poolbin, ["-test.run", "TestVerifC14MempoolEngine"], env={"VERIF_IN": fin, "VERIF_OUT": fout}, timeout=900)
    if rc != 0:
        raise RuntimeError("C14 mempool engine failed:\n" + log[-3000:])
    pobs = [json.loads(l) for l in open(fout)]
    if len(pobs) != len(pcs):
        raise RuntimeError("C14 mempool engine: %d observations for %d cases" % (len(pobs), len(pcs)))
    fails, diffs = [], []
    for c, po, i in zip(pcs, pobs, idx):
        rep = {"how": "real mempool.verifyTx / validateTx on the state after setup '%s' (engine harness/engines/admit, TestVerifC14MempoolEngine)" % c["setup"],
               "tx": dict(c, payload=base64.b64decode(c["p"]).decode(errors="backslashreplace")), "verifyTx": po["verify"], "validateTx": po["validate"],
               "engine1": {"Validate": obs[i]["v_types"], "stateful": obs[i]["v_state"]}}
        rep["tx"].pop("p")
        for st in ("verify", "validate"):
            if po[st].startswith("PANIC"):
                fails.append(("C14:panic:mempool:%s:%s" % (c["rcpt"], st), "mempool.%sTx panics: %s" % (st, po[st][:160]), rep))
        a1, b1 = classify(po["verify"], "types"), classify(obs[i]["v_types"], "types")
        if a1 != b1:
            diffs.append(rep)
        elif a1 == "COk" and classify(po["validate"], "state") != classify(obs[i]["v_state"], "state"):
            diffs.append(rep)
    return fails, diffs, len(pcs)


# ---------------------------------------------------------------- engine 3: sequences on one pool, watchdog
def _A(i):
    return "@A%d" % i


def _stx(snd=1, n=1, **kw):
    d = {"acct": _A(snd), "key": snd, "nonce": n, "amt": "1", "rcpt": _A(2), "ty": 4}
    d.update(kw)
    return d


def _b64(t):
    return base64.b64encode(t.encode()).decode()


# rejection class -> (transaction, expected text of the specific rejection when submitted = verifyTx then put)
SEQ_REJECT = {
    "badsig_addr": (_stx(badsig=True), "signature not matched"),
    "nosig_addr": (_stx(nosig=True), "malformed signature"),
    "name_unregistered": (_stx(acct="nosuchname12", key=0), "malformed public key"),
    "name_foreign_key": (_stx(acct="abcdefghijkl", key=1), "signature not matched"),
    "name_owner_changed_old_key": (_stx(acct="mnopqrstuvwx", key=0), "signature not matched"),
    "name_short_unregistered": (_stx(acct="abc", key=0), "malformed public key"),
    "name_empty": (_stx(acct="", key=0), "tx invalid format"),
    "name_badsig": (_stx(acct="abcdefghijkl", key=0, badsig=True), "signature not matched"),
    "name_nosig": (_stx(acct="abcdefghijkl", key=0, nosig=True), "malformed signature"),
    "nonce_low": (_stx(n=0), "nonce is too low"),
    "low_balance": (_stx(amt="3000000000000000000000000"), "not enough balance"),
    "bad_payload": (_stx(ty=1, rcpt="aergo.system", p=_b64("{"), amt="0"), "tx invalid payload"),
    "bad_chain": (_stx(badchain=True), "tx invalid chain id hash"),
    "name_recipient_unregistered": (_stx(rcpt="nosuchname12"), "tx invalid recipient"),
    "recipient_len20": (_stx(rcpt="x" * 20), "tx invalid recipient"),
    "bad_type": (_stx(ty=99), "tx invalid type"),
    "gov_unknown_recipient": (_stx(ty=1, rcpt="aergo.nothing", p=_b64('{"Name":"v1stake"}')), "tx invalid recipient"),
    "huge_amount": (_stx(amt="1" + "0" * 27), "tx invalid amount"),
    "stake_too_small": (_stx(ty=1, rcpt="aergo.system", p=_b64('{"Name":"v1stake"}'), amt="1"), "too small amount"),
}
SEQ_ACCEPT = {"addr": lambda n: _stx(1, n), "addr0": lambda n: _stx(0, n + 3), "name_ok": lambda n: _stx(acct="abcdefghijkl", key=0, n=n),
              "name_moved_ok": lambda n: _stx(acct="mnopqrstuvwx", key=1, n=n)}


def gen_sequences(ctx):
    """(sequence, expectations): expectations[i] = None | ("OK", prefix) | ("ERR", substring)"""
    rng = random.Random(ctx.seed * 7919 + 14)
    seqs = []
    def S(steps):
        seqs.append(({"steps": [{"op": op, **({"tx": tx} if tx is not None else {})} for op, tx, _ in steps]}, [e for _, _, e in steps]))
    ok = ("OK", "OK")
    # every rejection class, then a valid put, a fetch, a block notification, the listing, a name-sender accept, ...
    for cls, (tx, msg) in SEQ_REJECT.items():
        S([("submit", tx, ("ERR", msg)), ("submit", _stx(1, 1), ok), ("get", None, ("OK", "OK 1")), ("block", None, ok),
           ("list", None, ("OK", "OK 1")), ("submit", tx, ("ERR", msg)), ("submit", _stx(acct="abcdefghijkl", key=0, n=1), ok),
           ("get", None, ("OK", "OK 2")), ("unconfirmed", None, ok), ("block", {"ref": 2}, ok), ("remove", {"ref": 2}, ok),
           ("get", None, ("OK", "OK 1")), ("exist", {"ref": 7}, ("OK", "OK 1")), ("evict", None, ok)])
        # the verifier alone (TxVerifier actor), then the pool
        S([("verify", tx, None), ("verify", tx, None), ("put", _stx(2, 1), ok), ("block", None, ok), ("get", None, ("OK", "OK 1"))])
    # rejections by the pool itself (under mp.Lock in put): same sender and nonce with another body, duplicates, orphans
    S([("submit", _stx(1, 1), ok), ("submit", _stx(1, 1, amt="2"), ("ERR", "same nonce")), ("submit", {"ref": 1}, ("ERR", "already in mempool")),
       ("submit", _stx(1, 3), ok), ("submit", _stx(1, 3, amt="2"), ("ERR", "same nonce")), ("get", None, ("OK", "OK 1")), ("submit", _stx(1, 2), ok),
       ("get", None, ("OK", "OK 3")), ("block", {"ref": 1}, ok), ("submit", _stx(2, 1), ok), ("remove", {"ref": 4}, ok), ("remove", {"ref": 4}, ("ERR", "not found")),
       ("get", None, None), ("evict", None, ok), ("list", None, None)])
    # the accepting name-sender paths
    S([("submit", _stx(acct="abcdefghijkl", key=0, n=1), ok), ("submit", _stx(acct="mnopqrstuvwx", key=1, n=1), ok),
       ("submit", {"ref": 1}, ("ERR", "already in mempool")), ("get", None, ("OK", "OK 2")), ("block", {"ref": 1}, ok), ("list", None, ("OK", "OK 2"))])
    # random interleavings
    nrand = 30 if ctx.tier == "quick" else 1500
    for _ in range(nrand):
        steps, nonce = [], {"addr": 1, "addr0": 1, "name_ok": 1, "name_moved_ok": 1}
        for _k in range(rng.randint(5, 16)):
            r = rng.random()
            if r < 0.45:
                cls = rng.choice(sorted(SEQ_REJECT))
                steps.append((rng.choice(["submit", "submit", "verify"]), SEQ_REJECT[cls][0], None))
            elif r < 0.7:
                who = rng.choice(sorted(SEQ_ACCEPT))
                # name_ok and addr0 are the same account (the name belongs to account 0): separate nonce ranges
                steps.append(("submit", SEQ_ACCEPT[who](nonce[who]), None))
                nonce[who] += 1
            else:
                steps.append((rng.choice(["get", "block", "list", "unconfirmed", "evict", "get", "block"]), None, None))
        steps += [("submit", _stx(2, 1), ok), ("get", None, None), ("block", None, ok)]
        S(steps)
    return seqs


def pool_sequences(ctx, poolbin, env_extra=None, tag="c14seq", limit=None):
    """engine 3: sequences of operations on one pool, each operation under a watchdog"""
    seqs = gen_sequences(ctx)
    if limit:
        seqs = seqs[:limit]
    fin = os.path.join(ctx.workdir, tag + ".in")
    fout = os.path.join(ctx.workdir, tag + ".out")
    with open(fin, "w") as f:
        for s_, _ in seqs:
            f.write(json.dumps(s_) + "\n")
    rc, log = ctx.run_bin(poolbin, ["-test.run", "TestVerifC14MempoolSeqEngine"],
                          env=dict({"VERIF_IN": fin, "VERIF_OUT": fout, "VERIF_OP_TIMEOUT_MS": "3000", "VERIF_MAX_BLOCKED": "3"}, **(env_extra or {})),
                          timeout=1200)
    sobs = []
    if os.path.exists(fout):
        for l in open(fout):
            try:
                sobs.append(json.loads(l))
            except ValueError:
                break
    fails, diffs, nops, nrun = [], [], 0, 0
    if rc != 0:
        # the process died (Go fatal error, e.g. "sync: Unlock of unlocked RWMutex"): the sequence being run is the failing input
        m = re.search(r"^(fatal error: .*|panic: .*)$", log, re.M)
        if not m or len(sobs) >= len(seqs):
            raise RuntimeError("C14 mempool sequence engine failed:\n" + log[-3000:])
        sq = seqs[len(sobs)][0]
        fails.append(("C14:crash:mempool:seq", "a pool operation of this sequence crashed the process: " + m.group(1)[:160],
                      {"sequence": sq["steps"], "log": log[log.find(m.group(1)):][:1500]}))
        seqs = seqs[:len(sobs)]
    elif len(sobs) != len(seqs):
        raise RuntimeError("C14 mempool sequence engine: %d observations for %d sequences" % (len(sobs), len(seqs)))
    how = ("fresh MemPool over a prepared state (accounts 0-2 funded, name abcdefghijkl owned by account 0, name mnopqrstuvwx moved to "
           "account 1); each step runs the real pool function in a goroutine with a 3 s watchdog (engine harness/engines/admit, "
           "TestVerifC14MempoolSeqEngine); submit = verifyTx then put")
    def describe(step):
        d = dict(step)
        if "tx" in d and d["tx"].get("p"):
            d["tx"] = dict(d["tx"], payload=base64.b64decode(d["tx"]["p"]).decode(errors="backslashreplace"))
        return d
    for (sq, exp), o in zip(seqs, sobs):
        outs = o.get("out") or []
        if outs and outs[0] == "NOTRUN":
            continue
        nrun += 1
        for i, r in enumerate(outs):
            if r in ("SKIPPED", "NOTRUN"):
                break
            nops += 1
            st = sq["steps"][i]
            rep = {"how": how, "sequence": [describe(x) for x in sq["steps"][:i + 1]], "outcomes": outs[:i + 1]}
            if r == "TIMEOUT":
                prev = next((j for j in range(i - 1, -1, -1) if outs[j].startswith("ERR")), None)
                cause = ""
                if prev is not None:
                    cause = " after the rejection '%s' of step %d" % (outs[prev][:80], prev + 1)
                fails.append(("C14:hang:mempool:%s" % st["op"],
                              "admission did not terminate: pool operation %s (step %d) still blocked after 3 s%s" % (st["op"], i + 1, cause), rep))
                break
            if r.startswith("PANIC"):
                fails.append(("C14:panic:mempool:seq:%s" % st["op"], "mempool %s panics: %s" % (st["op"], r[:160]), rep))
                break
            e = exp[i]
            if e is not None:
                good = (r.startswith(e[1]) if e[0] == "OK" else (r.startswith("ERR") and e[1] in r))
                if not good:
                    diffs.append(dict(rep, expected="%s %s" % e, got=r))
                    break
    return fails, diffs, nrun, nops


def gen_locks(ctx):
    """gen/gen_panicsites_locks -> coq/Gen/AdmitLocks.v (lock / unlock paths of package mempool)"""
    src = os.path.join(ctx.verif, "gen", "gen_panicsites_locks")
    binp = os.path.join(ctx.workdir, "gen_panicsites_locks")
    env = ctx.goenv()
    env["GO111MODULE"] = "off"
    rc, out = vf.sh(["go", "build", "-o", binp, "."], cwd=src, env=env, timeout=600)
    if rc != 0:
        raise RuntimeError("gen_panicsites_locks build failed:\n" + out[-2000:])
    outp = os.path.join(vf.COQ, "Gen", "AdmitLocks.v")
    rc, out = vf.sh([binp, ctx.repo, outp], timeout=120)
    if rc != 0:
        raise RuntimeError("gen_panicsites_locks failed:\n" + out[-2000:])
    txt = open(outp).read()
    return len(re.findall(r'^  \("[^"]+@', txt, re.M)), txt


def lock_paths(ctx):
    """the lock analysis on the generated term: functions with an exit that leaves a mutex held (or
    released too often), with one witness path each; unsupported constructs"""
    txt = ["From Coq Require Import String List Bool ZArith.",
           "From Verif Require Import VmGuard.Lang VmGuard.Balance Gen.AdmitLocks.",
           "Import ListNotations.", "Open Scope Z_scope.",
           "Definition RES_PATHS := Eval vm_compute in flat_map (fun x => map (fun v => (fst (fst x), fst v, a_d (snd v), a_p (snd v), a_w (snd v))) (snd x)) "
           "(counter_offending (fun _ => false) [] lock_program).", "Print RES_PATHS.",
           "Definition RES_UNSUP := Eval vm_compute in lock_unsupported.", "Print RES_UNSUP.",
           "Definition RES_END := tt.", "Print RES_END."]
    ctx.coq_make(["VmGuard/Balance.vo", "Gen/AdmitLocks.vo"])
    rc, out = ctx.coq_eval("lockpaths", "\n".join(txt))
    if rc != 0:
        return None, out
    flat = " ".join(out.split())
    m1 = re.search(r"\bRES_PATHS = (.*?) \bRES_UNSUP = (.*?) \bRES_END = ", flat)
    if not m1:
        return None, "could not find the results in:\n" + out[-1500:]
    r, u = (x.rsplit(" : ", 1)[0].strip() for x in m1.groups())
    paths = []
    for m in re.finditer(r'\(\s*"([^"]+)",\s*"([^"]+)",\s*(-?\d+),\s*(-?\d+),\s*(\[.*?\]|nil)\)(?=;|\s*\]|\s*$)', r):
        fn, reason, d, p, w = m.groups()
        steps = [{"at": a.replace('""', '"'), "taken": b == "true"} for a, b in re.findall(r'\(\s*"((?:[^"]|"")*)",\s*(true|false)\)', w)]
        paths.append({"function@mutex.mode": fn, "reason": reason, "held_at_exit": int(d), "deferred_releases": int(p),
                      "net_locks_left_held": int(d) + int(p), "path": steps})
    if r not in ("[]", "nil") and not paths:
        return None, "could not parse the printed lock paths:\n" + out[-1500:]
    unsup = [x.replace('""', '"') for x in re.findall(r'"((?:[^"]|"")*)"', u)]
    if u not in ("[]", "nil") and not unsup:
        return None, "could not parse lock_unsupported:\n" + out[-1500:]
    return {"paths": paths, "unsupported": unsup}, out


def config_sweep(ctx, binp, poolbin, cases, obs):
    """The node configuration as a case dimension: a representative subset of the groups (every (recipient,
    command, outcome classes) tuple seen at the default level) is run again through the real validators and the
    real executor in a process with ARGLIB_LEVEL=debug (and trace in the thorough tier), and the pool sequences
    too.  Predicates: no panic, and the outcome of every stage equals the one at the default log level."""
    groups, order = {}, []
    for i, c in enumerate(cases):
        if c["g"] not in groups:
            order.append(c["g"])
        groups.setdefault(c["g"], []).append(i)
    def tuples(g):
        t = set()
        for i in groups[g]:
            o = obs[i]
            nm = o.get("name", "") if o.get("decode_ok") else "<undecodable>"
            t.add((cases[i]["rcpt"], nm, classify(o["v_types"], "types"), classify(o["v_state"], "state"), classify(o["exec"], "exec")))
        return t
    budget = 320 if ctx.tier == "quick" else 4000
    seen, chosen, n = set(), [], 0
    for g in order:
        if any(len(cases[i]["p"]) > 20000 for i in groups[g]):
            continue
        t = tuples(g)
        if t - seen and n + len(groups[g]) <= budget:
            seen |= t
            chosen.append(g)
            n += len(groups[g])
    idx = [i for g in chosen for i in groups[g]]
    sub = [cases[i] for i in idx]
    fails, diffs = [], []
    for level in (["debug"] if ctx.tier == "quick" else ["debug", "trace"]):
        cfg = {"ARGLIB_LEVEL": level}
        _, obs2 = run_engine(ctx, binp, sub, "c14_cfg_" + level, env_extra=cfg)
        for j, (i, o2) in enumerate(zip(idx, obs2)):
            for stage in ("v_types", "v_state", "exec"):
                if o2[stage].startswith("PANIC") and not obs[i][stage].startswith("PANIC"):
                    rep = replay_of(sub, obs2, j)
                    rep["node_configuration"] = "log level %s (environment ARGLIB_LEVEL=%s, or level = \"%s\" in arglog.toml); at the default level the same transaction gives: %s" % (
                        level, level, level, obs[i][stage][:120])
                    fails.append(("C14:panic:config:%s:%s" % (level, panic_key(sub[j], o2, stage)),
                                  "%s panics on a node with log level %s only: %s" % (stage, level, o2[stage][:160]), rep))
                    break
                if classify(o2[stage], {"v_types": "types", "v_state": "state", "exec": "exec"}[stage]) != \
                        classify(obs[i][stage], {"v_types": "types", "v_state": "state", "exec": "exec"}[stage]):
                    diffs.append({"node_configuration": "ARGLIB_LEVEL=" + level, "stage": stage, "default_level": obs[i][stage][:160], "this_level": o2[stage][:160],
                                  "sequence": replay_of(sub, obs2, j)["sequence"][-3:]})
                    break
        sf, sd, _, _ = pool_sequences(ctx, poolbin, env_extra=cfg, tag="c14seq_" + level, limit=45)
        for key, what, rep in sf:
            fails.append((key + ":" + level, what + " (log level %s)" % level, dict(rep, node_configuration="ARGLIB_LEVEL=" + level)))
        diffs += [dict(d, node_configuration="ARGLIB_LEVEL=" + level) for d in sd]
    return fails, diffs, len(sub)


def check_hypotheses(cases, obs):
    """The hypotheses of the reachable-state theorems, tested on the real functions' results of this run.
    Returns a list of (what, replay) for every observation contradicting one."""
    bad = []

    def entries(rawhex):
        raw = bytes.fromhex(rawhex)
        es, off = [], 0
        while off < len(raw):
            size = int.from_bytes(raw[off:off + 8], "little")
            es.append(raw[off + 8:off + 8 + size])
            off += 8 + size
        return es

    for i, (c, o) in enumerate(zip(cases, obs)):
        for r in o.get("strs") or []:
            s = bytes.fromhex(r["s"])
            # JSON strings decoded by encoding/json are valid UTF-8: the round trip must hold for all of them
            if not r["json_rt"]:
                bad.append(("encoding/json round trip of a one-element string list fails (hypothesis Hjson)", {"case": i, "string": r["s"]}))
            if r["addr_ok"] and len(bytes.fromhex(r["addr"])) > 33:
                bad.append(("types.DecodeAddress returned more than 33 bytes (hypothesis Hdec)", {"case": i, "string": r["s"], "addr": r["addr"]}))
            if r["b58_ok"] and r["b58_len"] != len(bytes.fromhex(r["b58_hex"])):
                bad.append(("base58.Decode length views disagree (hypothesis Hb58)", {"case": i, "string": r["s"]}))
        for view in (o["view"], o["post"]):
            if len(view["staking"]) // 2 >= 47:
                bad.append(("a staking record of 47 bytes or more (hypothesis upd_bounded)", {"case": i, "staking": view["staking"]}))
            for k, raw in view["results"].items():
                if len(raw) // 2 >= 2 ** 32:
                    bad.append(("a vote-result list of 4 GiB (hypothesis upd_small)", {"case": i}))
                if k == "voteBP":
                    for e in entries(raw):
                        if len(e) >= 78 or len(e) < 39:
                            bad.append(("a BP vote-result entry that is not a 39-byte peer id + short amount (hypotheses upd_bounded / genesis)",
                                        {"case": i, "entry": e.hex()}))
    return bad


def gen_sites(ctx):
    """build and run the translator on ctx.repo -> coq/Gen/PanicSites.v"""
    src = os.path.join(ctx.verif, "gen", "gen_panicsites")
    binp = os.path.join(ctx.workdir, "gen_panicsites")
    env = ctx.goenv()
    env["GO111MODULE"] = "off"
    rc, out = vf.sh(["go", "build", "-o", binp, "."], cwd=src, env=env, timeout=600)
    if rc != 0:
        raise RuntimeError("gen_panicsites build failed:\n" + out[-2000:])
    os.makedirs(os.path.join(vf.COQ, "Gen"), exist_ok=True)
    rc, out = vf.sh([binp, ctx.repo, os.path.join(vf.COQ, "Gen", "PanicSites.v")], timeout=120)
    if rc != 0:
        raise RuntimeError("gen_panicsites failed:\n" + out[-2000:])


def unknown_sites(ctx):
    txt = ["From Coq Require Import String List.", "From Verif Require Import AdmitTotal.Sites Gen.PanicSites.",
           "Definition U := Eval vm_compute in unknown_sites Gen.PanicSites.sites.", "Print U."]
    ctx.coq_make(["Gen/PanicSites.vo", "AdmitTotal/Sites.vo"])
    rc, out = ctx.coq_eval("unknown_sites", "\n".join(txt))
    if rc != 0:
        return None
    flat = " ".join(out.split())
    found = re.findall(r'\(\s*"([^"]+)",\s*"([^"]+)",\s*"((?:[^"]|"")*)",\s*(\d+)(?:%nat)?\)', flat)
    m = re.search(r"U\s*=\s*(.*?)\s*:\s*list", flat)
    if m and m.group(1).strip() not in ("[]", "nil") and not found:
        return None      # printed a non-empty list that could not be parsed
    return found


def panic_key(c, o, stage):
    name = bytes.fromhex(o["name"]).decode(errors="replace") if o.get("decode_ok") else "<undecodable>"
    msg = o[stage]
    kind = "index" if "index out of range" in msg else "slice" if "slice bounds" in msg else \
        "assert" if "interface conversion" in msg else "nil" if "nil pointer" in msg else "other"
    return "C14:panic:%s:%s:%s:%s" % (c["rcpt"], name[:24], {"v_types": "Validate", "v_state": "stateful", "exec": "exec"}[stage], kind)


def run(ctx):
    gen_sites(ctx)
    nlockterms, _ = gen_locks(ctx)
    pr = ctx.prove(extra_targets=["AdmitTotal/Eval.vo", "AdmitTotal/Examples.vo"])
    ctx.cov["trusted_base"] = [
        "Coq 8.16.1 kernel + vm_compute", "Go toolchain, encoding/json", "overlay build of packages chain / mempool with a VM stub that always succeeds",
        "gen_panicsites, gen_panicsites_locks (go/parser, no type information) and the reviewed site list AdmitTotal/Sites.v",
        "engines harness/engines/admit (1: validators + executor, 2: real mempool admission, 3: sequences on one pool with a watchdog)",
        "case generator checks/C14.py, error-text classifier",
    ]
    ctx.assumptions = ["json.Unmarshal(json.Marshal([s])) = [s]; DecodeAddress results are short; base58.Decode length consistency",
                       "records written are shorter than 2^32 bytes, amounts below 2^304 (total supply bound)",
                       "genesis BP vote list = serialisation of a tally with 39-byte peer-id keys",
                       "string functions (DecodeAddress, base58+IDFromBytes, SetString, ToUpper, ParseListEntry, ...) are total oracles",
                       "vprt.go (voting power rank), balances, DB errors are outside the model (engine only)"]
    rc, log, binp = ctx.go_test_binary("chain", [os.path.join(vf.HARNESS, "engines/admit/zz_verif_c14_engine_test.go")], "admit.test")
    if rc != 0:
        raise RuntimeError("admit engine build failed:\n" + log[-3000:])

    rc, log, poolbin = ctx.go_test_binary("mempool", [os.path.join(vf.HARNESS, "engines/admit/zz_verif_c14_mempool_engine_test.go"),
                                                      os.path.join(vf.HARNESS, "engines/admit/zz_verif_c14_mempool_seq_engine_test.go")],
                                          "admit_mempool.test")
    if rc != 0:
        raise RuntimeError("mempool engine build failed:\n" + log[-3000:])

    cases, ncorpus = gen_cases(ctx)
    hdr, obs = run_engine(ctx, binp, cases, "c14")
    pool_fail, pool_diff, npool = pool_differential(ctx, poolbin, cases, obs)
    seq_fail, seq_diff, nseq, nseqops = pool_sequences(ctx, poolbin)
    cfg_fail, cfg_diff, ncfg = config_sweep(ctx, binp, poolbin, cases, obs)
    # ---- direct predicate: no panic anywhere
    pred_fail = []
    for i, (c, o) in enumerate(zip(cases, obs)):
        for stage in ("v_types", "v_state", "exec"):
            if o[stage].startswith("PANIC"):
                pred_fail.append((panic_key(c, o, stage), "%s panics: %s" % (stage, o[stage][:160]), i))
                break
    for key, what, rep in pool_fail + seq_fail + cfg_fail:
        pred_fail.append((key, what, rep))
    hyp_bad = check_hypotheses(cases, obs)
    # ---- lock release on every path of the pool functions (translated source, checked in Properties/C14.v)
    lk, lkout = lock_paths(ctx)
    lock_fail = []
    if lk is None:
        lock_fail.append((None, "could not evaluate the lock-path analysis on the translated pool functions", {"log": lkout[-2000:]}))
    else:
        grp = {}
        for pth in lk["paths"]:
            grp.setdefault(pth["function@mutex.mode"], []).append(pth)
        for fn, pl in grp.items():
            pl.sort(key=lambda p: (0 if p["path"] and p["path"][-1]["at"] == "return" else 1, len(p["path"])))
            pth = pl[0]
            steps = "; ".join(st["at"] if st["at"] == "return" or st["at"].startswith("panic in") else
                              "%s -> %s" % (st["at"], "taken" if st["taken"] else "not taken") for st in pth["path"]) or "(straight line to the end of the body)"
            lock_fail.append(("C14:lockleak:%s" % fn,
                              "pool function %s: an exit leaves the mutex %s (acquired %+d, deferred releases %+d): every later writer blocks and admission "
                              "does not terminate; path: %s" % (fn.split("@")[0], "held %d time(s)" % pth["net_locks_left_held"] if pth["net_locks_left_held"] > 0
                                                                 else "released %d time(s) too often" % -pth["net_locks_left_held"],
                                                                 pth["held_at_exit"], pth["deferred_releases"], steps),
                              {"path": pth, "all_failing_exits": pl[:6],
                               "how": "lock / unlock paths of mempool/*.go translated by gen/gen_panicsites_locks, analysed by VmGuard/Balance.v (C14_pool_lock_paths_checked)"}))
        for u in lk["unsupported"]:
            lock_fail.append(("C14:lockpath:unsupported:%s" % u[:60], "lock operation in a construct the lock-path translation cannot express: " + u, {"site": u}))
    # ---- correspondence
    mism, out = eval_cases(ctx, cases, obs, "cases")
    corr_broken = None
    if mism is None:
        corr_broken = ("model could not be evaluated on the observed cases", out[-2500:])
    elif mism:
        panicking = {i for _, _, i in pred_fail}
        rest = [i for i in mism if i not in panicking]
        if rest:
            corr_broken = ("model/implementation differ on outcome class or enterprise post-state",
                           [replay_of(cases, obs, i) for i in rest[:3]])
    if hyp_bad and not corr_broken:
        corr_broken = ("a hypothesis of the reachable-state theorems is contradicted by the real code: " + hyp_bad[0][0],
                       [dict(h[1], what=h[0], tx=replay_of(cases, obs, h[1]["case"])["sequence"][-1]) for h in hyp_bad[:3]])
    if cfg_diff and not corr_broken:
        corr_broken = ("the outcome of a validation / execution stage depends on the node's log level", cfg_diff[:3])
    if seq_diff and not corr_broken:
        corr_broken = ("a pool operation of a sequence on one pool did not end with the expected accept / specific rejection", seq_diff[:3])
    if pool_diff and not corr_broken:
        corr_broken = ("the real mempool.verifyTx / validateTx outcome differs from the modelled admission (engine 1) on the same state and transaction",
                       pool_diff[:3])
    # ---- directed search when an obligation broke and nothing failed yet
    unknown = None
    if not pr["ok"] and not pred_fail:
        unknown = unknown_sites(ctx)
        bias = None
        if unknown:
            pkg = unknown[0][0].split(".")[0]
            bias = {"system": "aergo.system", "name": "aergo.name", "enterprise": "aergo.enterprise"}.get(pkg)
        for rnd in range(2 if ctx.tier == "quick" else 6):
            more, _ = gen_cases(ctx, extra_bias=bias or "aergo.system")
            more = more[ncorpus:]
            h2, obs2 = run_engine(ctx, binp, more, "c14_directed")
            for i, (c, o) in enumerate(zip(more, obs2)):
                for stage in ("v_types", "v_state", "exec"):
                    if o[stage].startswith("PANIC"):
                        pred_fail.append((panic_key(c, o, stage), "%s panics: %s" % (stage, o[stage][:160]), len(cases) + i))
                        break
            cases += more
            obs += obs2
            if pred_fail:
                break

    # ---- evidence
    classes = {}
    nontriv = set()
    for c, o in zip(cases, obs):
        k = (c["rcpt"], classify(o["v_types"], "types"), classify(o["v_state"], "state"), classify(o["exec"], "exec"))
        nm = bytes.fromhex(o["name"]).decode(errors="replace")[:16] if o.get("decode_ok") else "<undecodable>"
        nontriv.add((c["rcpt"], nm) + k[1:])
        classes[k[3]] = classes.get(k[3], 0) + 1
    ctx.cov["evaluations"] = len(cases)
    ctx.cov["traces_validated_against_impl"] = len(cases)
    ctx.cov["distinct_nontrivial"] = len(nontriv)
    ctx.cov["rule"] = ("one case = one signed transaction run through Tx.Validate, the stateful validator and (governance) the real "
                       "executor on a block state prepared by earlier transactions of its group; distinct = distinct (recipient, decoded "
                       "command name, Validate class, stateful class, execution class) tuples")
    ctx.cov["lock_path_terms"] = nlockterms
    ctx.cov["input_distribution"] = {
        "cases": len(cases), "corpus": ncorpus, "groups": len({c["g"] for c in cases}),
        "undecodable_payloads": sum(1 for o in obs if not o["decode_ok"]),
        "admitted": sum(1 for o in obs if o["v_types"] == "OK" and o["v_state"] == "OK"),
        "executed_success": sum(1 for o in obs if o["exec"].startswith("OK SUCCESS")),
        "exec_classes": {k: v for k, v in sorted(classes.items(), key=lambda kv: -kv[1])[:25]},
        "panic_sites_in_source": site_count(), "real_mempool_admission_cases": npool, "cases_rerun_with_debug_log_level": ncfg,
        "pool_sequences": nseq, "pool_sequence_operations_under_watchdog": nseqops, "rejection_classes_in_sequences": len(SEQ_REJECT),
        "oracle_hypothesis_checks": {"strings_json_roundtrip": sum(len(o.get("strs") or []) for o in obs),
                                     "records_size_bounds": 2 * len(obs), "contradictions": len(hyp_bad)},
    }
    for i in (0, len(cases) // 2, len(cases) - 1):
        ctx.sample({"case": {k: cases[i][k] for k in ("rcpt", "amt", "snd", "fork")}, "payload": base64.b64decode(cases[i]["p"])[:120].decode(errors="replace"),
                    "Validate": obs[i]["v_types"][:80], "stateful": obs[i]["v_state"][:80], "exec": obs[i]["exec"][:80]})

    # ---- decide
    seen = set()
    for key, what, i in pred_fail:
        if key in seen:
            continue
        seen.add(key)
        if len(seen) > 6:
            break
        ctx.finding(key, what, replay_of(cases, obs, i) if isinstance(i, int) else i)
    for key, what, rep_ in lock_fail:
        if key is None:
            ctx.violation(what, rep_, no_input=True)
        else:
            ctx.finding(key, what, rep_)
    if not pr["ok"] and not pred_fail and not lock_fail:
        ctx.violation("proof obligation no longer checks: %s" % pr["broken"],
                      {"theorem_or_file": pr["broken"], "unaccounted_panic_sites": unknown, "log": pr["log"][-3000:],
                       "directed_search": "no panicking input found in %d cases" % len(cases)}, no_input=True)
    if corr_broken and not pred_fail:
        ctx.violation("correspondence broken: " + corr_broken[0], {"correspondence": corr_broken[0], "cases": corr_broken[1]}, no_input=True)


def site_count():
    try:
        return len(re.findall(r'^\s*\("', open(os.path.join(vf.COQ, "Gen", "PanicSites.v")).read(), re.M))
    except OSError:
        return 0


def replay_of(cases, obs, i):
    """the whole group up to and including case i (the state is built by the earlier transactions)"""
    g = cases[i]["g"]
    seq = []
    for j in range(i + 1):
        if cases[j]["g"] == g:
            c = dict(cases[j])
            c["payload"] = base64.b64decode(c.pop("p")).decode(errors="backslashreplace")
            seq.append({"tx": c, "Validate": obs[j]["v_types"], "stateful": obs[j]["v_state"], "exec": obs[j]["exec"]})
    return {"how": "transactions of one block state, in order; engine harness/engines/admit (TestVerifC14Engine); @A<i> = address of engine account i",
            "sequence": seq}

"""C15 Governance accounting.
Proof: coq/Properties/C15.v over coq/Gov/*.v (model of contract/system + contract/name).
Correspondence: in-package engines of contract/system and contract/name drive the real code
over multi-account histories; the Gallina model is evaluated (vm_compute) on the same
histories and compared after every transaction; the GovInv clauses are evaluated directly on
the implementation's own dumps."""
import glob
import time
import json
import os
import sys

sys.path.insert(0, os.path.join(os.path.dirname(os.path.dirname(os.path.abspath(__file__))), "lib"))
import vf
import g8gov as G

META = {
    "text": "30 axiom-free Coq theorems over an executable model of aergo.system / aergo.name (coq/Gov). FULL: GovInv for every history of "
            "governance txs (accepted, rejected, discarded), block boundaries, restarts, plain transfers, per-block fork versions: staking total = sum of stakes; balance(aergo.system) = total + donated; every tally = sum of the ballots naming the "
            "candidate; 0 <= vote <= stake; rankings duplicate free; proposal totals. FULL: exact unstake pay-back; lock / minimum / must-stake "
            "refusals; rejected tx changes nothing; VoteList.Less strict total, ranking unique, stored bytes round-trip; vpr buckets ordered and "
            "canonical; parameter values positive; six name-registry theorems. PARTIAL: memory = loadVpr(state) proved for the "
            "buckets of histories in which every executed block state is connected (total power / powers map only compared at run time). REFUTED with "
            "witnesses: balance = total (C15:transfer-to-system-account, F19), memory = reload after a discarded execution "
            "(C15:vpr-residue-discarded-execution, F12). Tie to /repo on every run: in-package engines drive the real contract/system and contract/name "
            "code over ~2700 operations (random, byte-length-crossing, fork-crossing, parameter-vote, corpus histories) as "
            "chain.executeTx does; the model must reproduce every observable after every op (balances, stakes, ballots, rankings, params "
            "memory/next/state, in-memory and reloaded vpr, GetRankers, 14 PickVotingRewardWinner draws); GovInv clauses, lock rules, memory-vs-state of vpr "
            "and params, bucket order, winner interval are also evaluated directly on the dumps; F19 is reproduced through the real block executor.",
    "note": "Trusted: Coq 8.16 kernel + vm_compute (no axioms); the engines harness/engines/gov (package-level replay of executeTx/NewTxExecutor: fresh "
            "account copies, stage on success, snapshot rollback on error) and the generators/emitters lib/g8gov.py; sort.Sort returns an inversion-free "
            "permutation; aergo-lib memory DB; storage encodings compared through the package's own getters. Modelled, not verified: big.Int.Bytes() as "
            "Z.abs; account ids as integers; the random draw r of the reward winner is an input. Not modelled: red-black tree topVoters.members, vpr.lowest "
            "(not read by execution), event strings, the two hard-coded mainnet exceptions of addVpr/subVpr, contract-creator lookup in UpdateName, "
            "v1setOwner (C01), GetRankers' use of the in-memory BPCOUNT is modelled as is (C08's finding). Theorem assumptions: tx amounts >= 0, voteDAO "
            "issue in the catalog; after a panic the history ends.",
    "technique": "Coq invariant proofs over a Gallina governance model + vm_compute correspondence and direct predicates against the real contract/system and contract/name packages",
}

ENG = os.path.join(vf.HARNESS, "engines/gov/zz_verif_gov_engine_test.go")
NAME_ENG = os.path.join(vf.HARNESS, "engines/gov/zz_verif_name_engine_test.go")


def corpus(ctx):
    res = []
    for p in sorted(glob.glob(os.path.join(ctx.verif, "corpus", "C15", "*.json"))):
        sc = json.load(open(p))
        sc["_corpus"] = os.path.basename(p)
        res.append(sc)
    return res


def block_numbers(sc):
    """block number in force at each op"""
    no, out = sc["start"], []
    for o in sc["ops"]:
        out.append(no)
        if o["op"] == "block":
            no = o["no"]
    return out


def rule_predicates(sc, dumps, fails):
    """lock period / minimum / exact pay-back, on the implementation's own observations"""
    nos = block_numbers(sc)
    I = int
    for k, o in enumerate(sc["ops"]):
        pre, post, no = dumps[k], dumps[k + 1], nos[k]
        if o["op"] not in ("stake", "unstake", "votebp", "votedao") or o.get("ghost"):
            continue
        a0, a1 = pre["accs"][o["who"]], post["accs"][o["who"]]
        ok = post["err"] == "ok"
        smin = I(pre["pcur"][1])
        if o["op"] == "stake" and ok:
            amt = I(o["amt"])
            if a0["sp"] and a0["sw"] + G.DELAY > no:
                fails.append(("stake accepted inside the lock period", {"scenario": sc, "step": k}))
            if I(a0["sa"]) + amt < smin:
                fails.append(("stake accepted below the minimum", {"scenario": sc, "step": k}))
            if I(a1["sa"]) != I(a0["sa"]) + amt or I(a1["bal"]) != I(a0["bal"]) - amt or I(post["total"]) != I(pre["total"]) + amt:
                fails.append(("stake did not move exactly the amount", {"scenario": sc, "step": k}))
        if o["op"] == "stake" and post["err"] == "toosmall" and I(a0["sa"]) + I(o["amt"]) >= smin:
            fails.append(("stake refused as too small although it respects the minimum in force for this block", {"scenario": sc, "step": k, "minimum_in_force": smin}))
        if o["op"] == "unstake" and post["err"] == "toosmall":
            rest0 = I(a0["sa"]) - I(o["amt"])
            if rest0 == 0 or rest0 >= smin:
                fails.append(("unstake refused as leaving too little although the remainder respects the minimum in force for this block", {"scenario": sc, "step": k, "minimum_in_force": smin, "remainder": rest0}))
        if o["op"] == "unstake" and ok:
            amt = I(o["amt"])
            if a0["sw"] + G.DELAY > no:
                fails.append(("unstake accepted inside the lock period", {"scenario": sc, "step": k}))
            rest = I(a0["sa"]) - amt
            if rest < 0 or (rest != 0 and rest < smin):
                fails.append(("unstake accepted leaving less than the minimum", {"scenario": sc, "step": k}))
            if I(a1["bal"]) != I(a0["bal"]) + amt or I(a1["sa"]) != rest or I(post["total"]) != I(pre["total"]) - amt \
                    or I(post["sysbal"]) != I(pre["sysbal"]) - amt:
                fails.append(("unstake did not return exactly the amount", {"scenario": sc, "step": k}))
        if o["op"] in ("votebp", "votedao") and ok:
            ki = 0 if o["op"] == "votebp" else G.ISSUES.index(o["id"].upper())
            if I(a0["sa"]) == 0:
                fails.append(("vote accepted without stake", {"scenario": sc, "step": k}))
            if a0["v"][ki]["p"] and a0["sw"] + G.DELAY > no:
                fails.append(("re-vote accepted inside the lock period (a vote by an account that holds a vote record was accepted within VotingDelay of its Staking.When)", {"scenario": sc, "step": k}))
            if I(a1["v"][ki]["a"]) != I(a0["sa"]):
                fails.append(("vote amount differs from the stake", {"scenario": sc, "step": k}))
        if not ok and not o.get("ghost"):
            # a rejected transaction leaves the durable state unchanged
            keys = ("accs", "sysbal", "total", "res", "pdb")
            if any(pre[x] != post[x] for x in keys) or G.vpr_view(pre["reload"]) != G.vpr_view(post["reload"]):
                fails.append(("rejected governance tx changed the state", {"scenario": sc, "step": k}))


def run_engine(ctx, binp, test, scs, tag):
    fin = os.path.join(ctx.workdir, tag + ".in")
    fout = os.path.join(ctx.workdir, tag + ".out")
    with open(fin, "w") as f:
        for sc in scs:
            f.write(json.dumps({k: v for k, v in sc.items() if not k.startswith("_")}) + "\n")
    rc, log = ctx.run_bin(binp, ["-test.run", test], env={"VERIF_IN": fin, "VERIF_OUT": fout})
    if rc != 0:
        raise RuntimeError("%s engine failed:\n%s" % (tag, log[-3000:]))
    outs = [json.loads(l) for l in open(fout)]
    if len(outs) != len(scs):
        raise RuntimeError("%s engine: %d outputs for %d scenarios" % (tag, len(outs), len(scs)))
    return outs


def coq_compare(ctx, scs, outs, fixed, tag):
    """returns (evaluated_steps, mismatch list [(scenario index, step, components)]) or raises"""
    mism = []
    shard, start = [], 0
    steps = 0

    def flush(idx0, items):
        if not items:
            return
        rc, out = ctx.coq_eval("%s_%d" % (tag, idx0), G.cases_file(items))
        if rc != 0:
            raise RuntimeError("model evaluation failed:\n" + out[-3000:])
        for a, b, cs in G.parse_bad_list(out, "M", r"\((\d+)(?:%nat)?, \((\d+)(?:%nat)?, \[([^\]]*)\]\)\)"):
            mism.append((idx0 + int(a), int(b), [int(x) for x in __import__("re").findall(r"\d+", cs)]))

    G.reset_names()
    for i, (sc, o) in enumerate(zip(scs, outs)):
        if not shard:
            start = i
        shard.append(G.scenario_to_coq(sc, o["dumps"], fixed))
        steps += len(sc["ops"])
        if len(shard) >= 40:
            flush(start, shard)
            shard = []
            G.reset_names()
    flush(start, shard)
    return steps, mism


def run(ctx):
    quick = ctx.tier == "quick"
    phase = {}
    t0 = time.time()
    pr = ctx.prove(extra_targets=["Gov/Check.vo", "Gov/Names.vo"])
    ctx.cov["trusted_base"] = ["Coq 8.16.1 kernel + vm_compute", "Go toolchain", "engines harness/engines/gov (replay of executeTx's governance "
                               "handling at package level)", "scenario generator lib/g8gov.py", "sort.Sort returns a permutation without inversions",
                               "aergo-lib memory DB"]
    ctx.assumptions = ["transaction amounts are non-negative (decoded from unsigned bytes)",
                       "sender is none of the two hard-coded mainnet exception accounts of addVpr/subVpr",
                       "red-black tree topVoters.members and vpr.lowest are outside the model (not read by block execution)"]
    phase["prove"] = round(time.time() - t0, 1)
    t0 = time.time()
    rc, log, govbin = ctx.go_test_binary("contract/system", [ENG], "gov.test", use_overlay=False)
    if rc != 0:
        raise RuntimeError("gov engine build failed:\n" + log[-3000:])

    # ---------------------------------------------------------------- scenarios
    scs = corpus(ctx)
    ncorpus = len(scs)
    nrand = 60 if quick else 1500
    for i in range(nrand):
        scs.append(G.gen_scenario(ctx.rng, twins=(i % 5 == 4)))
    for i in range(12 if quick else 300):
        scs.append(G.gen_crossing_scenario(ctx.rng))
    for i in range(12 if quick else 300):
        scs.append(G.gen_fork_scenario(ctx.rng))
    for i in range(10 if quick else 300):
        scs.append(G.gen_param_scenario(ctx.rng))
    for i in range(8 if quick else 300):      # a passing STAKINGMIN vote followed in the same block by stakes / unstakes between the two minima
        scs.append(G.gen_param_inblock_scenario(ctx.rng, lower=(i % 2 == 0)))
    for i in range(9 if quick else 300):      # vote -> full unstake -> re-stake -> re-vote at -1 / 0 / +1 around the lock boundary
        scs.append(G.gen_revote_scenario(ctx.rng, offset=[-1, 0, 1][i % 3] if i < 6 else None))
    if not quick:
        fam = G.exhaustive_family(3)
        scs += fam
        ctx.cov["exhaustive"] = True
        ctx.cov["exhaustive_family"] = "%d scenarios: fixed prefix + every sequence of 3 operations over a 9-letter alphabet (lib/g8gov.py:exhaustive_family)" % len(fam)
    # F10 probe rides on the first scenario
    probe = dict(scs[0]) if scs else G.gen_scenario(ctx.rng)
    probe["twins"] = [G.cand(5, 0).hex(), G.cand(5, 1).hex(), G.cand(6, 0).hex(), G.cand(6, 1).hex()]
    scs = [probe] + scs[1:] if scs else [probe]
    outs = run_engine(ctx, govbin, "TestVerifGovEngine", scs, "gov")
    for sc, o in zip(scs, outs):
        if o.get("fatal"):
            raise RuntimeError("gov engine: scenario failed: %s\n%s" % (o["fatal"][:1500], json.dumps(sc)[:1500]))
    # a panic inside block execution takes the node down: the history ends there (the panic
    # itself is reported below), nothing after it is an observation of a running node
    panics = []
    for sc, o in zip(scs, outs):
        for k, d in enumerate(o["dumps"]):
            if d.get("panic"):
                panics.append(("C15:panic:" + classify_panic(d["panic"]), "governance transaction panics: " + d["panic"],
                               {"scenario": dict(sc, ops=sc["ops"][:k]), "step": k - 1}))
                sc["ops"] = sc["ops"][:k - 1]
                o["dumps"] = o["dumps"][:k]
                break
    p0 = outs[0]
    fixed = bool(p0.get("less01")) or bool(p0.get("less10"))   # does Less order the parity twins?
    ctx.cov["votelist_less_orders_parity_twins"] = fixed

    # ---------------------------------------------------------------- direct predicates
    fails, known = [], list(panics)
    lowest_ties = 0
    hist = {}
    nontriv = set()
    for sc, o in zip(scs, outs):
        dumps = o["dumps"]
        donated = int(dumps[0]["sysbal"]) - int(dumps[0]["total"])
        has_ghost = any(op.get("ghost") for op in sc["ops"])
        for k, d in enumerate(dumps):
            hist[d["err"]] = hist.get(d["err"], 0) + 1
            for clause, detail in G.gov_inv(d, donated):
                fails.append(("GovInv clause %s fails" % clause, {"scenario": sc, "step": k - 1, "detail": detail}))
            for what, det in G.selection_predicates(d):
                fails.append((what, {"scenario": sc, "step": k - 1, "detail": det}))
            for w in G.vpr_buckets_sorted(d):
                fails.append(("voting power bucket not ordered by account id", {"scenario": sc, "step": k - 1, "bucket": w}))
            op = sc["ops"][k - 1] if k > 0 else {"op": "init"}
            at_boundary = op["op"] in ("block", "reload", "init")
            if at_boundary and not G.vpr_mem_equals_reload(d):
                if has_ghost:
                    known.append(("C15:vpr-residue-discarded-execution",
                                  "in-memory voting power rank differs from the one rebuilt from state after a discarded execution", {"scenario": sc, "step": k - 1}))
                else:
                    fails.append(("in-memory voting power rank (total power, buckets) differs from loadVpr(state) at a block boundary",
                                  {"scenario": sc, "step": k - 1, "mem": d["mem"], "reload": d["reload"]}))
            if not has_ghost:
                # the value scheduled for the next block (the `next` slot if filled, else the current one)
                # is the one in the system contract state — after every transaction, not only at boundaries
                for pi in range(4):
                    want = d["pdb"][pi] if d["pdb"][pi] != "" else dumps[0]["pcur"][pi]
                    sched = d["pnext"][pi] if d["pnext"][pi] != "" else d["pcur"][pi]
                    if sched != want:
                        known.append(("C15:param-scheduled-differs-from-state",
                                      "the parameter value scheduled in memory for the next block differs from the value written to the system contract state",
                                      {"scenario": sc, "step": k - 1, "param": pi, "scheduled": sched, "state": want}))
                    if at_boundary and d["pnext"][pi] != "":
                        known.append(("C15:param-next-slot-not-empty-at-boundary", "a `next` parameter slot survives CommitParams", {"scenario": sc, "step": k - 1, "param": pi}))
            if at_boundary and not has_ghost:
                for pi in range(4):
                    want = d["pdb"][pi] if d["pdb"][pi] != "" else dumps[0]["pcur"][pi]
                    if d["pcur"][pi] != want:
                        known.append(("C15:param-memory-differs-from-state",
                                      "after CommitParams at a block boundary the in-memory system parameter (value in effect for the running node) differs from the one in the system contract state (what a restarted / reorganised node loads)",
                                      {"scenario": sc, "step": k - 1, "param": pi, "memory": d["pcur"][pi], "state": want}))
            tree_differs = at_boundary and not has_ghost and G.vpr_mem_equals_reload(d) and (d["mem"]["tree"] or []) != (d["reload"]["tree"] or [])
            if d["mem"].get("treecorrupt") or tree_differs:
                known.append(("C15:vpr-rbtree-stale-node",
                              "topVoters red-black tree holds a stale node (key mutated in place before Remove): vpr.equals(loadVpr) false / Keys() panics",
                              {"scenario": sc, "step": k - 1, "treecorrupt": d["mem"].get("treecorrupt")}))
            elif at_boundary and not has_ghost and not d["equals"] and G.vpr_mem_equals_reload(d) and d["mem"]["low"] != d["reload"]["low"]:
                lowest_ties += 1      # vpr.lowest among voters of equal power depends on the visiting order; the field is never read
            nontriv.add((op["op"], d["err"], len([a for a in d["accs"] if a["sp"]]), sum(1 for r in d["res"] if r["l"])))
        rule_predicates(sc, dumps, fails)
    if len(p0.get("twin_orders", [])) > 1:
        known.append(("C15:votelist-tie-parity-twins",
                      "BuildOrderedCandidates returns different rankings for the same vote map (parity-twin candidates with equal votes)",
                      {"twins": probe["twins"], "orders": p0["twin_orders"]}))

    phase["gov_engine"] = round(time.time() - t0, 1)
    t0 = time.time()
    if G.perturb("gov"):       # self-test: falsify one observed staking total
        dd = outs[-1]["dumps"][-1]
        dd["total"] = str(int(dd["total"]) + 1)
    # ---------------------------------------------------------------- model correspondence
    corr_broken = None
    try:
        steps, mism = coq_compare(ctx, scs, outs, fixed, "gov")
    except RuntimeError as ex:
        steps, mism = 0, []
        corr_broken = ("model evaluation failed", str(ex)[-2000:])
    comp = {1: "error class", 2: "accounts (balance, stake, votes)", 3: "system balance / staking total", 4: "vote results",
            5: "parameters", 6: "in-memory voting power rank", 7: "voting power rank rebuilt from storage",
            8: "GetRankers (producer set)", 9: "voting reward winner"}
    if mism:
        i, k, cs = mism[0]
        corr_broken = ("model/implementation differ on %s" % ", ".join(comp.get(c, str(c)) for c in cs),
                       {"scenario": scs[i], "step": k, "op": scs[i]["ops"][k], "observed": outs[i]["dumps"][k + 1], "n_differing_scenarios": len(mism)})

    phase["gov_model_eval"] = round(time.time() - t0, 1)
    t0 = time.time()
    # ---------------------------------------------------------------- name registry
    rc, log, namebin = ctx.go_test_binary("contract/name", [NAME_ENG], "name.test", use_overlay=False)
    if rc != 0:
        raise RuntimeError("name engine build failed:\n" + log[-3000:])
    nscs = [json.load(open(p)) for p in sorted(glob.glob(os.path.join(ctx.verif, "corpus", "C15", "names", "*.json")))]
    nscs += [G.gen_name_scenario(ctx.rng) for _ in range(60 if quick else 1500)]
    nouts = run_engine(ctx, namebin, "TestVerifNameEngine", nscs, "name")
    nsteps, nerrs = 0, {}
    for sc, o in zip(nscs, nouts):
        if o.get("fatal"):
            raise RuntimeError("name engine: scenario failed: %s\n%s" % (o["fatal"][:1500], json.dumps(sc)[:1500]))
        for d in o["dumps"]:
            nerrs[d["err"]] = nerrs.get(d["err"], 0) + 1
            if d["err"].startswith("other") or d.get("panic"):
                fails.append(("name engine: unclassified outcome " + d["err"] + " " + (d.get("panic") or ""), {"scenario": sc}))
        G.name_predicates(sc, o["dumps"], fails)
        nsteps += len(sc["ops"])
        nontriv.update(("name", op["op"], d["err"]) for op, d in zip(sc["ops"], o["dumps"][1:]))
    if G.perturb("names"):     # self-test: falsify one observed aergo.name balance
        dd = nouts[-1]["dumps"][-1]
        dd["namebal"] = str(int(dd["namebal"]) + 1)
    for base in range(0, len(nscs), 300):
        items = [G.name_scenario_to_coq(sc, o["dumps"]) for sc, o in zip(nscs[base:base + 300], nouts[base:base + 300])]
        rc, out = ctx.coq_eval("names_%d" % base, G.name_cases_file(items))
        try:
            if rc != 0:
                raise RuntimeError(out[-2000:])
            bad = G.parse_bad_list(out, "MN", r"\((\d+)(?:%nat)?, (\d+)(?:%nat)?\)")
        except RuntimeError as ex:
            corr_broken = corr_broken or ("name model evaluation failed", str(ex)[-2000:])
            bad = []
        if bad:
            i, k = int(bad[0][0]) + base, int(bad[0][1])
            corr_broken = corr_broken or ("model/implementation differ on the name registry",
                                          {"scenario": nscs[i], "step": k, "op": nscs[i]["ops"][k], "observed": nouts[i]["dumps"][k + 1]})
    steps += nsteps
    phase["names"] = round(time.time() - t0, 1)
    ctx.cov["phase_seconds"] = phase

    # ---------------------------------------------------------------- BP election snapshots (consensus/impl/dpos/bp)
    t0 = time.time()
    rc, log, bpbin = ctx.go_test_binary("consensus/impl/dpos/bp", [os.path.join(vf.HARNESS, "engines/gov/zz_verif_bp_engine_test.go")], "bp.test", use_overlay=False)
    if rc != 0:
        raise RuntimeError("bp engine build failed:\n" + log[-3000:])
    bscs = [json.load(open(p)) for p in sorted(glob.glob(os.path.join(ctx.verif, "corpus", "C15", "bp", "*.json")))]
    bscs += [G.gen_bp_scenario(ctx.rng, directed=(i % 2 == 0)) for i in range(12 if quick else 400)]
    bouts = run_engine(ctx, bpbin, "TestVerifBpEngine", bscs, "bp")
    for sc, o in zip(bscs, bouts):
        if o.get("fatal"):
            raise RuntimeError("bp engine: scenario failed: %s\n%s" % (o["fatal"][:1500], json.dumps(sc)[:1500]))
        G.bp_predicates(sc, o["dumps"], fails)
        steps += len(sc["ops"])
        nontriv.update(("bp", op["op"], d["best"] // 100, d["live"] == o["dumps"][0]["live"]) for op, d in zip(sc["ops"], o["dumps"][1:]))
    phase["bp_snapshots"] = round(time.time() - t0, 1)

    # ---------------------------------------------------------------- F19: plain transfer to aergo.system (real block executor)
    t0 = time.time()
    import g8determ as D
    DE = os.path.join(vf.HARNESS, "engines/determ")
    rc, log, dbin = ctx.go_test_binary("chain", [os.path.join(DE, "zz_verif_determ_engine_test.go"), os.path.join(DE, "zz_verif_determ_gather_test.go")], "determ.test")
    if rc != 0:
        raise RuntimeError("determ engine build failed:\n" + log[-3000:])
    case = {"id": "f19", "ver": 2, "naccts": 2, "bal": str(D.BAL), "blocks": [
        {"ts": 1000, "txs": [{"from": 0, "nonce": 1, "kind": "stake", "amt": str(D.S)},
                             {"from": 1, "nonce": 1, "kind": "transfer", "to": "aergo.system", "amt": "12345"}]}]}
    fin, fout = os.path.join(ctx.workdir, "f19.in"), os.path.join(ctx.workdir, "f19.out")
    open(fin, "w").write(json.dumps(case) + "\n")
    tmpd = os.path.join(ctx.workdir, "tmp")
    os.makedirs(tmpd, exist_ok=True)
    rc, log = ctx.run_bin(dbin, ["-test.run", "TestVerifDetermEngine"], env={"VERIF_IN": fin, "VERIF_OUT": fout, "VERIF_MODE": "produce",
                                                                            "ARGLIB_LEVEL": "error", "VERIF_TMP": tmpd})
    if rc != 0:
        raise RuntimeError("determ engine failed:\n" + log[-3000:])
    r19 = json.loads(open(fout).readline())
    if r19.get("fatal"):
        raise RuntimeError("determ engine: " + r19["fatal"][:2000])
    b19 = r19["blocks"][0]
    gov19 = b19["gov"]
    steps += 2
    if 1 in (b19.get("included") or []):
        if int(gov19["bal_system"]) != int(gov19["staking_total"]):
            known.append(("C15:transfer-to-system-account", "plain transfer to aergo.system accepted: balance(aergo.system) = %s, staking total = %s" % (gov19["bal_system"], gov19["staking_total"]),
                          {"case": case, "gov": {k: gov19[k] for k in ("bal_system", "staking_total")}}))
    phase["f19_chain_engine"] = round(time.time() - t0, 1)

    ctx.cov["evaluations"] = steps
    ctx.cov["traces_validated_against_impl"] = len(scs) + len(nscs)
    if lowest_ties:
        ctx.notes.append("vpr.lowest differs between memory and loadVpr(state) in %d dumps (equal voting powers: which of them is 'lowest' depends on the visiting order); the field is never read by the node" % lowest_ties)
    ctx.cov["distinct_nontrivial"] = len(nontriv)
    ctx.cov["rule"] = ("one evaluation = one governance operation executed by the real code and by the model with every observable compared; "
                       "distinct = distinct (operation, outcome class, number of stakers, number of non-empty rankings) tuples reached")
    ctx.cov["input_distribution"] = {"scenarios": len(scs), "corpus": ncorpus, "outcomes": hist, "name_scenarios": len(nscs), "name_outcomes": nerrs, "bp_scenarios": len(bscs),
                                     "ops": {k: sum(1 for sc in scs for o in sc["ops"] if o["op"] == k) for k in ("stake", "unstake", "votebp", "votedao", "block", "reload")}}
    for sc, o in list(zip(scs, outs))[:2]:
        ctx.sample({"ops": sc["ops"][:6], "last_dump": {k: o["dumps"][-1][k] for k in ("total", "sysbal", "pcur")}})

    # ---------------------------------------------------------------- decide
    seen = set()
    hard = False          # a failing input was reported as a violation
    for key, what, rep in known:
        if key in seen:
            continue
        seen.add(key)
        hard |= bool(ctx.finding(key, what, rep))
    for what, rep in fails[:3]:
        hard |= bool(ctx.finding("C15:" + what.split(" ")[0], what, rep))
    if not pr["ok"] and not hard:
        ctx.violation("proof obligation no longer checks: %s" % pr["broken"], {"theorem_or_file": pr["broken"], "log": pr["log"][-3000:]}, no_input=True)
    if corr_broken and not hard:
        ctx.violation("correspondence broken: " + corr_broken[0], {"correspondence": corr_broken[0], "cases": corr_broken[1]}, no_input=True)


def classify_panic(p):
    if "division by zero" in p:
        return "threshold-division-by-zero"
    if "index out of range" in p:
        return "votedao-without-candidate"
    if "slice bounds" in p:
        return "votelist-less-slice-bounds"
    if "nil pointer" in p or "invalid memory" in p:
        return "nil-deref"
    return "other"

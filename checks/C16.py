"""C16 Raft log storage and membership.
Proof: coq/Properties/C16.v over coq/RaftWal/{Wal,Membership}.v.
Correspondence: real chain.ChainDB raft functions + raftv2.WalDB (SaveEntry/ReadAll) on an in-memory
store with a restart (new ChainDB on the same store) after every operation, and the real
Cluster.validateChangeMembership / isEnableChangeMembership (fake raft status), against the Gallina
model evaluated by vm_compute on the same histories / cases."""
import itertools
import json
import os
import re
import vf

META = {
    "text": "36 theorems (Coq, no axioms), all FULL under stated hypotheses, none refuted.  WAL (chaindbForRaft.go, waldb.go): after any "
            "history of well-formed batches (raft's) the entry at every index up to the last is the reference log "
            "firstn(i0-1)++batch, absent beyond (any overwrite, ClearWAL, ResetWAL); ReadAll returns it with "
            "its blocks; replayWAL hands it and the hard state to the library's storage; hard state "
            "/ snapshot / identity round trips; HasWal; inverse map = latest write; every prefix of SaveEntry's write units leaves a "
            "consistent store (the opposite order is shown unsafe); ClearWAL/ResetWAL intermediates have no identity.  "
            "raftserver.go: entriesToApply, triggerSnapshot index arithmetic.  Membership (cluster.go): duplicate name/id/address/peer id "
            "refused, removed id never re-added, also through any snapshot round trips (the snapshot lists the whole id-indexed maps), unknown id not removed, removal of a healthy node keeps quorum, one change in flight (a requester's time-out does not free the slot).  Tie: in-package engine of raftv2 (overlay) runs the real functions on a journaling in-memory "
            "store: all read back before/after restart and after every proper prefix of each operation's write units; complete "
            "isEnable / entriesToApply families, validate cases, request sequences with attribute re-use after removal and createSnapshotData->"
            "Recover into initial/empty/lagging clusters, the real ChangeMembership path with time-outs and late applies; model evaluated by vm_compute on the same "
            "inputs; direct predicates: restart-same, reference log, ReadAll, replay, crash-consistent, HasWal, quorum, "
            "add/remove accepted, removed-forgotten, snapshot-members, removed-readded, two-proposals (in flight tracked by the check), timeout-frees-slot, snapshot-index.",
    "note": "Trusted: Coq kernel + vm_compute; no axioms, no translator; engine harness/engines/raftwal (+ constructor shim in chain), "
            "generators in this script.  Modelled, not verified: gob/protobuf/JSON encodings opaque; dbkey families disjoint; a DB "
            "transaction / bulk is atomic (C06); raft Status faked; MemoryStorage is the library's.  Hypotheses: batches consecutive, above "
            "the stored commit, commit inside the log (ill-formed batches are modelled literally).  Evidence, not findings: stale inverse "
            "entries; removed members refused by raft id only; snapshot index 0 stops replay.",
    "technique": "Coq proof over Gallina WAL/membership model + vm_compute correspondence against real chain/raftv2 packages",
}

Z = vf.coq_Z
B = lambda b: "true" if b else "false"
MAXI = 12
BLOCKS = [1, 2, 3, 4, 5, 6]
CCIDS = [1, 2, 3]
UNKNOWN = 7777777


# ------------------------------------------------------------------ WAL histories
class WalGen:
    def __init__(self, rng, wild):
        self.rng = rng
        self.wild = wild
        self.ops = []
        self.spec = {}          # index -> (type, term, index, data)   reference log
        self.last = 0
        self.term = 1
        self.inv = {}           # block -> most recent index written
        self.hs = None
        self.snap = None
        self.ident = None
        self.wellformed = True  # reference log meaningful (only well-formed batches so far)
        self.contract = not wild  # what the consensus library guarantees: batches above the stored commit, commit inside the log,
        #                           snapshot term = term of the entry at the snapshot index
        self.commit = 0
        self.base = 0           # ResetWAL's commit index: entries at or below it are compacted away

    def batch(self):
        rng = self.rng
        if rng.random() < 0.3:
            self.term += rng.randrange(1, 3)
        r = rng.random()
        if self.last == 0 or r < 0.45:
            i0 = self.last + 1                       # plain append
        elif r < 0.9:
            lo = self.commit + 1 if self.contract else 1
            i0 = rng.randrange(lo, self.last + 1) if lo <= self.last else self.last + 1   # conflicting overwrite (never of committed entries)
        else:
            i0 = self.last + 1
        n = rng.choice([1, 1, 2, 3, 4])
        if i0 + n - 1 > MAXI:
            i0 = max(1, MAXI - n + 1)
            if i0 > self.last + 1:
                i0 = self.last + 1
                n = max(1, min(n, MAXI - i0 + 1))
            if self.contract and i0 <= self.commit:
                i0 = min(self.commit + 1, self.last + 1)
                n = max(1, min(n, MAXI - i0 + 1))
        items = []
        for j in range(n):
            t = rng.choice([0, 0, 0, 1, 2])
            data = rng.choice(BLOCKS) if t == 0 else (0 if t == 1 else rng.randrange(1, 50))
            ccid = rng.choice([0] + CCIDS) if t == 2 else 0
            items.append([t, self.term, i0 + j, data, ccid])
        if self.wild and rng.random() < 0.25 and i0 + n < MAXI:
            # not what raft would hand over: gap or non-consecutive indices
            k = rng.randrange(len(items))
            items[k][2] = min(MAXI, items[k][2] + rng.randrange(1, 3))
        return items

    def apply_spec(self, items):
        i0 = items[0][2]
        cons = all(it[2] == i0 + j for j, it in enumerate(items))
        if not (cons and 1 <= i0 <= self.last + 1):
            self.wellformed = False
        for i in [i for i in self.spec if i >= i0]:
            del self.spec[i]
        for it in items:
            self.spec[it[2]] = (it[0], it[1], it[2], it[3])
            if it[0] == 0:
                self.inv[it[3]] = it[2]
        self.last = items[-1][2]

    def step(self):
        rng = self.rng
        c = rng.choice(["write"] * 6 + ["save"] * 2 + ["hard", "snap", "ident", "clear", "reset"])
        if c in ("write", "save"):
            items = self.batch()
            newlast = items[-1][2]
            if c == "write":
                self.ops.append(["write", items])
            else:
                # a Ready with entries and a hard state whose commit often covers the new entries
                cm = rng.choice([newlast, newlast, rng.randrange(self.commit, newlast + 1)]) if self.contract else rng.randrange(0, self.last + 2)
                hs = [self.term, rng.randrange(4), cm] if rng.random() < 0.75 else None
                self.ops.append(["save", items] + ([hs] if hs else []))
                if hs and tuple(hs) != (0, 0, 0):
                    self.hs = tuple(hs)
                    self.commit = cm
            self.apply_spec(items)
        elif c == "hard":
            hs = (self.term, rng.randrange(4), rng.randrange(self.commit if self.contract else 0, self.last + 1) if self.last >= self.commit else self.commit)
            self.ops.append(["hard"] + list(hs))
            self.hs = hs
            self.commit = hs[2]
        elif c == "snap":
            if self.contract:
                # a snapshot is taken of applied (committed) entries, never below an earlier snapshot or the reset point
                lo = max(self.snap[0] if self.snap else 0, self.base)
                if lo > min(self.commit, self.last):
                    return
                si = rng.randrange(lo, min(self.commit, self.last) + 1)
                st = self.spec[si][1] if si in self.spec else (self.snap[1] if self.snap and self.snap[0] == si else 0)
            else:
                si, st = rng.randrange(0, self.last + 1), rng.randrange(0, self.term + 1)
            s = (si, st, rng.randrange(1, 9))
            self.ops.append(["snap"] + list(s))
            self.snap = s
        elif c == "ident":
            i = (rng.randrange(1, 5), rng.randrange(1, 9), rng.randrange(1, 9), rng.randrange(1, 9))
            self.ops.append(["ident"] + list(i))
            self.ident = i
        elif c == "clear":
            self.ops.append(["clear"])
            self.spec, self.last, self.hs, self.snap, self.ident, self.commit, self.base = {}, 0, None, None, None, 0, 0
        elif c == "reset":
            t, cm = self.term, rng.randrange(0, min(self.last, 6) + 1)
            self.ops.append(["reset", t, cm])
            self.spec, self.last, self.hs, self.snap, self.ident, self.commit, self.base = {}, cm, (t, 0, cm), (cm, t, 0), None, cm, cm


def coq_items(items):
    return "[" + ";".join("(mk_wentry %d %d %d %d, %d)" % tuple(it) for it in items) + "]"


def coq_wops(op):
    """engine op -> the model's write units of it, in the order the code issues them: the observation after the
    last one is the post state, the observations after the earlier ones are the crash states"""
    k = op[0]
    if k == "write":
        return ["WWrite %s" % coq_items(op[1])]
    if k == "save":
        r = ["WWrite %s" % coq_items(op[1])]
        if len(op) > 2 and tuple(op[2]) != (0, 0, 0):
            r.append("WHard (%d,%d,%d)" % tuple(op[2]))
        return r
    if k == "hard":
        return ["WHard (%d,%d,%d)" % tuple(op[1:4])]
    if k == "snap":
        return ["WSnap (%d,%d,%d)" % tuple(op[1:4])]
    if k == "ident":
        return ["WIdent (%d,%d,%d,%d)" % tuple(op[1:5])]
    if k == "clear":
        return ["WUnit UClearMeta", "WUnit UClearEntries"]
    return ["WUnit UClearMeta", "WUnit UClearEntries", "WHard (%d,0,%d)" % (op[1], op[2]), "WSnap (%d,%d,0)" % (op[2], op[1]),
            "WUnit (USetLast %d)" % op[2]]


def parse_entries(obs, pos, n):
    """decode n enc_rres(wentry) groups starting at pos -> (list of entry tuple|err code, new pos)"""
    res = []
    for _ in range(n):
        if obs[pos] == 0:
            res.append(tuple(obs[pos + 1: pos + 5]))
            pos += 5
        else:
            res.append(("err", obs[pos]))
            pos += 1
    return res, pos


def decode_obs(obs):
    d = {"last": obs[0]}
    pos = 1
    d["ents"], pos = parse_entries(obs, pos, MAXI)
    inv = []
    for _ in BLOCKS:
        if obs[pos] == 0:
            inv.append(obs[pos + 1])
            pos += 2
        else:
            inv.append(None)
            pos += 1
    d["inv"] = inv
    d["entof"], pos = parse_entries(obs, pos, len(BLOCKS))

    def opt(k):
        nonlocal pos
        if obs[pos] == 0:
            pos += 1
            return None
        r = tuple(obs[pos + 1: pos + 1 + k])
        pos += 1 + k
        return r
    d["hs"], d["snap"], d["ident"] = opt(3), opt(3), opt(4)
    d["cc"] = obs[pos: pos + len(CCIDS)]
    pos += len(CCIDS)

    def rents():
        nonlocal pos
        n = obs[pos]
        pos += 1
        l = []
        for _ in range(n):
            t, term, idx = obs[pos: pos + 3]
            pos += 3
            if obs[pos] == 0:
                l.append((t, term, idx, None))
                pos += 1
            else:
                l.append((t, term, idx, obs[pos + 1]))
                pos += 2
        return l
    if obs[pos] == 0:
        pos += 1
        rid, rhs = opt(4), opt(3)
        d["readall"] = (rid, rhs, rents())
    else:
        d["readall"] = ("err", obs[pos])
        pos += 1
    if obs[pos] == 0:
        pos += 1
        d["readall_nil"] = rents()
    else:
        d["readall_nil"] = ("err", obs[pos])
        pos += 1
    # raftServer.replayWAL on this state, ChainDB.HasWal for the queries
    if obs[pos] == 1:
        pos += 1
        sidx, sterm, first, last, lastidx = obs[pos: pos + 5]
        pos += 5
        rhs = opt(3)
        d["replay"] = {"snap": (sidx, sterm), "first": first, "last": last, "lastidx": lastidx, "hs": rhs, "ents": rents()}
    else:
        d["replay"] = obs[pos]          # 0: would not start, 2: panicked
        pos += 1
    d["haswal"] = obs[pos:]
    d["complete"] = True
    return d


# ------------------------------------------------------------------ membership cases
def member(i, name=None, addr=None, peer=None):
    return [i, i if name is None else name, i if addr is None else addr, i if peer is None else peer]


def gen_val_cases(rng, quick):
    cases = []
    for k in range(0, 6):
        applied = [member(i) for i in range(1, k + 1)]
        for removed_ids in ([], [6], [7], [6, 7]):
            removed = [member(i) for i in removed_ids]
            refs = sorted({1, max(k, 1)})
            ids = [0, 6, 9] + refs
            names = [0, 9] + refs
            addrs = [0, 9, 1009] + refs
            peers = [0, 9] + refs
            for i, n, a, p in itertools.product(ids, names, addrs, peers):
                for t in (0, 1, 2):
                    cases.append({"kind": "val", "applied": applied, "removed": removed, "t": t, "m": [i, n, a, p]})
            for t in (0, 1):
                cases.append({"kind": "val", "applied": applied, "removed": removed, "t": t, "m": None})
    if quick:
        cases = rng.sample(cases, 1500)
    # a removed member (id 6) asking to join again under a fresh id with its old name/address/peer id:
    # this is what Cluster.ChangeMembership produces (NewMemberFromAddReq derives the id from the
    # current time), and it is accepted: the refusal of removed members is by raft id only
    for k in (0, 3):
        cases.append({"kind": "val", "applied": [member(i) for i in range(1, k + 1)], "removed": [member(6)],
                      "t": 0, "m": [9, 6, 6, 6], "tag": "readd-fresh-id"})
        cases.append({"kind": "val", "applied": [member(i) for i in range(1, k + 1)], "removed": [member(6)],
                      "t": 0, "m": [6, 6, 6, 6], "tag": "readd-same-id"})
    return cases


def gen_en_cases(rng, quick):
    cases = []
    last, gap = 500, 100
    opts = [(1, last), (0, last), (1, last - gap - 1), (2, 0)]        # healthy, probe, slow by gap, syncing
    for n in range(1, 6):
        for others in itertools.product(opts, repeat=n - 1):
            progs = [[1, 1, last]] + [[i + 2, st, m] for i, (st, m) in enumerate(others)]
            reqs = [(0, 0), (2, 0), (1, 9)] + [(1, i) for i in range(1, n + 1)]
            for t, nid in reqs:
                cases.append({"kind": "en", "sid": 1, "leader": True, "self": 1, "last": last, "gap": gap,
                              "progs": progs, "t": t, "nid": nid})
            # not the leader / not initialised / leader is not part of the progress map
            t, nid = rng.choice(reqs)
            cases.append({"kind": "en", "sid": 1, "leader": False, "self": 1, "last": last, "gap": gap, "progs": progs, "t": t, "nid": nid})
            cases.append({"kind": "en", "sid": 0, "leader": True, "self": 1, "last": last, "gap": gap, "progs": progs, "t": t, "nid": nid})
            cases.append({"kind": "en", "sid": 1, "leader": True, "self": 9, "last": last, "gap": gap, "progs": progs, "t": t, "nid": nid})
    # boundaries of the slow-node gap and small logs
    for m in (last - gap - 2, last - gap - 1, last - gap, last - gap + 1, last, last + 5):
        for st in (0, 1, 2):
            progs = [[1, 1, last], [2, st, m], [3, 1, last]]
            for t, nid in [(0, 0), (1, 2), (1, 3), (1, 1)]:
                cases.append({"kind": "en", "sid": 1, "leader": True, "self": 1, "last": last, "gap": gap, "progs": progs, "t": t, "nid": nid})
    for lastx in (0, 1, 50, 100, 101):
        progs = [[1, 1, lastx], [2, 1, 0], [3, 1, max(lastx - 1, 0)]]
        for t, nid in [(0, 0), (1, 2), (1, 3)]:
            cases.append({"kind": "en", "sid": 1, "leader": True, "self": 1, "last": lastx, "gap": gap, "progs": progs, "t": t, "nid": nid})
    return cases


def gen_seq_cases(rng, quick):
    """request sequences against the real addMember/removeMember: fresh adds, adds duplicating one attribute of an
    applied member, re-adds of removed ids, removes of applied / unknown / removed ids, invalid members; adds with a
    FRESH id that use the name, address or peer id (each, or all) of a member removed earlier, later removed as well;
    marks (the lagging follower's state) and snapshot round trips (createSnapshotData -> encode -> decode -> Recover)
    into the initial configuration, an empty cluster or the lagging follower"""
    cases = []
    for ci in range(150 if quick else 2500):
        k = rng.randrange(0, 4)
        applied = {i: member(i) for i in range(1, k + 1)}       # generator's approximation of the cluster (accepted requests assumed)
        removed = {}
        reqs = []
        fresh = [20]

        def reuse_episode():
            # remove v; add a fresh id using v's name / address / peer id / all; remove it too; [mark]; round trip; re-adds
            if applied and rng.random() < 0.7:
                v = rng.choice(list(applied))
            else:
                v = rng.randrange(1, 7)
                reqs.append([0] + member(v))
                applied[v] = member(v)
            vm = applied.pop(v)
            reqs.append([1, v, 0, 0, 0] if rng.random() < 0.5 else [1] + vm)
            removed[v] = vm
            for _ in range(rng.choice([1, 1, 2])):
                f = fresh[0]
                fresh[0] += 1
                m = [f, f, f, f]
                which = rng.choice([(1,), (2,), (3,), (1, 2, 3), (1, 3)])
                for w in which:
                    m[w] = vm[w]
                reqs.append([0] + m)
                if rng.random() < 0.25:
                    reqs.append([8, 0, 0, 0, 0])
                if rng.random() < 0.85:
                    reqs.append([1, f, 0, 0, 0])
                    removed[f] = m
                else:
                    applied[f] = m
            if rng.random() < 0.3:
                reqs.append([8, 0, 0, 0, 0])
            reqs.append([9, rng.choice([0, 1, 1, 2]), 0, 0, 0])
            for i in rng.sample(list(removed), min(len(removed), 2)):
                reqs.append([0] + removed[i])                   # re-add of a removed id: must be refused

        for _ in range(rng.randrange(6, 14)):
            r = rng.random()
            pool = [i for i in range(1, 7)]
            if r < 0.25:
                j = rng.choice(pool)
                reqs.append([0] + member(j))
                if j not in removed:
                    applied.setdefault(j, member(j))
            elif r < 0.37 and applied:
                j = rng.choice([i for i in pool if i not in applied] or pool)
                m = member(j)
                m[rng.randrange(1, 4)] = rng.choice(list(applied.values()))[rng.randrange(1, 4)]   # duplicate name, address or peer id
                reqs.append([0] + m)
            elif r < 0.45:
                j = rng.choice(pool)
                m = member(j)
                m[rng.randrange(1, 4)] = 0                              # empty attribute: invalid member
                reqs.append([0] + m)
            elif r < 0.70:
                j = rng.choice(pool + list(applied))
                reqs.append([1] + member(j) if j < 20 else [1, j, 0, 0, 0])
                if j in applied:
                    removed[j] = applied.pop(j)
            elif r < 0.74:
                reqs.append([rng.choice([2, 3])] + member(rng.choice(pool)))
            elif r < 0.80:
                reqs.append([8, 0, 0, 0, 0])      # mark: the lagging follower stops here
            elif r < 0.88:
                reqs.append([9, rng.choice([0, 1, 2]), 0, 0, 0])      # snapshot round trip
            elif ci % 2 == 0:
                reuse_episode()
        cases.append({"kind": "seq", "applied": [member(i) for i in range(1, k + 1)], "reqs": reqs})
    return cases


def _reuse(c, r, st):
    """two removed members of this snapshot had the same name, address or peer id"""
    attrs = {m[0]: m for m in c["applied"]}
    for rq, s2 in zip(c["reqs"], r["steps"]):
        if rq[0] == 0 and s2["code"] == 0:
            attrs[rq[1]] = rq[1:]
    ms = [attrs[i] for i in st["snapr"] if i in attrs]
    return any(len({m[f] for m in ms}) != len(ms) for f in (1, 2, 3))


def gen_srv_cases(rng, quick):
    eta, ts, prop = [], [], []
    for applied in range(0, 7):
        for first in range(1, applied + 3):
            for ln in range(0, 6):
                eta.append({"kind": "eta", "appliedidx": applied, "idxs": list(range(first, first + ln))})
    for idx in range(0, 13):
        for snap in range(0, idx + 1):
            for freq in (0, 1, 3, 10):
                for catchup in (0, 1, 5, 100):
                    ts.append({"kind": "ts", "idx": idx, "snap": snap, "freq": freq, "catchup": catchup})
    if quick:
        ts = rng.sample(ts, 250)
    for _ in range(120 if quick else 2000):
        pops = []
        for _ in range(rng.randrange(3, 12)):
            k = rng.choice(["submit", "submit", "make", "after", "after", "take", "timeout"])
            pops.append([k] if k in ("take", "timeout") else [k, rng.randrange(1, 4)])
        prop.append({"kind": "prop", "cap": rng.choice([0, 1, 1, 2]), "pops": pops})
    # the real ChangeMembership path: n members (1 = this node, the leader), health flags, remove requests (waiting ->
    # the requester times out, or not waiting) interleaved with applies of what was handed to raft
    cm = []
    for ci in range(60 if quick else 1500):
        n = rng.randrange(3, 7)
        health = [1] + [rng.choice([1, 1, 1, 0]) for _ in range(n - 1)]
        if ci % 3 == 0:
            n = rng.choice([4, 5])
            health = [1, 1, 1] + [0] * (n - 3)         # removing two healthy members one after the other loses the quorum
        cops = []
        for _ in range(rng.randrange(3, 9)):
            r = rng.random()
            if r < 0.6:
                cops.append(["remove", rng.randrange(2, n + 1), rng.choice([0, 1, 1])])
            else:
                cops.append(["apply"])
        cops += [["apply"], ["apply"], ["apply"]]
        cm.append({"kind": "cm", "health": health, "cops": cops})
    return eta, ts, prop, cm


def coq_member(m):
    return "mk_member %d %d %d %d %s" % (m[0], m[1], m[2], m[3], B(m[2] < 1000))


def parse_lists(out):
    flat = " ".join(out.split())
    res = []
    for m in re.finditer(r"\b(\w+) = (\[[^\]]*\]|nil)\s*:", flat):
        body = m.group(2)
        res.append((m.group(1), [] if body in ("nil", "[]") else re.findall(r"\((\d+)\s*,\s*(\d+)\)|(\d+)", body)))
    return res


def run(ctx):
    pr = ctx.prove()
    rng = ctx.rng
    quick = ctx.tier == "quick"
    ctx.cov["trusted_base"] = ["Coq 8.16.1 kernel + vm_compute", "Go toolchain", "overlay build (VM stub irrelevant here)",
                               "aergo-lib in-memory db", "engine harness/engines/raftwal + constructor shim in package chain",
                               "gob/protobuf/json encodings (opaque)", "case generator checks/C16.py"]
    ctx.assumptions = ["dbkey key families are pairwise disjoint byte strings",
                       "a DB transaction / bulk flush / direct write is one durable unit; crashes between the units of one operation are executed (engine) and covered by crash_prefix_consistent, a crash inside a unit is not",
                       "append batches are as raft hands them over (consecutive indices, first index <= last+1) in the log theorems; "
                       "the model itself is literal for any batch",
                       "raft Status (progress map) is an input (faked in the engine)"]
    eng = os.path.join(vf.HARNESS, "engines/raftwal/zz_verif_c16_engine_test.go")
    shim = os.path.join(vf.HARNESS, "engines/raftwal/zz_verif_chain_raft_shim.go")
    rc, log, binp = ctx.go_test_binary("consensus/impl/raftv2", [eng], "raftv2_c16.test",
                                       overlay_extra={"chain/zz_verif_chain_raft_shim.go": shim})
    if rc != 0:
        raise RuntimeError("C16 engine build failed:\n" + log[-3000:])

    # ---- cases
    gens = []
    corpus = []
    seq_corpus = []
    cdir = os.path.join(ctx.verif, "corpus", "C16")
    for f in sorted(os.listdir(cdir)) if os.path.isdir(cdir) else []:
        if f.endswith(".json"):
            c = json.load(open(os.path.join(cdir, f)))
            if c.get("kind") == "seq":
                seq_corpus += [{"kind": "seq", "applied": x["applied"], "reqs": x["reqs"]} for x in c["cases"]]
                continue
            if c.get("kind") == "cm":
                continue
            g = WalGen(rng, True)
            for op in c["ops"]:
                g.ops.append(op)
                if op[0] in ("write", "save"):
                    g.apply_spec(op[1])
                    if op[0] == "save" and len(op) > 2 and tuple(op[2]) != (0, 0, 0):
                        g.hs = tuple(op[2])
                elif op[0] == "hard":
                    g.hs = tuple(op[1:4])
                elif op[0] == "snap":
                    g.snap = tuple(op[1:4])
                elif op[0] == "ident":
                    g.ident = tuple(op[1:5])
                elif op[0] == "clear":
                    g.spec, g.last, g.hs, g.snap, g.ident = {}, 0, None, None, None
                elif op[0] == "reset":
                    g.spec, g.last, g.hs, g.snap, g.ident = {}, op[2], (op[1], 0, op[2]), (op[2], op[1], 0), None
            g.name = f
            corpus.append(g)
    nw, nwild = (45, 20) if quick else (1500, 600)
    for i in range(nw + nwild):
        g = WalGen(rng, i >= nw)
        ln = rng.randrange(4, 30) if i % 9 else 60
        # replay generation step by step, remembering the expected state after every op
        g.expect = []
        while len(g.ops) < ln:
            g.step()
            g.expect.append((dict(g.spec), g.last, g.hs, g.snap, g.ident, dict(g.inv), g.wellformed))
        gens.append(g)
    for g in corpus:
        g.expect = None
    for g in corpus + gens:
        idn = next((op for op in g.ops if op[0] == "ident"), None)
        n0, p0 = (idn[3], idn[4]) if idn else (1, 1)
        g.qs = [[n0, p0], [n0, p0 + 1], [n0 + 1, p0]]
    wal_cases = [{"kind": "wal", "maxi": MAXI, "blocks": BLOCKS, "ccids": CCIDS, "ops": g.ops, "qs": g.qs} for g in corpus + gens]
    val_cases = gen_val_cases(rng, quick)
    en_cases = gen_en_cases(rng, quick)
    seq_cases = seq_corpus + gen_seq_cases(rng, quick)
    eta_cases, ts_cases, prop_cases, cm_cases = gen_srv_cases(rng, quick)
    cmdir = os.path.join(ctx.verif, "corpus", "C16")
    for f in sorted(os.listdir(cmdir)):
        if f.endswith(".json"):
            cj = json.load(open(os.path.join(cmdir, f)))
            if cj.get("kind") == "cm":
                cm_cases = [{"kind": "cm", "health": x["health"], "cops": x["cops"]} for x in cj["cases"]] + cm_cases
    srv_cases = eta_cases + ts_cases + prop_cases + cm_cases
    allc = wal_cases + val_cases + en_cases + seq_cases + srv_cases
    fin = os.path.join(ctx.workdir, "c16.in")
    fout = os.path.join(ctx.workdir, "c16.out")
    with open(fin, "w") as f:
        for c in allc:
            f.write(json.dumps(c) + "\n")
    rc, log = ctx.run_bin(binp, ["-test.run", "TestVerifC16Engine"], env={"VERIF_IN": fin, "VERIF_OUT": fout})
    if rc != 0:
        raise RuntimeError("C16 engine failed:\n" + log[-3000:])
    res = [json.loads(l) for l in open(fout)]
    if len(res) != len(allc):
        raise RuntimeError("C16 engine: %d results for %d cases" % (len(res), len(allc)))
    wres = res[: len(wal_cases)]
    vres = res[len(wal_cases): len(wal_cases) + len(val_cases)]
    eres = res[len(wal_cases) + len(val_cases): len(wal_cases) + len(val_cases) + len(en_cases)]
    o1 = len(wal_cases) + len(val_cases) + len(en_cases)
    sres = res[o1: o1 + len(seq_cases)]
    xres = res[o1 + len(seq_cases):]
    etares, tsres = xres[: len(eta_cases)], xres[len(eta_cases): len(eta_cases) + len(ts_cases)]
    propres = xres[len(eta_cases) + len(ts_cases): len(eta_cases) + len(ts_cases) + len(prop_cases)]
    cmres = xres[len(eta_cases) + len(ts_cases) + len(prop_cases):]

    pred_fail = []
    stale_inv = 0
    steps_total = 0
    # ---- direct predicates on the WAL observations
    for g, r in zip(corpus + gens, wres):
        steps = r["steps"]
        for si, st in enumerate(steps):
            steps_total += 1
            ops_so_far = g.ops[: si + 1]
            if st.get("p"):
                pred_fail.append(("C16:panic", "panic in a raft WAL operation", {"ops": ops_so_far}))
                break
            if st["pre"] != st["post"]:
                pred_fail.append(("C16:restart-differs", "a restarted node reads a different WAL than the one acknowledged",
                                  {"ops": ops_so_far, "before_restart": st["pre"], "after_restart": st["post"]}))
                break
            if g.expect is None:
                continue
            spec, last, hs, snap, ident, inv, wf = g.expect[si]
            # crash points: what a restarted node would be handed after each prefix of this operation's write units
            # (and after the whole operation) must be a state the consensus library accepts
            if wf and getattr(g, "contract", False):
                bad_c = None
                for ci, cobs in enumerate((st.get("crash") or []) + [st["post"]]):
                    dc = decode_obs(cobs)
                    if dc["ident"] is None or dc["hs"] is None:
                        continue            # HasWal is false: the node does not use this WAL
                    ra_c = dc["readall"]
                    if ra_c[0] == "err":
                        bad_c = (ci, "ReadAll fails with code %d" % ra_c[1], dc["hs"], dc["last"])
                    else:
                        sidx_c = dc["snap"][0] if dc["snap"] else 0
                        if dc["hs"][2] > max(sidx_c + len(ra_c[2]), sidx_c):
                            bad_c = (ci, "stored commit index is beyond the stored log", dc["hs"], dc["last"])
                    if bad_c:
                        break
                if bad_c:
                    nunits = len(st.get("crash") or []) + 1
                    pred_fail.append(("C16:crash-inconsistent", "after a crash inside an operation (prefix of its write units) the restarted node would hand "
                                      "the consensus library an inconsistent state: " + bad_c[1],
                                      {"ops": ops_so_far, "units_of_last_operation": nunits, "units_durable": bad_c[0] + 1,
                                       "hardstate": bad_c[2], "last_index": bad_c[3]}))
                    break
            d = decode_obs(st["post"])
            if not d["complete"]:
                pred_fail.append(("C16:obs", "observation could not be decoded", {"ops": ops_so_far}))
                break
            if (d["hs"], d["snap"], d["ident"]) != (hs, snap, ident):
                pred_fail.append(("C16:roundtrip", "hard state / snapshot / identity not read back as written",
                                  {"ops": ops_so_far, "read": [d["hs"], d["snap"], d["ident"]], "written": [hs, snap, ident]}))
                break
            hw_bad = None
            for q, code in zip(g.qs, d["haswal"]):
                want = 0 if (ident is not None and hs is not None and (ident[2], ident[3]) == tuple(q)) else None
                if (code == 0) != (want == 0):
                    hw_bad = (q, code)
            if hw_bad:
                pred_fail.append(("C16:haswal", "HasWal accepts a WAL whose identity or hard state does not match (or refuses a matching one)",
                                  {"ops": ops_so_far, "query_name_peer": hw_bad[0], "code": hw_bad[1], "identity": ident, "hardstate": hs}))
                break
            for bi, b in enumerate(BLOCKS):
                if d["inv"][bi] != inv.get(b):
                    pred_fail.append(("C16:invert", "block->index map does not point to the most recent write of the block",
                                      {"ops": ops_so_far, "block": b, "read": d["inv"][bi], "expected": inv.get(b)}))
                    break
                i = inv.get(b)
                if i is not None and (spec.get(i) is None or spec[i][0] != 0 or spec[i][3] != b):
                    stale_inv += 1
            if not wf:
                continue
            if d["last"] != last:
                pred_fail.append(("C16:last-index", "last index differs from the reference log",
                                  {"ops": ops_so_far, "read": d["last"], "expected": last}))
                break
            bad = None
            for i in range(1, MAXI + 1):
                got = d["ents"][i - 1]
                want = spec.get(i)
                if want is None:
                    if got != ("err", 1):
                        bad = (i, got, "absent")
                elif tuple(got) != tuple(want):
                    bad = (i, got, want)
            if bad:
                pred_fail.append(("C16:log-entry", "entry read back differs from the reference log (firstn (i0-1) log ++ batch)",
                                  {"ops": ops_so_far, "index": bad[0], "read": bad[1], "expected": bad[2]}))
                break
            ra = d["readall"]
            if ra[0] != "err":
                sidx = snap[0] if snap else 0
                want = [spec.get(i) for i in range(sidx + 1, last + 1)]
                got = ra[2]
                ok = None not in want and len(got) == len(want) and all(
                    (gt[1], gt[2]) == (w[1], w[2]) and ((w[0] == 0 and gt[0] == 0 and gt[3] == w[3]) or
                                                       (w[0] == 1 and gt[0] == 0 and gt[3] is None) or
                                                       (w[0] == 2 and gt[0] == 1 and gt[3] == w[3]))
                    for gt, w in zip(got, want))
                if not ok or ra[1] != hs:
                    pred_fail.append(("C16:readall", "ReadAll does not return the acknowledged log after the snapshot",
                                      {"ops": ops_so_far, "read": got, "expected": want}))
                    break
                rp = d["replay"]
                if rp == 2:
                    pred_fail.append(("C16:replay", "replayWAL panics on a WAL that ReadAll accepts", {"ops": ops_so_far}))
                    break
                if isinstance(rp, dict):
                    # the consensus library is restarted with exactly what ReadAll returned: the acknowledged log after
                    # the snapshot, the stored hard state, a last index equal to the WAL's
                    bad = None
                    if rp["ents"] != got:
                        bad = ("entries", rp["ents"], got)
                    elif rp["hs"] != hs:
                        bad = ("hard state", rp["hs"], hs)
                    elif rp["snap"] != ((snap[0], snap[1]) if snap else (0, 0)):
                        bad = ("snapshot", rp["snap"], snap)
                    elif sidx <= last and (rp["last"] != last or rp["first"] != sidx + 1):
                        bad = ("first/last index", (rp["first"], rp["last"]), (sidx + 1, last))
                    elif got and rp["lastidx"] != got[-1][2]:
                        bad = ("rs.lastIndex", rp["lastidx"], got[-1][2])
                    if bad:
                        pred_fail.append(("C16:replay", "replayWAL does not hand the acknowledged log to the consensus library: " + bad[0],
                                          {"ops": ops_so_far, "got": bad[1], "expected": bad[2]}))
                        break
    # ---- direct predicates on membership decisions
    for c, r in zip(val_cases, vres):
        if r["code"] == 0 and c["m"] is not None:
            m = c["m"]
            if c["t"] == 0:
                dup = any(a[0] == m[0] or a[1] == m[1] or a[2] == m[2] or a[3] == m[3] for a in c["applied"])
                if dup or any(a[0] == m[0] for a in c["removed"]) or m[0] == 0:
                    pred_fail.append(("C16:add-accepted", "add accepted although an attribute is duplicated or the id was removed", c))
            elif c["t"] == 1:
                if not any(a[0] == m[0] for a in c["applied"]) or any(a[0] == m[0] for a in c["removed"]):
                    pred_fail.append(("C16:remove-accepted", "remove of an unknown or already removed member accepted", c))
    for c, r in zip(en_cases, eres):
        if r["code"] == 0 and c["t"] == 1 and c["leader"] and c["sid"] != 0:
            ids = [p[0] for p in c["progs"]]
            if c["nid"] in ids and r["states"]:
                stt = r["states"]
                if stt[ids.index(c["nid"])] == 0:
                    healthy = sum(1 for s in stt if s == 0)
                    n = len(ids)
                    if not (healthy - 1 >= (n - 1) // 2 + 1):
                        pred_fail.append(("C16:quorum", "removal of a healthy node accepted although the remaining healthy nodes lose quorum",
                                          {"case": c, "states": stt}))

    for c, r in zip(seq_cases, sres):
        attrs = {m[0]: m for m in c["applied"]}
        removed_seen = set()
        for si, (rq, st) in enumerate(zip(c["reqs"], r["steps"])):
            ap, rm = set(st["applied"]), set(st["removed"])
            if st["code"] == 0 and rq[0] == 0:
                attrs[rq[1]] = rq[1:]
            if ap & rm:
                pred_fail.append(("C16:removed-is-member", "a removed member id is an applied member again", {"case": c, "step": si, "obs": st}))
                break
            if rq[0] == 9:
                prev = r["steps"][si - 1] if si else {"applied": [m[0] for m in c["applied"]], "removed": []}
                if (sorted(st.get("snapm") or []) != sorted(prev["applied"]) or sorted(st.get("snapr") or []) != sorted(prev["removed"])
                        or len(st.get("snapm") or []) != st["lenm"] or len(st.get("snapr") or []) != st["lenr"]):
                    pred_fail.append(("C16:snapshot-members-incomplete", "the snapshot data does not list exactly the members / removed members "
                                      "of the id-indexed maps", {"case": c, "step": si, "obs": st, "before": prev}))
                if any(x != 3 for x in st.get("probe") or []) or not all(st.get("isrem") or []):
                    pred_fail.append(("C16:removed-readded-after-snapshot", "after a snapshot round trip an id removed earlier is no longer known as "
                                      "removed / an AddNode change for it is not refused with ErrCCAlreadyRemoved",
                                      {"case": c, "step": si, "obs": st}))
            if not removed_seen <= rm:
                pred_fail.append(("C16:removed-forgotten", "a removed member id disappeared from the removed set" +
                                  (" after a snapshot round trip (createSnapshotData -> Recover)" if rq[0] == 9 else ""),
                                  {"case": c, "step": si, "obs": st}))
                break
            removed_seen = rm
            ms = [attrs[i] for i in ap if i in attrs]
            if len(ms) != len(ap) or any(len({m[f] for m in ms}) != len(ms) for f in (1, 2, 3)):
                pred_fail.append(("C16:duplicate-members", "two applied members share a name, address or peer id (or an unknown id is applied)",
                                  {"case": c, "step": si, "obs": st}))
                break

    for c, r in zip(eta_cases, etares):
        if r["obs"][0] == 2:
            pred_fail.append(("C16:entries-to-apply", "entriesToApply panics on committed entries that start at or before appliedIndex+1", {"case": c}))
        if r["obs"][0] == 1:
            want = [i for i in c["idxs"] if i > c["appliedidx"]]
            if r["obs"][1:] != want:
                pred_fail.append(("C16:entries-to-apply", "entriesToApply does not return exactly the committed entries above appliedIndex",
                                  {"case": c, "got": r["obs"][1:], "expected": want}))
    for c, r in zip(ts_cases, tsres):
        idx, snap, freq, cu = c["idx"], c["snap"], c["freq"], c["catchup"]
        if r["obs"][0] == 1:
            sidx, comp, newsnap = r["obs"][1], r["obs"][2], r["obs"][3]
            want = idx - cu if idx > cu else 1
            # the in-memory log was compacted to [snap] by the set-up; compaction only moves forward
            ok = sidx == idx and idx - snap > freq and comp == max(want, snap) and (newsnap == idx if want > snap else newsnap == snap)
            if cu <= freq and not (newsnap == idx and snap < comp <= idx):
                ok = False
            if not ok:
                pred_fail.append(("C16:snapshot-index", "triggerSnapshot stores a snapshot / compacts at a wrong index", {"case": c, "obs": r}))
        elif idx != 0 and idx - snap > freq:
            pred_fail.append(("C16:snapshot-index", "triggerSnapshot takes no snapshot although more than snapFrequency entries were connected", {"case": c, "obs": r}))
    # in flight = accepted by submitProposal and not yet applied (tracked here, not read from the implementation's slot)
    for c, r in zip(prop_cases, propres):
        flight = set()
        prev_saved = 0
        for op, st in zip(c["pops"], r["steps"]):
            if op[0] == "submit" and st["code"] == 0:
                if flight:
                    pred_fail.append(("C16:two-proposals", "a membership change was accepted while another one is in flight (accepted, "
                                      "not yet applied)", {"case": c, "steps": r["steps"], "in_flight": sorted(flight)}))
                    break
                flight.add(op[1])
            if op[0] == "after":
                flight.discard(op[1])
            if op[0] == "timeout" and (st["code"] != 4 or st["saved"] != prev_saved):
                pred_fail.append(("C16:timeout-frees-slot", "a requester's time-out changed the proposal slot (the change is still in the raft "
                                  "log and will be applied)", {"case": c, "steps": r["steps"]}))
                break
            prev_saved = st["saved"]
    for c, r in zip(cm_cases, cmres):
        health = c["health"]
        flight = []
        members = set(range(1, len(health) + 1))

        def quorum_ok(ms):
            return sum(1 for i in ms if health[i - 1]) >= len(ms) // 2 + 1
        start_ok = quorum_ok(members)
        reported = False
        for si, (op, st) in enumerate(zip(c["cops"], r["steps"])):
            if op[0] == "remove" and st["code"] in (0, 4):
                if flight and not reported:
                    reported = True
                    pred_fail.append(("C16:two-proposals", "ChangeMembership accepted a request while an earlier accepted change is still in "
                                      "flight (handed to raft, not yet applied; its requester had timed out)",
                                      {"case": c, "step": si, "steps": r["steps"], "in_flight": list(flight)}))
                flight.append(op[1])
            if op[0] == "apply" and st["code"] != 3 and flight:
                flight.pop(0)
            if st["code"] in (98, 99):
                pred_fail.append(("C16:two-proposals", "unexpected error in the ChangeMembership path", {"case": c, "step": si, "steps": r["steps"]}))
                break
            if start_ok and not quorum_ok(set(st["applied"])):
                pred_fail.append(("C16:quorum", "after the accepted removals were applied the healthy members are no longer a quorum of the "
                                  "configuration", {"case": c, "step": si, "steps": r["steps"]}))
                break
    for c, r in zip(prop_cases, propres):
        saved = 0
        for op, st in zip(c["pops"], r["steps"]):
            if op[0] == "submit" and st["code"] == 0 and saved != 0:
                pred_fail.append(("C16:two-proposals", "a second membership change was accepted while one is in flight", {"case": c, "steps": r["steps"]}))
                break
            if op[0] == "make" and saved != 0 and st["code"] == 0:
                pred_fail.append(("C16:two-proposals", "makeProposal succeeds while a membership change is in flight", {"case": c, "steps": r["steps"]}))
                break
            if op[0] == "after" and saved != 0 and op[1] != saved and st["saved"] != saved:
                pred_fail.append(("C16:proposal-slot", "the completion of another request freed the proposal slot", {"case": c, "steps": r["steps"]}))
                break
            saved = st["saved"]

    # ---- model / implementation correspondence
    corr_broken = None
    hdr = ["From Coq Require Import ZArith NArith List Bool.", "From Verif Require Import RaftWal.Wal RaftWal.Membership RaftWal.Server.",
           "Import ListNotations.", "Open Scope N_scope."]

    def num(x):
        return str(UNKNOWN if x < 0 else x)
    items = []
    unit_mismatch = None
    for g, r in zip(corpus + gens, wres):
        steps = []
        for op, st in zip(g.ops, r["steps"]):
            if st.get("p"):
                break
            mops = coq_wops(op)
            crash = st.get("crash") or []
            if len(crash) != len(mops) - 1:
                unit_mismatch = unit_mismatch or {"ops": g.ops[: len(steps) + 1], "op": op, "units_in_model": len(mops),
                                                  "units_written_by_the_code": len(crash) + 1}
                crash = (crash + [[UNKNOWN]] * len(mops))[: len(mops) - 1]
            for mo, cob in zip(mops[:-1], crash):
                steps.append("(%s, [%s])" % (mo, ";".join(num(x) for x in cob)))
            steps.append("(%s, [%s])" % (mops[-1], ";".join(num(x) for x in st["post"])))
        items.append("(%d%%nat, [%s], [%s], [%s], [%s])" % (MAXI, ";".join(map(str, BLOCKS)), ";".join(map(str, CCIDS)),
                                                             ";".join("(%d,%d)" % tuple(q) for q in g.qs), ";\n ".join(steps)))
    bad_w = []
    SH = 25
    from concurrent.futures import ThreadPoolExecutor

    def wal_shard(s):
        txt = hdr + [
            "Definition xtrace : Type := (nat * list N * list N * list (N * N) * list (wop * list N))%type.",
            "Definition skipping_check (t : xtrace) : nat :=",
            "  let '(maxi, hashes, ccids, qs, tr) := t in",
            "  (fix go (w : wal) (tr : list (wop * list N)) (i : nat) : nat :=",
            "     match tr with",
            "     | [] => O",
            "     | (o, ob) :: tl => match wstep w o with",
            "                        | None => S i",
            "                        | Some w' => match ob with",
            "                                     | [] => go w' tl i",
            "                                     | _ => if Wal.list_eqbN (observe w' maxi hashes ccids ++ observe_srv w' qs) ob then go w' tl (S i) else S i",
            "                                     end",
            "                        end",
            "     end) wal_empty tr O.",
            "Definition traces : list xtrace := [%s]." % ";\n".join(items[s: s + SH]),
            "Definition MW := Eval vm_compute in (fix f (l : list xtrace) (i : nat) : list (nat * nat) :=",
            "   match l with [] => [] | t :: tl => match skipping_check t with O => f tl (S i) | S j => (i, j) :: f tl (S i) end end) traces O.",
            "Print MW."]
        rc, out = ctx.coq_eval("c16_wal_%d" % s, "\n".join(txt))
        flat = " ".join(out.split())
        m = re.search(r"MW = (\[.*?\]|nil)\s*:", flat)
        if rc != 0 or not m:
            return None, ("WAL correspondence could not be evaluated", out[-2500:])
        found = re.findall(r"\((\d+)(?:%nat)?\s*,\s*(\d+)(?:%nat)?\)", m.group(1))
        if not found and m.group(1) not in ("[]", "nil"):
            return None, ("could not parse the list of disagreeing WAL histories", m.group(1)[:300])
        return [(s + int(a), int(b)) for a, b in found], None

    SHM = 1500

    def mem_shard(s):
        txt = hdr + ["Definition vcases : list vcase := [%s]." % ";\n".join(vitems[s: s + SHM]),
                     "Definition MV := Eval vm_compute in mismatches_from vcase_ok vcases 0.", "Print MV.",
                     "Definition ecases : list ecase := [%s]." % ";\n".join(eitems[s: s + SHM]),
                     "Definition ME := Eval vm_compute in mismatches_from ecase_ok ecases 0.", "Print ME."]
        rc, out = ctx.coq_eval("c16_mem_%d" % s, "\n".join(txt))
        flat = " ".join(out.split())
        mv = re.search(r"MV = (\[.*?\]|nil)\s*:", flat)
        me = re.search(r"ME = (\[.*?\]|nil)\s*:", flat)
        if rc != 0 or not mv or not me:
            return None, ("membership correspondence could not be evaluated", out[-2500:])
        return ([s + int(x) for x in re.findall(r"\d+", mv.group(1))], [s + int(x) for x in re.findall(r"\d+", me.group(1))]), None

    # membership case lists
    vitems = []
    for c, r in zip(val_cases, vres):
        m = "None" if c["m"] is None else "Some (%s)" % coq_member(c["m"])
        vitems.append("([%s], [%s], %d, %s, %d)" % (";".join(coq_member(a) for a in c["applied"]),
                                                    ";".join(coq_member(a) for a in c["removed"]), c["t"], m, r["code"]))
    eitems = []
    for c, r in zip(en_cases, eres):
        eitems.append("(%d, %s, %d, %d, %d, [%s], %d, %d, %d, [%s])" % (
            c["sid"], B(c["leader"]), c["self"], c["last"], c["gap"],
            ";".join("mk_prog %d %d %d" % tuple(p) for p in c["progs"]), c["t"], c["nid"], r["code"],
            ";".join(str(x) for x in r["states"])))
    sitems = []
    for c, r in zip(seq_cases, sres):
        steps = []
        for rq, st in zip(c["reqs"], r["steps"]):
            if rq[0] == 9:
                steps.append("(SRestart %d, %d, [%s], [%s])" % (rq[1], st["code"], ";".join(map(str, st["applied"])), ";".join(map(str, st["removed"]))))
                continue
            if rq[0] == 8:
                steps.append("(SMark, 0, [%s], [%s])" % (";".join(map(str, st["applied"])), ";".join(map(str, st["removed"]))))
                continue
            con = "RAdd" if rq[0] == 0 else "RRemove"
            if rq[0] > 1:
                continue        # other request types are covered by the validate family (model requests are add/remove)
            steps.append("(SReq (%s (%s)), %d, [%s], [%s])" % (con, coq_member(rq[1:]), st["code"], ";".join(map(str, st["applied"])),
                                                              ";".join(map(str, st["removed"]))))
        sitems.append("([%s], [%s])" % (";".join(coq_member(a) for a in c["applied"]), ";\n ".join(steps)))
    xitems_eta = ["(%d, [%s], [%s])" % (c["appliedidx"], ";".join(map(str, c["idxs"])), ";".join(map(str, r["obs"]))) for c, r in zip(eta_cases, etares)]
    xitems_ts = ["(%d, %d, %d, %d, %d, [%s])" % (c["idx"], c["snap"], c["freq"], c["catchup"], c["snap"], ";".join(map(str, r["obs"]))) for c, r in zip(ts_cases, tsres)]
    POP = {"submit": "PSubmit %d", "make": "PMake %d", "after": "PAfter %d", "take": "PTake", "timeout": "PTimeout"}
    xitems_prop = ["(%d%%nat, [%s])" % (c["cap"], ";".join("(%s, %d, %d, %d)" % ((POP[op[0]] if len(op) == 1 else POP[op[0]] % op[1]), st["code"], st["saved"], st["chan"])
                                                          for op, st in zip(c["pops"], r["steps"]))) for c, r in zip(prop_cases, propres)]
    bad_s = []

    def seq_shard(s):
        txt = hdr + ["Definition scases : list sscase := [%s]." % ";\n".join(sitems[s: s + 400]),
                     "Definition MS := Eval vm_compute in mismatches_from sscase_ok scases 0.", "Print MS."]
        if s == 0:
            txt += ["Definition ecs : list (N * list N * list N) := [%s]." % ";\n".join(xitems_eta),
                    "Definition MX1 := Eval vm_compute in mismatches_from eta_case_ok ecs 0.", "Print MX1.",
                    "Definition tcs : list (N * N * N * N * N * list N) := [%s]." % ";\n".join(xitems_ts),
                    "Definition MX2 := Eval vm_compute in mismatches_from ts_case_ok tcs 0.", "Print MX2.",
                    "Definition pcs : list (nat * list (pop * N * N * N)) := [%s]." % ";\n".join(xitems_prop),
                    "Definition MX3 := Eval vm_compute in mismatches_from pcase_ok pcs 0.", "Print MX3."]
        rc, out = ctx.coq_eval("c16_seq_%d" % s, "\n".join(txt))
        flat = " ".join(out.split())
        ms = re.search(r"MS = (\[.*?\]|nil)\s*:", flat)
        if rc != 0 or not ms:
            return None, ("membership sequence correspondence could not be evaluated", out[-2500:])
        if s == 0:
            for nm, fam, cs_, rs_ in (("MX1", "entriesToApply", eta_cases, etares), ("MX2", "triggerSnapshot", ts_cases, tsres),
                                      ("MX3", "proposal slot", prop_cases, propres)):
                mx = re.search(nm + r" = (\[.*?\]|nil)\s*:", flat)
                if not mx:
                    return None, (fam + " correspondence could not be evaluated", out[-2500:])
                badx = [int(x) for x in re.findall(r"\d+", mx.group(1))]
                if badx:
                    return None, ("model/implementation differ on %d %s cases" % (len(badx), fam), [dict(case=cs_[i], impl=rs_[i]) for i in badx[:3]])
        return [s + int(x) for x in re.findall(r"\d+", ms.group(1))], None

    bad_v, bad_e = [], []
    with ThreadPoolExecutor(max_workers=6) as pool:
        fs = [pool.submit(seq_shard, s) for s in range(0, len(sitems), 400)]
        fw = [pool.submit(wal_shard, s) for s in range(0, len(items), SH)]
        fm = [pool.submit(mem_shard, s) for s in range(0, max(len(vitems), len(eitems)), SHM)]
        for f in fw:
            r, err = f.result()
            if r is None:
                corr_broken = corr_broken or err
            else:
                bad_w += r
        for f in fm:
            r, err = f.result()
            if r is None:
                corr_broken = corr_broken or err
            else:
                bad_v += r[0]
                bad_e += r[1]
        for f in fs:
            r, err = f.result()
            if r is None:
                corr_broken = corr_broken or err
            else:
                bad_s += r
    if bad_s and not corr_broken:
        corr_broken = ("model/implementation differ on %d membership request sequences" % len(bad_s),
                       [dict(case=seq_cases[i], impl=sres[i]) for i in bad_s[:3]])
    if unit_mismatch and not corr_broken:
        corr_broken = ("an operation writes a different number of DB units than the model's decomposition", unit_mismatch)
    if bad_w and not corr_broken:
        allg = corpus + gens
        bad_w.sort(key=lambda x: (len(allg[x[0]].ops), x[1]))
        t, sidx = bad_w[0]
        corr_broken = ("model/implementation differ on %d WAL histories" % len(bad_w),
                       {"smallest": {"ops": allg[t].ops[: sidx + 1], "impl_obs": wres[t]["steps"][min(sidx, len(wres[t]["steps"]) - 1)]}})
    if bad_v and not corr_broken:
        corr_broken = ("model/implementation differ on %d validateChangeMembership cases" % len(bad_v),
                       [dict(case=val_cases[i], impl=vres[i]) for i in bad_v[:4]])
    if bad_e and not corr_broken:
        corr_broken = ("model/implementation differ on %d isEnableChangeMembership cases" % len(bad_e),
                       [dict(case=en_cases[i], impl=eres[i]) for i in bad_e[:4]])

    # ---- evidence
    seq_steps = sum(len(c["reqs"]) for c in seq_cases)
    ctx.cov["evaluations"] = steps_total + len(val_cases) + len(en_cases) + seq_steps + len(srv_cases)
    ctx.cov["traces_validated_against_impl"] = len(wal_cases) + len(val_cases) + len(en_cases) + len(seq_cases)
    kinds = {}
    trunc = {"append": 0, "overwrite_shorter": 0, "overwrite_equal": 0, "overwrite_longer": 0, "ill_formed": 0}
    for g in gens:
        last = 0
        for op in g.ops:
            kinds[op[0]] = kinds.get(op[0], 0) + 1
            if op[0] in ("write", "save"):
                i0, n = op[1][0][2], len(op[1])
                cons = all(it[2] == i0 + j for j, it in enumerate(op[1]))
                if not cons or i0 > last + 1:
                    trunc["ill_formed"] += 1
                elif i0 == last + 1:
                    trunc["append"] += 1
                elif i0 + n - 1 < last:
                    trunc["overwrite_shorter"] += 1
                elif i0 + n - 1 == last:
                    trunc["overwrite_equal"] += 1
                else:
                    trunc["overwrite_longer"] += 1
                last = op[1][-1][2]
            elif op[0] == "clear":
                last = 0
            elif op[0] == "reset":
                last = op[2]
    vcodes, ecodes = {}, {}
    for r in vres:
        vcodes[r["code"]] = vcodes.get(r["code"], 0) + 1
    for r in eres:
        ecodes[r["code"]] = ecodes.get(r["code"], 0) + 1
    ctx.cov["distinct_nontrivial"] = len({json.dumps(g.ops) for g in gens}) + len({json.dumps(c, sort_keys=True) for c in val_cases}) + len(en_cases)
    ctx.cov["rule"] = ("WAL: one case = one operation of a history, everything read back before and after a restart; distinct = distinct "
                       "histories; membership: distinct (cluster composition, removed set, request) and (progress vector, request) cases")
    ctx.cov["exhaustive"] = False   # the isEnableChangeMembership family is complete; WAL histories and (quick) validate cases are sampled
    ctx.cov["input_distribution"] = {"wal_histories": len(gens), "wal_corpus": len(corpus), "wal_steps": steps_total, "op_kinds": kinds,
                                     "batch_shapes": trunc, "stale_inverse_entries_observed": stale_inv,
                                     "validate_cases": len(val_cases), "validate_result_codes": vcodes,
                                     "validate_family": "applied = first k of 5 members (k=0..5) x removed in {[],[6],[7],[6,7]} x candidate id/name/"
                                                        "address/peer from {empty, duplicate of first, duplicate of last, removed id, fresh, invalid address} x "
                                                        "{add, remove, other}" + (" (1500 sampled)" if quick else " (complete)"),
                                     "crash_states_observed": sum(len(st.get("crash") or []) for r in wres for st in r["steps"]),
                                     "entries_to_apply_cases": len(eta_cases), "trigger_snapshot_cases": len(ts_cases), "proposal_slot_sequences": len(prop_cases),
                                     "change_membership_sequences": len(cm_cases),
                                     "change_membership_accepted": sum(1 for r in cmres for st2 in r["steps"] if st2["code"] in (0, 4)),
                                     "change_membership_timeouts": sum(1 for r in cmres for st2 in r["steps"] if st2["code"] == 4),
                                     "change_membership_refused_pending": sum(1 for r in cmres for st2 in r["steps"] if st2["code"] == 1),
                                     "replay_runs": sum(1 for g, r in zip(corpus + gens, wres) for st in r["steps"] if not st.get("p") and isinstance(decode_obs(st["post"])["replay"], dict)),
                                     "request_sequences": len(seq_cases), "request_sequence_steps": seq_steps,
                                     "snapshot_round_trips": sum(1 for c in seq_cases for rq in c["reqs"] if rq[0] == 9),
                                     "round_trips_with_removed_members": sum(1 for r in sres for st in r["steps"] if st.get("snapr")),
                                     "round_trips_after_attribute_reuse_by_removed_members": sum(
                                         1 for c, r in zip(seq_cases, sres) for rq, st in zip(c["reqs"], r["steps"])
                                         if rq[0] == 9 and st.get("snapr") and _reuse(c, r, st)),
                                     "removed_id_probes_after_round_trip": sum(len(st.get("probe") or []) for r in sres for st in r["steps"]),
                                     "request_sequence_accepted": sum(1 for r in sres for st in r["steps"] if st["code"] == 0),
                                     "enable_cases": len(en_cases), "enable_result_codes": ecodes,
                                     "enable_family": "all progress vectors over {healthy, probe, slow by gap, syncing} for 1..5 nodes (complete) x "
                                                      "{add, remove each node, remove unknown, other type} + non-leader / uninitialised / gap boundaries"}
    if gens:
        ctx.sample({"wal_ops": gens[0].ops[:6], "obs_after_first_op": wres[len(corpus)]["steps"][0]["post"]})
    if val_cases:
        ctx.sample({"validate_case": val_cases[0], "impl": vres[0]})
    if en_cases:
        ctx.sample({"enable_case": en_cases[len(en_cases) // 2], "impl": eres[len(en_cases) // 2]})
    fresh = [r["code"] for c, r in zip(val_cases, vres) if c.get("tag") == "readd-fresh-id"]
    same = [r["code"] for c, r in zip(val_cases, vres) if c.get("tag") == "readd-same-id"]
    ctx.cov["input_distribution"]["readd_removed_member"] = {"same_raft_id_result_codes": same, "fresh_raft_id_result_codes": fresh}
    ctx.notes.append("re-adding a removed member is refused by raft id only (codes %s = ErrCCAlreadyRemoved); the same name/address/peer id "
                     "under a fresh id — what Cluster.ChangeMembership builds, the id being derived from the current time — is accepted "
                     "(codes %s)" % (same, fresh))
    ctx.notes.append("inverse block->index entries of truncated/cleared blocks are kept by the code: %d stale entries observed in this run "
                     "(GetRaftEntryOfBlock then returns ErrNoWalEntry or the entry that replaced it)" % stale_inv)

    # ---- decide
    seen = set()
    for key, what, rep in pred_fail:
        if key in seen:
            continue
        seen.add(key)
        ctx.finding(key, what, rep)
    real_fail = [k for k in seen if ctx.known_match(k) is None]
    if not pr["ok"] and not real_fail:
        ctx.violation("proof obligation no longer checks: %s" % pr["broken"],
                      {"theorem_or_file": pr["broken"], "log": pr["log"][-3000:]}, no_input=True)
    if corr_broken and not real_fail:
        ctx.violation("correspondence broken: " + corr_broken[0],
                      {"correspondence": corr_broken[0], "cases": corr_broken[1]}, no_input=True)

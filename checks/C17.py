"""C17 Block sync delivers a gap-free ascending linked chain from a true common ancestor.
Proof: coq/Properties/C17.v over coq/Syncer/*.v.
Correspondence: (a) the real BlockFetcher/BlockProcessor driven one loop iteration at a time
with scripted adversarial responses, every emitted message and every queue compared with
the Gallina state machine (vm_compute); (b) the real Syncer/Finder/HashFetcher/BlockFetcher
goroutines under the repository's StubSyncer on generated chain pairs with peer faults,
checked by the direct predicate (contiguity, linkage, ancestor, termination, restart)."""
import json
import os
import re
import vf

META = {
    "text": "25 theorems (Coq, no axioms). FULL, for every event sequence with adversarial peers (model of the BlockFetcher+"
            "BlockProcessor loop): blocks handed to the chain service have heights ancestor+1, +2, ... (no gap, no duplicate), each "
            "is the block the hash list names and a child of the previous one (first: of the ancestor); success stop only for the acknowledged "
            "target and at most once; every error leaves the loop; a stale AddBlockRsp can only stop the session; the retry head is always "
            "schedulable; the processor never sits on a poppable chunk; HashFetcher hands over consecutive ranges (discharges the hash-list "
            "premise) and its goroutine exits on quit after any response/timer order; a new session starts after any stop, old sequence numbers "
            "are dropped; light-scan result is on both main chains; binary search = highest common block; the full scan "
            "covers every height below the lowest anchor. PARTIAL: 'stops or completes / never deadlocks' - no liveness proof, supported "
            "by the fair-completion predicate and watchdogs. REFUTED (kept visible, code repaired): unrepaired pop test (F16); timer drain "
            "idiom. Tie on every run: step engine (real BlockFetcher/BlockProcessor, loop body replayed, every message and queue diffed with "
            "the model); real Syncer/Finder/HashFetcher/BlockFetcher goroutines under StubSyncer (contiguity, linkage, clean session end, "
            "restart; Finder result diffed with the model); chain-side engine (two real ChainServices: getAnchorsNew / findAncestor with "
            "stored side branches, diffed with the model, ancestor on both main chains, full scan = highest common); real verifySeq per "
            "message type + stale messages of session 1 injected into session 2; gen_seqcases.go -> Gen/SeqCases.v reflection.",
    "note": "Trusted: Coq kernel + vm_compute (no axioms); engines, generators, predicates of checks/C17.py; the 20-line select-loop body "
            "copied into the step driver, hfCh given capacity 1, symbolic block ids (Hash field set directly) in the step engine; "
            "StubBlockChain as the peers' chain in the syncer engines (the real findAncestor/getAnchorsNew are tied by the chain-side engine "
            "only). Modelled rather than verified: HashFetcher (tied end to end only), session layer, the HashFetcher loop/timer model; not "
            "modelled: p2p block/hash receivers, Finder timers and channel hand-over, goroutine liveness. Wall-clock timeouts in the real runs "
            "are tolerated by the predicates.",
    "technique": "Coq invariant proofs over a Gallina event-driven state machine + step-by-step vm_compute correspondence against the "
                 "real BlockFetcher/BlockProcessor + real-goroutine and real-ChainService engines with direct predicates",
}

ANSWER_FAULTS = ["err", "empty", "short", "long", "unlinked", "wrongno", "wrongpeer", "wronghash", "stale", "stale"]
ACK_FAULTS = ["err", "nohash", "wrongno", "wronghash", "stale", "early"]


# ------------------------------------------------------------------ step cases
def gen_step_case(rng, big=False):
    a = rng.choice([0, 0, 3, 10])
    n = rng.randrange(1, 13 if not big else 25)
    T = a + n
    X = lambda no: [no, 1000 + no, 1000 + no - 1]
    Y = lambda no: [no, 2000 + no, (2000 + no - 1)]
    blocks = [X(i) for i in range(a + 1, T + 1)]
    lst = [1000 + i for i in range(a + 1, T + 1)]
    kind = "honest"
    r = rng.random()
    if r < 0.25 and n >= 2:
        j = rng.randrange(a + 1, T)            # last X height
        kind = "splice"
        for i in range(j + 1, T + 1):
            y = Y(i)
            if i == j + 1 and rng.random() < 0.5:
                y[2] = 1000 + j                # the first Y block really is a child of X_j (honest fork)
                kind = "fork-linked"
            blocks.append(y)
            lst[i - a - 1] = 2000 + i
    elif r < 0.33 and n >= 2:
        j = rng.randrange(a + 1, T)
        kind = "jump"
        for i in range(j + 1, T + 1):
            blocks.append([i + 2, 2000 + i, 2000 + i - 1 if i > j + 1 else 1000 + j])
            lst[i - a - 1] = 2000 + i
    fetch = rng.choice([1, 2, 2, 3, 4])
    case = {"anc": X(a), "target": T, "npeers": rng.choice([1, 2, 2, 3]), "fetch": fetch,
            "maxtasks": rng.choice([1, 2, 5]), "maxpending": rng.choice([1, 2, 10]),
            "list": lst, "blocks": blocks, "_kind": kind}
    hreq = rng.choice([2, 3, 4, 6, 12])
    ev = [{"ev": "hashset", "n": hreq}, {"ev": "tick", "whichs": []}]
    nev = rng.randrange(6, 50 if not big else 110)
    faulty = rng.random() < 0.6
    for _ in range(nev):
        q = rng.random()
        if q < 0.42:
            f = rng.choice(ANSWER_FAULTS) if (faulty and rng.random() < 0.25) else "ok"
            ev.append({"ev": "answer", "which": rng.choice([0, 0, 0, 1, 1, 2, 3, 4]), "fault": f})
        elif q < 0.75:
            f = rng.choice(ACK_FAULTS) if (faulty and rng.random() < 0.08) else "ok"
            ev.append({"ev": "ack", "fault": f})
        elif q < 0.87:
            ev.append({"ev": "hashset", "n": hreq})
        elif q < 0.997:
            ev.append({"ev": "tick", "whichs": [rng.randrange(4) for _ in range(rng.choice([0, 0, 0, 1, 1, 2]))]})
        else:
            ev.append({"ev": "quit"})
    if kind in ("honest", "fork-linked", "splice") and rng.random() < 0.5:
        ev = [e for e in ev if e["ev"] != "quit"] + fair_tail(n, hreq)
        case["_tail"] = True
    case["events"] = ev
    return case


def fair_tail(n, hreq):
    """Fair completion: every outstanding request is answered honestly, every submission acknowledged, hash sets keep
    coming, ticks fire (no further timeouts).  A session must have stopped (success or error) by the end of it."""
    tail = []
    for _ in range(3 * n + 12):
        tail += [{"ev": "answer", "which": 0, "fault": "ok"}, {"ev": "ack", "fault": "ok"}, {"ev": "hashset", "n": hreq},
                 {"ev": "tick", "whichs": []}]
    return tail


def corpus_cases(ctx, sub):
    d = os.path.join(ctx.verif, "corpus", "C17")
    res = []
    if os.path.isdir(d):
        for f in sorted(os.listdir(d)):
            if f.startswith(sub) and f.endswith(".json"):
                c = json.load(open(os.path.join(d, f)))
                c["_name"] = f
                res.append(c)
    return res


def lN(xs):
    return "[" + ";".join("%d" % x for x in xs) + "]"


def cblk(b):
    return "(mkBlk %d %d %d)" % (b[0], b[1], b[2])


def coq_event(e):
    k = e["ev"]
    if k == "hashset":
        return "EHashSet %d %s" % (e["start"], lN(e.get("ids") or []))
    if k == "chunk":
        return "EChunk %d [%s] %s" % (e["peer"], ";".join(cblk(b) for b in (e.get("blocks") or [])), "true" if e.get("err") else "false")
    if k == "addrsp":
        return "EAddRsp %d %s %s" % (e["no"], "None" if e.get("nohash") else "(Some %d)" % e["hash"], "true" if e.get("err") else "false")
    if k == "tick":
        return "ETick %s" % lN(e.get("timed") or [])
    if k == "quit":
        return "EQuit"
    return None


def coq_out(o):
    if o["k"] == "req":
        return "OReq %d %s" % (o["peer"], lN(o.get("ids") or []))
    if o["k"] == "add":
        return "OAdd %s" % cblk(o["b"])
    return "OStop %d" % o.get("err", 0)


def coq_view(s):
    run = "[" + ";".join("(%d,%d,%d%%nat)" % (r[0], r[1] if r[1] >= 0 else 999, r[2]) for r in s["running"]) + "]"
    ret = "[" + ";".join("(%d,%d%%nat)" % (r[0], r[1]) for r in s["retry"]) + "]"
    fre = "[" + ";".join("(%d,%d%%nat)" % (r[0], r[1]) for r in s["free"]) + "]"
    cur = "None" if s["cur"] < 0 else "(Some %d)" % s["cur"]
    return "(%s,%s,%s,%s,%d%%nat,%s,%s,%d,%s)" % (run, lN(s["pending"]), ret, fre, s["bad"], lN(s["connq"]), cur, s["prev"],
                                                "true" if s["stopped"] else "false")


def coq_step_case(c, obs):
    steps = []
    for o in obs:
        e = coq_event(o["cev"])
        if e is None:
            continue                # nop: nothing was applied
        steps.append("(%s,([%s],%s))" % (e, ";".join(coq_out(x) for x in o["outs"]), coq_view(o["state"])))
    return "(%s, mkCfg %d %d %d %d, %d%%nat, [%s])" % (cblk(c["anc"]), c["fetch"], c["maxtasks"], c["maxpending"], c["target"],
                                                      c["npeers"], ";\n ".join(steps))


def step_predicate(c, obs):
    """Contiguity / linkage / stop discipline on the messages the real objects sent."""
    bad = []
    a, ah = c["anc"][0], c["anc"][1]
    prev_no, prev_hash = a, ah
    oks = 0
    stopped = False
    acked_target = False
    last_add = None
    for si, o in enumerate(obs):
        if stopped and o["outs"]:
            bad.append(("output-after-loop-exit", si, o["outs"]))
        ce = o["cev"]
        if ce["ev"] == "addrsp" and not ce.get("err") and not ce.get("nohash") and last_add and \
                ce["no"] == last_add[0] == c["target"] and ce["hash"] == last_add[1]:
            acked_target = True
        for x in o["outs"]:
            if x["k"] == "add":
                no, h, p = x["b"]
                if no != prev_no + 1:
                    bad.append(("delivered-gap-or-duplicate", si, {"prev_no": prev_no, "block": x["b"]}))
                if p != prev_hash:
                    bad.append(("delivered-not-child-of-previous", si, {"prev_hash": prev_hash, "block": x["b"]}))
                idx = no - a - 1
                if not (0 <= idx < len(c["list"])) or c["list"][idx] != h:
                    bad.append(("delivered-not-named-by-hash-list", si, {"block": x["b"]}))
                prev_no, prev_hash = no, h
                last_add = (no, h)
            elif x["k"] == "stop" and x.get("err", 0) == 0:
                oks += 1
                if not acked_target:
                    bad.append(("success-stop-before-target-acknowledged", si, x))
        if o["state"]["stopped"]:
            stopped = True
    if oks > 1:
        bad.append(("more-than-one-success-stop", len(obs), oks))
    if c.get("_tail") and not stopped and oks == 0:
        last = obs[-1]["state"]
        bad.append(("no-stop-although-every-request-was-answered", len(obs) - 1,
                    {"running": last["running"], "pending": last["pending"], "retry": last["retry"], "free": last["free"],
                     "connq": last["connq"], "cur": last["cur"], "prev": last["prev"]}))
    return bad


# ------------------------------------------------------------------ real cases
def gen_real_cases(ctx):
    rng = ctx.rng
    quick = ctx.tier == "quick"
    cases = []
    M = 8 if quick else 12
    # all fork points / length differences (finder + complete pipeline, honest peers)
    for common in range(0, M + 1):
        for ll in range(common, M + 1):
            for rl in range(common, M + 1):
                if rl <= ll and not (rl == ll == common):
                    if rl < ll or rl == ll:
                        pass
                if rl <= ll and rng.random() > 0.15:
                    continue            # the request is ignored when the target is not above the local best
                if quick and rng.random() > 0.14:
                    continue
                cases.append({"common": common, "locallen": ll, "remotelen": rl, "target": rl, "spliceat": 0,
                              "fullscan": rng.random() < 0.5, "fetch": rng.choice([1, 2, 3]), "hashreq": rng.choice([2, 3, 5]),
                              "peers": [{"chain": "remote", "mode": "ok", "after": 0}] * rng.choice([1, 2, 3]),
                              "lieanc": -1, "second": False, "staleadd": False, "timeoutms": 2000})
    # long chains: anchors every 16 blocks
    for _ in range(6 if quick else 40):
        rl = rng.randrange(17, 41)
        common = rng.randrange(0, rl)
        ll = rng.randrange(common, min(40, common + 20) + 1)
        cases.append({"common": common, "locallen": ll, "remotelen": rl, "target": rl, "spliceat": 0,
                      "fullscan": rng.random() < 0.3, "fetch": rng.choice([2, 4, 7]), "hashreq": rng.choice([3, 8]),
                      "peers": [{"chain": "remote", "mode": "ok", "after": 0}] * 2,
                      "lieanc": -1, "second": False, "staleadd": False, "timeoutms": 2000})
    # peer faults, splices, lying ancestor answers, second sessions
    modes = ["silent", "error", "short", "long", "unlinked", "wrongno", "slow"]
    for _ in range(16 if quick else 300):
        rl = rng.randrange(4, 13)
        common = rng.randrange(0, rl)
        ll = rng.randrange(common, rl)
        np = rng.choice([1, 2, 3])
        peers = [{"chain": "remote", "mode": rng.choice(modes) if rng.random() < 0.5 else "ok", "after": rng.randrange(0, 3)}
                 for _ in range(np)]
        cases.append({"common": common, "locallen": ll, "remotelen": rl, "target": rl,
                      "spliceat": rng.randrange(common + 1, rl) if (rng.random() < 0.3 and rl - common >= 2) else 0,
                      "fullscan": rng.random() < 0.3, "fetch": rng.choice([1, 2, 3]), "hashreq": rng.choice([2, 3, 5]),
                      "peers": peers, "lieanc": rng.choice([-1, -1, -1, -1, -2, rng.randrange(0, rl + 1)]),
                      "second": rng.random() < 0.5, "staleadd": rng.random() < 0.5, "timeoutms": 150})
    # the HashFetcher's response timer (shortened) against a slow answer to the K-th hash request: the answer reaches the
    # mailbox directly in front of / behind the timeout stop, or a little before / at / after the timer
    T = 250
    slow = [("hold", 0), ("after", 0)] + [("delay", int(T * f)) for f in (0.5, 0.9, 1.0, 1.1, 1.6)]
    if quick:
        slow = slow[:2] + rng.sample(slow[2:], 2)
    for mode, d in slow:
        for k in ((1, 2) if not quick else (rng.choice([1, 2]),)):
            cases.append({"common": 0, "locallen": rng.randrange(0, 3), "remotelen": 12, "target": 12, "spliceat": 0, "fullscan": False,
                          "fetch": 2, "hashreq": 4, "peers": [{"chain": "remote", "mode": "ok", "after": 0}] * 2, "lieanc": -1,
                          "second": True, "staleadd": False, "timeoutms": 2000,
                          "hftimeoutms": T, "hashk": k, "hashmode": mode, "hashdelayms": d})
    # the anchor list stops above genesis and the peer keeps answering GetSyncAncestor with ancestors below the lowest anchor (ignored by
    # the finder) every timeout/3: the wait has ONE deadline, the session must end with the timeout error within 3 timeouts
    for _ in range(1 if quick else 6):
        rl = rng.randrange(8, 13)
        cases.append({"common": rng.randrange(2, 5), "locallen": rng.randrange(5, 8), "remotelen": rl, "target": rl, "spliceat": 0,
                      "fullscan": False, "fetch": 2, "hashreq": 3, "peers": [{"chain": "remote", "mode": "ok", "after": 0}], "lieanc": -1,
                      "second": True, "staleadd": False, "timeoutms": 500, "ancflood": 14})
    # two sessions on one Syncer: in the second one a poisoned copy carrying the FIRST session's sequence number precedes every
    # sequenced response (ancestor / hash-by-number / hashes / chunks / finder result / close / stop)
    for _ in range(4 if quick else 40):
        rl = rng.randrange(5, 13)
        common = rng.randrange(0, rl)
        ll = rng.randrange(common, rl)
        cases.append({"common": common, "locallen": ll, "remotelen": rl, "target": rl, "spliceat": 0, "fullscan": rng.random() < 0.75,
                      "fetch": rng.choice([1, 2, 3]), "hashreq": rng.choice([2, 3, 5]),
                      "peers": [{"chain": "remote", "mode": "ok", "after": 0}] * rng.choice([1, 2]), "lieanc": -1,
                      "second": True, "staleadd": False, "timeoutms": 2000, "stale2": True})
    return cases


def real_predicate(c, o):
    bad = []
    for tag in ("s1", "s2"):
        s_ = o.get(tag)
        if s_ and s_.get("clean"):
            bad.append((tag + ":session-end-not-clean", {"what": s_["clean"], "stop": s_["stop"]}))
    for tag, s, tgt in (("s1", o["s1"], c["target"]), ("s2", o.get("s2"), None)):
        if s is None:
            continue
        if s["stop"] in ("not-started", "skipped"):
            continue
        if s["stop"] == "hang":
            bad.append((tag + ":no-stop-within-watchdog", s))
            continue
        adds = s["adds"] or []
        for x, y in zip(adds, adds[1:]):
            if y["no"] != x["no"] + 1:
                bad.append((tag + ":delivered-gap-or-duplicate", [x, y]))
            if y["prev"] != x["hash"]:
                bad.append((tag + ":delivered-not-child-of-previous", [x, y]))
        if adds:
            if s["ancestor"] >= 0 and adds[0]["no"] != s["ancestor"] + 1:
                bad.append((tag + ":first-delivery-not-above-ancestor", [s["ancestor"], adds[0]]))
        for x in adds:
            if not x["onhash"]:
                bad.append((tag + ":delivered-not-named-by-hash-list", x))
        if s["stop"] == "ok":
            want = tgt if tgt is not None else None
            if want is not None and (not adds or adds[-1]["no"] != want):
                bad.append((tag + ":success-without-reaching-target", s))
        if s["ancestor"] >= 0 and s["started"]:
            if tag == "s1" and c["lieanc"] == -1 and not (s["anc_on_local"] and s["anc_on_remote"]):
                bad.append((tag + ":ancestor-not-common", s))
    s1 = o["s1"]
    if s1["stop"] == "skipped":
        return bad
    if c.get("ancflood") and s1["started"] and s1["stop"] != "hang":
        if s1["stop"] == "ok" or s1["durms"] > 3 * c["timeoutms"]:
            bad.append(("s1:ancestor-wait-not-bounded-by-one-timeout", {"stop": s1["stop"], "durms": s1["durms"], "timeoutms": c["timeoutms"]}))
    honest = all(p["mode"] in ("ok", "slow") for p in c["peers"]) and c["spliceat"] == 0 and c["lieanc"] == -1 and not c.get("hashk") and not c.get("ancflood")
    # a wall-clock timeout of the finder / fetch timers on a loaded machine is not a property failure
    timed_out = "imeout" in s1["stop"]
    if honest and s1["started"] and s1["stop"] != "ok" and not timed_out:
        bad.append(("s1:honest-peers-but-no-success", s1))
    if honest and c["fullscan"] and s1["started"] and s1["ancestor"] >= 0 and s1["ancestor"] != min(c["common"], c["locallen"], c["remotelen"]):
        bad.append(("s1:fullscan-not-highest-common", [s1["ancestor"], c["common"]]))
    if c.get("stale2") and o.get("s2") is not None and o["s2"]["started"] and o["s2"]["stop"] not in ("hang", "skipped") \
            and "imeout" not in o["s2"]["stop"]:
        s2 = o["s2"]
        # the stale messages must leave no trace: same ancestor and deliveries as without them
        adds2 = s2["adds"] or []
        if s2["stop"] != "ok":
            bad.append(("s2:stale-message-of-previous-session-changed-the-outcome", {"stop": s2["stop"], "injected": s2["injected"]}))
        if c["fullscan"] and s2["ancestor"] != s2["hc"]:
            bad.append(("s2:stale-message-changed-the-ancestor", {"ancestor": s2["ancestor"], "highest_common": s2["hc"]}))
        if adds2 and s2["ancestor"] >= 0 and [a["no"] for a in adds2] != list(range(s2["ancestor"] + 1, s2["ancestor"] + 1 + len(adds2))):
            bad.append(("s2:stale-message-changed-the-deliveries", {"adds": [a["no"] for a in adds2]}))
    if c.get("second") and o.get("s2") is not None:
        s2 = o["s2"]
        if s1["stop"] != "hang" and not s2["started"] and s2["local_best"] < min(40, c["remotelen"] + 4):
            bad.append(("s2:new-session-did-not-start", s2))
        if s2["started"] and not c.get("staleadd") and s2["stop"] not in ("ok",) and c["spliceat"] == 0 and "imeout" not in s2["stop"]:
            bad.append(("s2:clean-second-session-failed", s2))
    return bad


# ------------------------------------------------------------------ chain side (real getAnchorsNew / findAncestor)
def gen_chain_cases(ctx):
    rng = ctx.rng
    quick = ctx.tier == "quick"
    cases = []
    def side_set(m):
        sides = []
        for _ in range(rng.choice([0, 1, 1, 2])):
            f = rng.randrange(0, max(1, m - 1))
            k = rng.randrange(1, max(2, m - f))
            if f + k < m:
                sides.append([f, k])
        return sides
    for _ in range(60 if quick else 1500):
        m = rng.randrange(2, 14)
        sides = side_set(m)
        on = rng.randrange(-1, len(sides))
        top = m if on < 0 else sides[on][0] + sides[on][1]
        common = rng.randrange(0, top + 1)
        ln = common + rng.randrange(0, 8)
        extra = [rng.choice([-1, -2] + list(range(len(sides)))) for _ in range(rng.choice([0, 0, 1, 2]))]
        cases.append({"m": m, "sides": sides, "on": on, "common": common, "len": ln, "extra": extra})
    # anchor lists that do not reach genesis (asking chain higher than 496)
    for _ in range(8 if quick else 80):
        m = rng.randrange(20, 60)
        f = rng.randrange(0, 10)
        k = rng.randrange(5, m - f)
        on = rng.choice([-1, 0, 0])
        top = m if on < 0 else f + k
        common = rng.randrange(0, top + 1)
        ln = rng.randrange(497, 560)
        cases.append({"m": m, "sides": [[f, k]], "on": on, "common": common, "len": ln, "extra": rng.choice([[], [], [0], [-1]])})
    # the full-scan window: fork points at every position around and below the lowest anchor (asking chain > 496 high)
    offs = list(range(-18, 3)) if not quick else sorted(rng.sample(range(-18, 3), 6))
    for off in offs:
        ln = rng.randrange(520, 640)
        lowest = ln - 496
        common = max(0, lowest + off)
        m = lowest + rng.randrange(5, 30)
        cases.append({"m": m, "sides": [], "on": -1, "common": min(common, m), "len": ln, "extra": []})
    return cases


def finder_end_to_end(o):
    """lightscan answer of the real findAncestor, else the full scan over [0, lastNo-1] as the Finder does it
    (binarySearch of finder.go against the answering node's main chain).  Returns the ancestor height or None."""
    if o["ancno"] >= 0:
        return o["ancno"]
    lc, rc = o["asker"], o["main"]
    if o["lastno"] == 0:
        return None                     # LastAnchor-1 wraps: the session ends with an error (modelled, ex_fullscan_wraps)
    left, right, last = 0, o["lastno"] - 1, None
    while left <= right:
        mid = (left + right) // 2
        if mid < len(lc) and mid < len(rc) and lc[mid] == rc[mid]:
            left, last = mid + 1, mid
        else:
            if mid == 0:
                break
            right = mid - 1
    return last


def chain_predicate(c, o):
    bad = []
    if o["err"]:
        bad.append(("chain:" + o["err"][:40], o))
    own = [a for a in o["anchors"][:len(o["anchors"]) - len(c["extra"])]]
    if own and o["lastno"] != own[-1] % 100000:
        bad.append(("chain:lastanchor-is-not-the-height-of-the-last-anchor", {"lastno": o["lastno"], "last_anchor_height": own[-1] % 100000}))
    # end to end: the ancestor the Finder ends up with is the highest common block whenever the anchor comparison finds
    # none (and at least a common block at or above the lowest anchor otherwise)
    hc = max([h for h in range(min(len(o["asker"]), len(o["main"]))) if o["asker"][h] == o["main"][h]] or [-1])
    got = finder_end_to_end(o)
    if o["ancno"] < 0 and o["lastno"] > 0 and not c["extra"] and got != (hc if hc >= 0 else None):
        bad.append(("chain:fullscan-ancestor-not-highest-common", {"ancestor": got, "highest_common": hc, "lastno": o["lastno"]}))
    if o["ancno"] >= 0:
        if not o["on_answerer_main"]:
            bad.append(("chain:ancestor-not-on-answering-main-chain", {"ancno": o["ancno"], "ancid": o["ancid"]}))
        if not o["on_asker_main"]:
            bad.append(("chain:ancestor-not-on-asking-main-chain", {"ancno": o["ancno"], "ancid": o["ancid"]}))
    else:
        # completeness: no anchor was on the answering node's main chain
        mainset = set(o["main"])
        if any(a in mainset for a in o["anchors"]):
            bad.append(("chain:common-anchor-not-reported", {"anchors": o["anchors"][:8]}))
    return bad


def coq_chain_case(c, o):
    extra = []
    for x in c["extra"]:
        if x < 0:
            extra.append(7777777)
        elif x < len(c["sides"]):
            extra.append((2 + x) * 100000 + c["sides"][x][0] + c["sides"][x][1])
    return "(%s,%s,%s,%s,%d,%s,%d)" % (lN(o["asker"]), lN(o["main"]), lN(extra), lN(o["anchors"]), o["lastno"],
                                      vf.coq_Z(o["ancno"]) + "%Z", max(o["ancid"], 0))


def run_engine(ctx, binp, test, cases, tag, timeout=1700):
    fin = os.path.join(ctx.workdir, tag + ".in")
    fout = os.path.join(ctx.workdir, tag + ".out")
    with open(fin, "w") as f:
        for c in cases:
            f.write(json.dumps({k: v for k, v in c.items() if not k.startswith("_")}) + "\n")
    rc, log = ctx.run_bin(binp, ["-test.run", test, "-test.timeout", "28m"], env={"VERIF_IN": fin, "VERIF_OUT": fout}, timeout=timeout)
    if rc != 0:
        raise RuntimeError("syncer engine %s failed:\n%s" % (test, log[-3000:]))
    obs = [json.loads(l) for l in open(fout)]
    if len(obs) != len(cases):
        raise RuntimeError("syncer engine %s: %d observations for %d cases" % (test, len(obs), len(cases)))
    return obs


def eval_step_cases(ctx, cases, obs):
    res = []
    shard = 200
    for s in range(0, len(cases), shard):
        items = [coq_step_case(c, o) for c, o in zip(cases[s:s + shard], obs[s:s + shard])]
        txt = ["From Coq Require Import ZArith NArith List Bool.", "From Verif Require Import Syncer.Model Syncer.Eval.",
               "Import ListNotations.", "Open Scope N_scope.",
               "Definition cases : list scase := [%s]." % ";\n".join(items),
               "Definition M := Eval vm_compute in map case_bad_step cases.", "Print M."]
        rc, out = ctx.coq_eval("steps_%d" % (s // shard), "\n".join(txt))
        if rc != 0:
            return None, out
        flat = " ".join(out.split())
        m = re.search(r"M = (\[[^\]]*\]|nil)", flat)
        if not m:
            return None, out
        body = m.group(1)
        vals = [] if body in ("nil", "[]") else [int(x) for x in re.findall(r"\d+", body)]
        if len(vals) != len(items):
            return None, out
        res += vals
    return res, ""


def gen_seqcases(ctx, repo=None):
    """Translator: go/ast over <repo>/types/message and syncer/syncerservice.go -> coq/Gen/SeqCases.v."""
    src = os.path.join(ctx.verif, "gen", "gen_seqcases.go")
    outp = os.path.join(ctx.verif, "coq", "Gen", "SeqCases.v")
    tmp = os.path.join(ctx.workdir, "SeqCases.v")
    rc, log = vf.sh(["go", "run", src, repo or ctx.repo, tmp], cwd=os.path.join(ctx.verif, "gen"), env=ctx.goenv(), timeout=300)
    if rc != 0:
        raise RuntimeError("gen_seqcases failed:\n" + log[-2000:])
    with vf.Lock("coq"):
        vf.write_if_changed(outp, open(tmp).read())
    return log


def run(ctx):
    quick = ctx.tier == "quick"
    rng = ctx.rng
    seq_log = gen_seqcases(ctx)
    pr = ctx.prove()
    # coq/Gen/SeqCases.v is shared: after proving against another tree put the translation of /repo back
    if os.path.realpath(ctx.repo) != "/repo" and os.path.isdir("/repo/syncer"):
        try:
            gen_seqcases(ctx, "/repo")
        except RuntimeError:
            pass
    ctx.cov["verifyseq_translation"] = seq_log.strip().split("\n")[-3:]
    ctx.cov["trusted_base"] = ["Coq 8.16.1 kernel + vm_compute", "Go toolchain", "overlay build of package syncer",
                               "engine harness/engines/syncer (step driver = copy of the select-loop body; StubSyncer hub for real runs)",
                               "generators and direct predicates in checks/C17.py"]
    ctx.assumptions = ["hash sets reach the BlockFetcher as consecutive ranges starting at ancestor+1 (HashFetcher)",
                       "one event = one iteration of the BlockFetcher select loop (single goroutine owns all modelled state)",
                       "deadlock-freedom of channels/goroutines is not proved (watchdog runs only)",
                       "behaviour of /repo with F16 fixed"]
    rc, log, binp = ctx.go_test_binary("syncer", [os.path.join(vf.HARNESS, "engines/syncer/zz_verif_c17_engine_test.go")], "syncer_c17.test")
    if rc != 0:
        raise RuntimeError("syncer engine build failed:\n" + log[-3000:])

    # ---- step engine: correspondence + direct predicate
    scases = corpus_cases(ctx, "step")
    ncorpus = len(scases)
    for i in range(90 if quick else 5000):
        scases.append(gen_step_case(rng, big=(not quick and i % 5 == 0)))
    sobs = run_engine(ctx, binp, "TestVerifC17Steps", scases, "steps")
    pred_fail = []
    for ci, (c, o) in enumerate(zip(scases, sobs)):
        for name, si, det in step_predicate(c, o):
            pred_fail.append((name, "step", ci, si, det))
    bad, out = eval_step_cases(ctx, scases, sobs)
    corr_broken = None
    if bad is None:
        corr_broken = ("fetcher/processor correspondence could not be evaluated", out[-2000:])
    else:
        diffs = [(ci, b - 1) for ci, b in enumerate(bad) if b]
        if diffs:
            ci, si = min(diffs, key=lambda x: (x[1], len(scases[x[0]]["events"])))
            applied = [o for o in sobs[ci] if o["cev"]["ev"] != "nop"]
            corr_broken = ("model/implementation differ at event %d of a case (%d differing cases)" % (si, len(diffs)),
                           {"case": {k: v for k, v in scases[ci].items() if k != "events"},
                            "concrete_events": [o["cev"] for o in applied[:si + 1]],
                            "impl_outs": applied[si]["outs"], "impl_state": applied[si]["state"],
                            "impl_state_before": applied[si - 1]["state"] if si else None})
    nsteps = sum(1 for o in sobs for x in o if x["cev"]["ev"] != "nop")

    # ---- real goroutines
    rcases = corpus_cases(ctx, "real") + gen_real_cases(ctx)
    robs = run_engine(ctx, binp, "TestVerifC17Real", rcases, "real")
    for ci, (c, o) in enumerate(zip(rcases, robs)):
        for name, det in real_predicate(c, o):
            pred_fail.append((name, "real", ci, 0, det))

    # ---- session layer: the real verifySeq on every sequenced message type (old / current / future number)
    fseq = os.path.join(ctx.workdir, "seq.out")
    rcq, logq = ctx.run_bin(binp, ["-test.run", "TestVerifC17Seq"], env={"VERIF_OUT": fseq}, timeout=300)
    if rcq != 0:
        raise RuntimeError("syncer engine TestVerifC17Seq failed:\n" + logq[-2000:])
    seqobs = json.loads(open(fseq).read())
    ctx.cov["verifyseq_types_checked"] = sorted(seqobs)
    for name, r in sorted(seqobs.items()):
        if r != [False, True, False]:       # Session model: recv (MSeq q) forwards iff q = seq
            pred_fail.append(("stale-%s-passes-the-sequence-check" % name, "seq", 0, 0, {"type": name, "old/current/future accepted": r}))
    if len(seqobs) < 7:
        pred_fail.append(("verifyseq-engine-incomplete", "seq", 0, 0, sorted(seqobs)))

    # ---- Finder correspondence on the honest real cases
    fitems, fidx = [], []
    for ci, (c, o) in enumerate(zip(rcases, robs)):
        s1 = o["s1"]
        if c["lieanc"] != -1 or c["spliceat"] != 0 or s1["stop"] in ("not-started", "skipped", "hang") or "imeout" in s1["stop"]:
            continue
        lc = [1000 + i for i in range(0, c["common"] + 1)] + [2000 + i for i in range(c["common"] + 1, c["locallen"] + 1)]
        rc = [1000 + i for i in range(0, c["remotelen"] + 1)]
        if s1["ancestor"] >= 0:
            ob = s1["ancestor"]
        elif "Already sync done" in s1["stop"]:
            ob = -2
        elif "finder internal" in s1["stop"]:
            ob = -1
        else:
            ob = -3
        fitems.append("(%s,%s,%d,%s,%s)" % (lN(lc), lN(rc), c["target"], "true" if c["fullscan"] else "false", vf.coq_Z(ob) + "%Z"))
        fidx.append(ci)
    if fitems:
        txt = ["From Coq Require Import ZArith NArith List Bool.", "From Verif Require Import Syncer.Model Syncer.Eval.",
               "Import ListNotations.", "Open Scope N_scope.",
               "Definition fcases : list fcase := [%s]." % ";\n".join(fitems),
               "Definition M := Eval vm_compute in bad_indices finder_case_ok fcases 0.", "Print M."]
        rc_, out = ctx.coq_eval("finder", "\n".join(txt))
        flat = " ".join(out.split())
        m = re.search(r"M = (\[[^\]]*\]|nil)", flat)
        if rc_ != 0 or not m:
            corr_broken = corr_broken or ("finder correspondence could not be evaluated", out[-2000:])
        else:
            body = m.group(1)
            badf = [] if body in ("nil", "[]") else [int(x) for x in re.findall(r"\d+", body)]
            if badf:
                ci = fidx[badf[0]]
                corr_broken = corr_broken or ("finder model/implementation differ on %d chain pairs" % len(badf),
                                              {"case": rcases[ci], "observed": robs[ci]["s1"]})
    ctx.cov["finder_cases_compared_with_model"] = len(fitems)

    # ---- chain side: real getAnchorsNew (asking node) and findAncestor (answering node, with stored side branches)
    rc2, log2, chbin = ctx.go_test_binary("chain", [os.path.join(vf.HARNESS, "engines/syncer/zz_verif_c17_chain_engine_test.go")], "chain_c17.test")
    if rc2 != 0:
        raise RuntimeError("chain engine build failed:\n" + log2[-3000:])
    ccases = corpus_cases(ctx, "chain") + gen_chain_cases(ctx)
    cobs = run_engine(ctx, chbin, "TestVerifC17Chain", ccases, "chain")
    for ci, (c, o) in enumerate(zip(ccases, cobs)):
        for name, det in chain_predicate(c, o):
            pred_fail.append((name, "chain", ci, 0, det))
    txt = ["From Coq Require Import ZArith NArith List Bool.", "From Verif Require Import Syncer.Model Syncer.Eval.",
           "Import ListNotations.", "Open Scope N_scope.",
           "Definition acases : list acase := [%s]." % ";\n".join(coq_chain_case(c, o) for c, o in zip(ccases, cobs)),
           "Definition M := Eval vm_compute in bad_indices anchor_case_ok acases 0.", "Print M."]
    rc_, out = ctx.coq_eval("chainside", "\n".join(txt))
    flat = " ".join(out.split())
    m = re.search(r"M = (\[[^\]]*\]|nil)", flat)
    if rc_ != 0 or not m:
        corr_broken = corr_broken or ("chain-side correspondence could not be evaluated", out[-2000:])
    else:
        body = m.group(1)
        badc = [] if body in ("nil", "[]") else [int(x) for x in re.findall(r"\d+", body)]
        if badc:
            ci = badc[0]
            corr_broken = corr_broken or ("anchor list / findAncestor differ from the Finder model on %d cases" % len(badc),
                                          {"case": ccases[ci], "observed": {k: v for k, v in cobs[ci].items() if k not in ("asker", "main")}})
    ctx.cov["chain_side_cases"] = len(ccases)

    kinds = {}
    for c, o in zip(scases, sobs):
        for x in o:
            k = x["cev"]["ev"]
            outs = "+".join(sorted({y["k"] + (":%d" % y.get("err", 0) if y["k"] == "stop" else "") for y in x["outs"]})) or "-"
            kinds[k + "/" + outs] = kinds.get(k + "/" + outs, 0) + 1
    stops = {}
    for o in robs:
        st = o["s1"]["stop"].split(":")[0]
        stops[st] = stops.get(st, 0) + 1
    ctx.cov["evaluations"] = nsteps + len(rcases) + len(ccases)
    ctx.cov["traces_validated_against_impl"] = len(scases) + len(rcases)
    ctx.cov["distinct_nontrivial"] = len(kinds) + len({(c["common"], c["locallen"], c["remotelen"]) for c in rcases})
    ctx.cov["rule"] = ("step engine: one evaluation = one loop iteration whose sent messages and all queues were compared with the model; "
                       "distinct = (event kind, kinds of messages sent) classes; real runs: one evaluation = one complete session (plus an "
                       "optional second one), distinct = (fork height, local length, remote length) triples")
    ctx.cov["input_distribution"] = {"step_cases": len(scases), "step_corpus": ncorpus, "step_events": nsteps,
                                     "hash_list_kinds": {k: sum(1 for c in scases if c.get("_kind") == k)
                                                         for k in ("honest", "splice", "fork-linked", "jump")},
                                     "event_output_kinds": kinds, "real_cases": len(rcases), "real_session1_outcomes": stops,
                                     "real_second_sessions": sum(1 for o in robs if o.get("s2")),
                                     "real_total_deliveries": sum(len(o["s1"]["adds"] or []) for o in robs)}
    if scases:
        ctx.sample({"step_case": {k: v for k, v in scases[0].items() if k != "events"}, "first_events": [o["cev"] for o in sobs[0][:4]],
                    "first_outs": [o["outs"] for o in sobs[0][:4]]})
    if rcases:
        ctx.sample({"real_case": rcases[0], "obs": robs[0]})

    # ---- decide
    reported = set()
    for name, kind, ci, si, det in pred_fail:
        key = "C17:%s:%s" % (name, kind)
        if key in reported:
            continue
        reported.add(key)
        c = {"engine": "TestVerifC17Seq"} if kind == "seq" else (scases if kind == "step" else ccases if kind == "chain" else rcases)[ci]
        rep = {"case": c, "detail": det}
        if kind == "step":
            rep["concrete_events"] = [o["cev"] for o in sobs[ci][:si + 1]]
        elif kind == "chain":
            rep["observed"] = {k: v for k, v in cobs[ci].items() if k not in ("asker", "main")}
        elif kind == "seq":
            rep["observed"] = seqobs
        else:
            rep["observed"] = robs[ci]
        ctx.finding(key, "sync property '%s' fails on the real syncer (%s engine)" % (name, kind), rep)
        if len(reported) >= 4:
            break
    if not pr["ok"] and not pred_fail:
        ctx.violation("proof obligation no longer checks: %s" % pr["broken"],
                      {"theorem_or_file": pr["broken"], "log": pr["log"][-3000:]}, no_input=True)
    if corr_broken and not pred_fail:
        ctx.violation("correspondence broken: " + corr_broken[0], {"correspondence": corr_broken[0], "detail": corr_broken[1]},
                      no_input=True)

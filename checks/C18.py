"""C18 P2P boundary: bounded framing, handshake only with same-chain peers, content-addressed blocks.
Proof: coq/Properties/C18.v over coq/P2P/{Frame,Handshake,BlockId}.v.
Correspondence: real V030ReadWriter.WriteMsg/ReadMsg, the four real checkRemoteStatus functions
(0.3.1, 0.3.2, 0.3.3, 2.0.0) and types.Block.BlockHash vs the Gallina models evaluated by vm_compute
on the same cases; direct predicates on the implementation's own observations."""
import json
import os
import re
import shutil
import vf

META = {
    "text": "Theorems (Coq, no axioms): a well-formed message written by WriteMsg is read back identically whatever follows it "
            "(read_write_roundtrip, read_all_roundtrip, write_msg_injective); for every byte stream ReadMsg requests at most the "
            "configured maximum (read_alloc_bounded), never panics (read_total), every strict prefix of a frame gives a header or "
            "payload error (read_truncated_clean) and a header announcing more than the maximum is refused before allocation "
            "(read_oversize_clean). The 2.0.0, 0.3.3 and 0.3.2 handshakers accept a status iff its chain id decodes to the local one "
            "(all five fields, at the height used), genesis and peer id are equal (+ address class, 32-byte best hash and "
            "certificates for 2.0.0); per-field refusal theorems with the exact error; negotiation picks the best common version in "
            "the order of the accepted list. REFUTED on the current code and kept visible: the still accepted 0.3.1 handshaker has "
            "no genesis check and is reachable by negotiation (handshake_v031_no_genesis_refuted, F20; partial: chain id and peer "
            "id); a received block is filed under the sender-supplied Hash field, not under the digest of its header "
            "(stored_under_own_digest_refuted, forged_poisons_genuine_refuted, F8; partial: empty or consistent field). "
            "Both findings are reproduced on the real code on every run and reported as KNOWN-FINDING. "
            "Also proved and tied: the wire handshake header (readWireHSRequest on arbitrary bytes never panics, requests <= 68 bytes, count 0 or > 16 "
            "refused; inbound answer = best common version or error magic; outbound side follows the listener's version: F20 outbound form, refuted), "
            "totality of the four status checks on decoded statuses with nil / empty fields (check_total) and the 2.0.0 role/certificate rule "
            "(agent_accepted_iff), the block receive path (BlocksChunkReceiver delivers exactly the requested identifiers in order; syncManager "
            "duplicate suppression; F8 forms on both, refuted), and that a maximal legal block always fits in one frame.",
    "note": "Trusted: Coq kernel/vm_compute; the engines and this generator; Go runtime.MemStats for the allocation observation "
            "(compared tolerantly: model alloc <= measured heap delta <= model alloc*9/8 + 16 KiB). Modelled rather than verified: "
            "the stream is a finite byte list (EOF at its end; timeouts, partial writes and io errors other than EOF are outside), "
            "protobuf decoding of the status, CheckAddressType and certificate checking are oracles (one bit each), "
            "FindBestP2PVersion is modelled and tied through the observed AcceptedInboundVersions list only (package p2p needs the "
            "cgo-free overlay), sha256 is an arbitrary function H, F8 is reproduced at the types.Block level "
            "(BlockHash/BlockID), the chain-service store and errBlocks are model only.",
    "technique": "Coq proofs over Gallina framing/handshake/block-id models + vm_compute correspondence against real p2p/v030, p2p/v200, types",
}

LIM = 1000
# the packages' own test files are masked in the build overlay: their init() loads ../test/sample/sample.key by a relative path
MASK030 = ["v030handshake_test.go", "v032handshake_test.go", "v033handshake_test.go", "v030io_test.go"]
HDR = 48
PROTOS = list(range(1, 10)) + list(range(0x10, 0x1d)) + [0x20, 0x21, 0x22, 0x30, 0x3101, 0x3102, 0x3103]
GOAWAY_CLS = {0: "accepted", 1: "chain id unreadable", 2: "different chain id", 3: "best hash", 4: "address", 5: "peer id",
              6: "genesis", 7: "certificate"}
ADDR_OK = {"192.168.1.10": True, "192.168.1.2": True, "dummy.aergo.io": True, "::1": True, "": False, "not a valid!!": False, "a..b": False}


# ------------------------------------------------------------------ helpers
def hx(b):
    return bytes(b).hex()


def cb(b):
    """bytes -> Coq term of type `list N`.  Written as `hb [x0a; xff; ...]` (constructors of Coq.Init.Byte.byte mapped by
    Byte.to_N inside vm_compute): a numeral costs ~1 ms to elaborate in Coq 8.16 (Number Notation), a constructor ~20 us."""
    b = bytes(b)
    if not b:
        return "[]"
    return "(hb [%s])" % ";".join("x%02x" % x for x in b)


def u64(ts):
    return ts & (2 ** 64 - 1)


def coq_msg(proto, length, ts, mid, orig, payload):
    return "(mk_msg %d %d %d %s %s %s)" % (proto, length, u64(ts), cb(mid), cb(orig), cb(payload))


def parse_lists(out):
    flat = " ".join(out.split())
    res = {}
    for m in re.finditer(r"\b(\w+) = (\[[^\]]*\]|nil)", flat):
        body = m.group(2)
        idx = [] if body in ("nil", "[]") else [int(x) for x in re.findall(r"\d+", body)]
        if body not in ("nil", "[]") and not idx:
            raise RuntimeError("unparsable mismatch list printed by the model evaluation: %s = %s" % (m.group(1), body[:200]))
        res[m.group(1)] = idx
    return res


def coq_eval(ctx, name, text, timeout=1500):
    """ctx.coq_eval without the .glob file (one glob entry per byte constructor: ~100 MB per shard) and without keeping
    the compiled case file."""
    d = os.path.join(ctx.workdir, "coq")
    os.makedirs(d, exist_ok=True)
    p = os.path.join(d, name + ".v")
    with open(p, "w") as f:
        f.write(text)
    rc, out = vf.sh(["coqc", "-noglob"] + ctx.coq_flags() + ["-Q", d, "Cases_" + ctx.id, p], cwd=d, timeout=timeout)
    for ext in (".vo", ".vok", ".vos", ".glob"):
        try:
            os.remove(os.path.join(d, name + ext))
        except OSError:
            pass
    return rc, out


def run_engine(ctx, binp, test, cases, name, cwd_env=None):
    fin = os.path.join(ctx.workdir, name + ".in")
    fout = os.path.join(ctx.workdir, name + ".out")
    with open(fin, "w") as f:
        for c in cases:
            f.write(json.dumps(c) + "\n")
    if os.path.exists(fout):
        os.remove(fout)
    rc, log = ctx.run_bin(binp, ["-test.run", test], env={"VERIF_IN": fin, "VERIF_OUT": fout})
    obs = []
    if os.path.exists(fout):
        for l in open(fout):
            try:
                o = json.loads(l)
            except ValueError:
                break
            for k in ("bytes", "id", "orig"):
                o.setdefault(k, "")
            obs.append(o)
    return rc, log, obs


# ------------------------------------------------------------------ frame cases
def gen_writes(ctx):
    rng = ctx.rng
    quick = ctx.tier == "quick"
    W = []

    def rid():
        return hx(rng.randbytes(16))

    def wr(proto, n, mx=LIM, ts=None, mid=None, orig=None, decl=-1, payload=None):
        W.append({"op": "write", "max": mx, "proto": proto, "ts": rng.randrange(-2 ** 63, 2 ** 63) if ts is None else ts,
                  "id": rid() if mid is None else mid, "orig": rid() if orig is None else orig,
                  "payload": hx(rng.randbytes(n)) if payload is None else payload, "decl_len": decl})
    for p in PROTOS + [0, 2 ** 32 - 1, 2 ** 31, 0x01020304]:
        wr(p, rng.randrange(0, 64))
    sizes = [0, 1, 2, 15, 16, 17, 47, 48, 49, 255, 256, 257, 511, 512, LIM - 1, LIM, LIM + 1, LIM + 2]
    if quick:
        sizes += [rng.randrange(0, LIM + 2) for _ in range(30)]
    else:
        sizes = list(range(0, LIM + 3))
    for n in sizes:
        wr(rng.choice(PROTOS), n)
    for ts in (0, 1, -1, 2 ** 63 - 1, -2 ** 63, 1700000000000000000, 255, 256, 2 ** 32, -2 ** 32):
        wr(rng.choice(PROTOS), 5, ts=ts)
    wr(1, 7, mid="00" * 16, orig="00" * 16)
    wr(1, 7, mid="ff" * 16, orig="ff" * 16)
    wr(4, 3, mid="000102030405060708090a0b0c0d0e0f", orig="f0e0d0c0b0a090807060504030201000", payload="010203", ts=0x0102030405060708)
    wr(0x01020304, 0x0102 if True else 0, mx=0x10000, ts=0x1112131415161718)   # every header byte distinct
    # declared length differing from len(payload); declared length above the maximum
    for n, d in ((5, 4), (5, 6), (0, 1), (1, 0), (LIM, LIM + 1), (LIM + 1, LIM), (3, LIM + 5), (LIM + 5, LIM + 5), (10, 2 ** 32 - 1)):
        wr(rng.choice(PROTOS), n, decl=d)
    # other limits
    for mx in (1, 16, 4096):
        for n in (0, mx - 1, mx, mx + 1):
            wr(rng.choice(PROTOS), n, mx=mx)
    for _ in range(20 if quick else 300):
        wr(rng.randrange(0, 2 ** 32), rng.randrange(0, 200), mx=rng.choice([LIM, 100, 150]))
    return W


def header_bytes(proto, length, ts, mid, orig, le=False):
    """Only used to build *input* streams with chosen header fields (oversize / random headers);
    never used as the expected value of anything."""
    bo = "little" if le else "big"
    return (proto % 2 ** 32).to_bytes(4, bo) + (length % 2 ** 32).to_bytes(4, bo) + u64(ts).to_bytes(8, bo) + mid + orig


def gen_reads(ctx, W, WO):
    """Streams built from the frames the real WriteMsg produced (WO) plus arbitrary ones."""
    rng = ctx.rng
    quick = ctx.tier == "quick"
    R = []   # (case, kind, written-index or None)
    frames = [(i, bytes.fromhex(o["bytes"])) for i, (c, o) in enumerate(zip(W, WO)) if o["cls"] == 0 and c["max"] == LIM]

    def rd(stream, kind, wi=None, mx=LIM, chunk=0):
        R.append(({"op": "read", "max": mx, "stream": hx(stream), "chunk": chunk}, kind, wi))
    # round trips with arbitrary continuation
    for i, fb in frames:
        rest = rng.randbytes(rng.choice([0, 0, 1, 7, 47, 48, 60]))
        rd(fb + rest, "rt", i)
    for i, fb in rng.sample(frames, min(len(frames), 12 if quick else 100)):
        j, fb2 = rng.choice(frames)
        rd(fb + fb2, "rt", i, chunk=rng.choice([0, 1, 3, 7, 47, 48, 49]))
    # frames written under other limits are read under their own limit
    for i, (c, o) in enumerate(zip(W, WO)):
        if o["cls"] == 0 and c["max"] != LIM:
            rd(bytes.fromhex(o["bytes"]) + b"\x01\x02", "rt", i, mx=c["max"])
    # every truncation offset
    by_size = {}
    for i, fb in frames:
        by_size.setdefault(len(fb) - HDR, (i, fb))
    want = [0, 1, 2, 16, 47, 48, 49] + ([100, rng.randrange(50, 200)] if quick else [100, 255, 256, 511, LIM])
    chosen = []
    for n in want:
        if n in by_size:
            chosen.append(by_size[n])
    if not chosen:
        chosen = frames[:3]
    for i, fb in chosen:
        for k in range(len(fb)):
            rd(fb[:k], "trunc", i, chunk=rng.choice([0, 0, 0, 1, 5]))
    # single bit flips in the header of one frame
    i, fb = chosen[min(2, len(chosen) - 1)]
    bits = range(HDR * 8) if not quick else list(range(0, 128)) + rng.sample(range(128, HDR * 8), 40)
    for b in bits:
        m = bytearray(fb)
        m[b // 8] ^= 1 << (b % 8)
        rd(bytes(m) + b"\xaa\xbb", "flip")
    # oversize headers (small ones; the huge ones go in a separate batch)
    for ln in (LIM + 1, LIM + 2, 2 * LIM, 65535, 65536, 2 ** 20, 2 ** 24 + 5):
        for avail in (0, 10):
            rd(header_bytes(rng.choice(PROTOS), ln, 1, rng.randbytes(16), rng.randbytes(16)) + rng.randbytes(avail), "oversize")
    # lengths whose little-endian reading would be small / whose big-endian reading is small
    for ln in (0x01000000, 0x00010000, 0xe8030000, 0x000003e8, 0x00000100):
        rd(header_bytes(1, ln, 1, b"\0" * 16, b"\0" * 16) + rng.randbytes(300), "oversize" if ln > LIM else "rnd")
    # random headers with plausible lengths and random amounts of following bytes
    for _ in range(150 if quick else 4000):
        ln = rng.choice([0, 1, rng.randrange(0, 120), rng.randrange(0, LIM + 2), LIM, LIM + 1])
        av = rng.choice([ln, ln, max(0, ln - 1), ln + 3, rng.randrange(0, ln + 5)])
        f_proto, f_ts, f_id, f_orig, f_tail = rng.randrange(0, 2 ** 32), rng.randrange(-2 ** 63, 2 ** 63), rng.randbytes(16), rng.randbytes(16), rng.randbytes(av)
        rd(header_bytes(f_proto, ln, f_ts, f_id, f_orig) + f_tail, "rnd", chunk=rng.choice([0, 0, 1, 9]))
        # the wire format (big-endian fields at fixed offsets) as a direct expectation on what ReadMsg decodes
        R[-1][0]["_exp"] = {"proto": f_proto, "len": ln, "ts": f_ts, "id": hx(f_id), "orig": hx(f_orig)}
    # purely random streams
    for _ in range(100 if quick else 3000):
        rd(rng.randbytes(rng.choice([0, 1, 47, 48, 49, rng.randrange(0, 200)])), "rnd")
    # zero limit is not expressible (max 0 = real limit in the engine); limit 1
    rd(header_bytes(1, 1, 0, b"\0" * 16, b"\0" * 16) + b"\x09", "rnd", mx=1)
    rd(header_bytes(1, 2, 0, b"\0" * 16, b"\0" * 16) + b"\x09\x09", "oversize", mx=1)
    return R


# ------------------------------------------------------------------ handshake cases
def gen_hs(ctx):
    rng = ctx.rng
    quick = ctx.tier == "quick"
    base_chain = {"v": 3, "pub": True, "main": True, "magic": "aergo.io", "cons": "dpos"}
    gen = hx(rng.randbytes(32))
    peer = hx(rng.randbytes(38))
    local = {"chain": base_chain, "v0": 2, "v1": 3, "fork": 1000, "genesis": gen, "peer": peer}

    def base_status():
        return {"chain": dict(base_chain), "chain_raw": "", "best_hash": hx(rng.randbytes(32)), "height": 5000, "addr": "192.168.1.10",
                "nil_sender": False, "peer": peer, "genesis": gen, "role": 1, "producers": [], "bad_cert": False}

    def flip(h, i=None):
        b = bytearray(bytes.fromhex(h))
        if not b:
            return "01"
        i = rng.randrange(len(b)) if i is None else i
        b[i] ^= 1 << rng.randrange(8)
        return hx(b)
    muts = []   # (name, fn(status))

    def chain_mut(k, v):
        def f(s):
            s["chain"][k] = v
        return f
    muts.append(("none", lambda s: None))
    for v in (2, 4, 0, -1, 2 ** 31 - 1):
        muts.append(("chain.version", chain_mut("v", v)))
    muts.append(("chain.public", chain_mut("pub", False)))
    muts.append(("chain.main", chain_mut("main", False)))
    for mg in ("aergo.iO", "", "aergo.i", "aergo.io2", "testnet"):
        muts.append(("chain.magic", chain_mut("magic", mg)))
    for cs in ("raft", "", "dpo", "dposx", "sbp"):
        muts.append(("chain.consensus", chain_mut("cons", cs)))

    def raw(hexs):
        def f(s):
            s["chain"] = None
            s["chain_raw"] = hexs
        return f
    for r in ("", "030000", "0300000001", "030000000101", "030000000101616263", "0300000001016162632f642f65",
              "03000000010161657267 6f2e696f2f64706f732f".replace(" ", "")):
        muts.append(("chain.raw", raw(r)))
    # raw bytes that decode to the local id although not produced by Bytes(): bool bytes other than 1
    muts.append(("chain.raw-bool7", raw("03000000" + "07" + "ff" + b"aergo.io/dpos".hex())))

    def setk(k, v):
        def f(s):
            s[k] = v(s) if callable(v) else v
        return f
    muts += [("genesis", setk("genesis", lambda s: flip(s["genesis"]))), ("genesis", setk("genesis", lambda s: flip(s["genesis"], 0))),
             ("genesis", setk("genesis", "")), ("genesis", setk("genesis", gen[:-2])), ("genesis", setk("genesis", gen + "00")),
             ("genesis", setk("genesis", hx(rng.randbytes(32))))]
    muts += [("peer", setk("peer", lambda s: flip(s["peer"]))), ("peer", setk("peer", "")), ("peer", setk("peer", peer[:-2])),
             ("peer", setk("peer", peer + "00")), ("peer", setk("peer", hx(rng.randbytes(38))))]
    muts += [("best_hash", setk("best_hash", "")), ("best_hash", setk("best_hash", "ab" * 31)), ("best_hash", setk("best_hash", "ab" * 33)),
             ("best_hash", setk("best_hash", "ab" * 32))]
    for a in ADDR_OK:
        muts.append(("addr", setk("addr", a)))
    muts.append(("nil_sender", setk("nil_sender", True)))

    def height_keep(h):
        def f(s):
            s["height"] = h
        return f

    def height_follow(h):
        def f(s):
            s["height"] = h
            s["chain"]["v"] = 2 if h < 1000 else 3
        return f
    for h in (0, 999, 1000, 1001, 2 ** 64 - 1):
        muts.append(("height", height_keep(h)))
        muts.append(("height+version", height_follow(h)))
    muts += [("role", setk("role", 3)), ("role", setk("role", 2)), ("role", setk("role", 0)), ("role", setk("role", 77))]

    def agent(prod, bad):
        def f(s):
            s["role"] = 3
            s["producers"] = [hx(rng.randbytes(38)) for _ in range(prod)]
            s["bad_cert"] = bad
        return f
    muts += [("agent", agent(1, False)), ("agent", agent(2, True)), ("agent", agent(0, True))]
    cases = []
    for hs in (31, 32, 33, 200):
        for name, f in muts:
            s = base_status()
            f(s)
            cases.append({"hs": hs, "mode": "check", "local": local, "status": s, "_mut": name})
        # two-field mutations
        for _ in range(15 if quick else 300):
            (n1, f1), (n2, f2) = rng.sample(muts, 2)
            s = base_status()
            f1(s)
            if s["chain"] is not None or not n2.startswith(("chain.", "height+")):
                f2(s)
            cases.append({"hs": hs, "mode": "check", "local": local, "status": s, "_mut": n1 + "+" + n2})
        # through real frames and protobuf
        through = "recv" if hs == 200 else "inbound"
        for name, f in muts:
            if name in ("none", "genesis", "peer", "chain.magic", "chain.version", "chain.raw", "best_hash", "nil_sender", "agent", "height"):
                s = base_status()
                f(s)
                cases.append({"hs": hs, "mode": through, "local": local, "status": s, "_mut": name})
    # another local node: private chain, no fork, short genesis and peer id
    l2 = {"chain": {"v": 0, "pub": False, "main": False, "magic": "dev.chain", "cons": "raft"}, "v0": 0, "v1": 0, "fork": 0,
          "genesis": "0102", "peer": "aa"}
    for hs in (31, 32, 33, 200):
        s = {"chain": dict(l2["chain"]), "chain_raw": "", "best_hash": "cd" * 32, "height": 1, "addr": "dummy.aergo.io", "nil_sender": False,
             "peer": "aa", "genesis": "0102", "role": 2, "producers": [], "bad_cert": False}
        cases.append({"hs": hs, "mode": "check", "local": l2, "status": s, "_mut": "none"})
        s2 = dict(s)
        s2["genesis"] = "0103"
        cases.append({"hs": hs, "mode": "check", "local": l2, "status": s2, "_mut": "genesis"})
    return cases


def gen_inbound_frames(ctx, real_max):
    """Frame-level variations of the inbound stream: the status that every handshaker accepts, carried in a frame of another
    sub-protocol, truncated at chosen offsets, replaced by an oversized / short / empty stream."""
    rng = ctx.rng
    chain = {"v": 3, "pub": True, "main": True, "magic": "aergo.io", "cons": "dpos"}
    gen, peer = hx(rng.randbytes(32)), hx(rng.randbytes(38))
    local = {"chain": chain, "v0": 2, "v1": 3, "fork": 1000, "genesis": gen, "peer": peer}
    cases = []
    for hs in (31, 32, 33, 200):
        mode = "recv" if hs == 200 else "inbound"

        def mk(empty_status=False, **kw):
            st = {"chain": dict(chain), "chain_raw": "", "best_hash": hx(rng.randbytes(32)), "height": 5000, "addr": "192.168.1.10",
                  "nil_sender": False, "peer": peer, "genesis": gen, "role": 1, "producers": [], "bad_cert": False}
            if empty_status:    # what an empty protobuf payload decodes to
                st = {"chain": None, "chain_raw": "", "best_hash": "", "height": 0, "addr": "", "nil_sender": True, "peer": "", "genesis": "",
                      "role": 0, "producers": [], "bad_cert": False}
            c = {"hs": hs, "mode": mode, "local": local, "status": st, "_mut": "frame:" + ",".join("%s" % k for k in kw) if kw else "frame:none",
                 "_frame": True}
            c.update(kw)
            cases.append(c)
        mk()
        for sp in (2, 3, 4, 5, 0x10, 0x16, 0x30, 0x3101, 0xffffffff):
            mk(frame_proto=sp)
        for keep in (1, 47, 48, 49, 60):
            mk(keep=keep)
        for cut in (1, 2, rng.randrange(3, 40)):
            mk(cut=cut)
        mk(raw_stream="-")
        mk(raw_stream=hx(header_bytes(1, real_max + 1, 1, b"\x01" * 16, b"\x02" * 16) + rng.randbytes(64)))
        mk(raw_stream=hx(header_bytes(1, 2 ** 32 - 1, 1, b"\x01" * 16, b"\x02" * 16)))
        mk(raw_stream=hx(header_bytes(1, 10, 1, b"\x01" * 16, b"\x02" * 16) + rng.randbytes(9)))
        mk(empty_status=True, raw_stream=hx(header_bytes(1, 0, 1, b"\x01" * 16, b"\x02" * 16)))          # empty status payload
        mk(raw_stream=hx(header_bytes(1, 5, 1, b"\x01" * 16, b"\x02" * 16) + b"\xff\xff\xff\xff\xff"))   # not a protobuf Status
    return cases


def sym(i):
    return ("%02x" % i) * 32


def gen_recv(ctx):
    """Scripts for the real BlocksChunkReceiver and syncManager (symbolic 32-byte identifiers: byte i repeated)."""
    rng = ctx.rng
    quick = ctx.tier == "quick"

    def B(i, big=False, serial=None, hash_=None):
        return {"hash": sym(i) if hash_ is None else hash_, "big": big, "serial": i if serial is None else serial}

    def step(blocks, has_next, body="blocks", expired=False):
        return {"expired": expired, "body": body, "blocks": blocks, "has_next": has_next}

    def chunks(bl, k):
        """split bl into k non-empty chunks (k <= len)"""
        cuts = sorted(rng.sample(range(1, len(bl)), k - 1)) if len(bl) > 1 and k > 1 else []
        out, a = [], 0
        for c_ in cuts + [len(bl)]:
            out.append(bl[a:c_])
            a = c_
        return out
    cases = []

    def add(n, steps, tag, real=False, hashes=None):
        cases.append({"kind": "recv", "hashes": [sym(i) for i in range(1, n + 1)] if hashes is None else hashes, "real_ids": real, "steps": steps, "_tag": tag})
    for n in (1, 2, 3, 5, 8):
        full = [B(i) for i in range(1, n + 1)]
        add(n, [step(full, False)], "exact")
        add(n, [step(full, False), step(full, False), step([B(1)], True)], "after-finish")
        if n > 1:
            for k in (2, n):
                ch = chunks(full, k)
                add(n, [step(c_, i < len(ch) - 1) for i, c_ in enumerate(ch)], "chunks")
            ro = full[:]
            i, j = rng.sample(range(n), 2)
            ro[i], ro[j] = ro[j], ro[i]
            add(n, [step(ro, False), step(full, False)], "reordered")
            miss = full[:n // 2] + full[n // 2 + 1:]
            add(n, [step(miss, False)], "missing-middle" if n > 2 else "missing")
            add(n, [step(full[:-1], False)], "missing-last")
            add(n, [step(full[:-1], True), step(full[-1:], True), step([], False)], "never-finished")
            wrong = full[:]
            wrong[n // 2] = B(99)
            add(n, [step(wrong[:1], True), step(wrong[1:], False), step(full, False)], "wrong-hash-middle")
            dup = full[:n // 2 + 1] + full[n // 2:]
            add(n, [step(dup, False)], "duplicate")
        for hn in (False, True):
            add(n, [step(full + [B(n + 1)], hn), step([B(n + 2)], False)], "extra")
            add(n, [step(full, True), step([B(n + 1)], hn)], "extra-next-chunk")
        add(n, [step([], False)], "empty")
        add(n, [step(full, False, body="status_bad")], "status-bad")
        add(n, [step([], False, body="other_ok"), step(full, False)], "other-ok")
        add(n, [step([], False, body="other_bad"), step(full, False)], "other-bad")
        add(n, [step(full, False, expired=True)], "expired")
        if n > 1:
            add(n, [step(full[:1], True), step(full[1:], False, expired=True)], "expired-later")
        bigp = rng.randrange(n)
        big = [B(i, big=(i - 1 == bigp)) for i in range(1, n + 1)]
        for hn in (False, True):
            add(n, [step(big, hn), step(full, False)], "too-big")
        nof = full[:]
        nof[rng.randrange(n)] = B(0, hash_="", serial=7)
        add(n, [step(nof, False)], "empty-hash-field")
        # F8: identifier of block i announced for another content
        forged = full[:]
        fp = rng.randrange(n)
        forged[fp] = B(fp + 1, serial=200 + fp)
        add(n, [step(forged, False)], "forged", real=True)
        add(n, [step(full, False)], "genuine-real", real=True)
    add(0, [step([B(1)], False)], "empty-request")
    add(0, [step([], False)], "empty-request-empty")
    add(3, [step([B(1)], True), step([B(1)], True)], "dup-request", hashes=[sym(1), sym(1), sym(2)])
    add(2, [step([B(0, hash_="", serial=1)], True)], "empty-requested-hash", hashes=["", sym(2)])
    for _ in range(40 if quick else 1200):
        n = rng.randrange(1, 7)
        steps = []
        nxt = 1
        for _s in range(rng.randrange(1, 5)):
            r = rng.random()
            if r < 0.08:
                steps.append(step([], rng.random() < 0.5, body=rng.choice(["other_ok", "other_bad", "status_bad"])))
                continue
            k = rng.randrange(0, 4)
            bl = []
            for _b in range(k):
                q = rng.random()
                i = nxt if q < 0.8 else rng.randrange(1, n + 2)
                bl.append(B(i, big=rng.random() < 0.05, serial=i if rng.random() < 0.9 else 100 + i))
                nxt = i + 1
            steps.append(step(bl, rng.random() < 0.6, expired=rng.random() < 0.04))
        add(n, steps, "random")
    # ---- syncManager scripts
    sms = []

    def smcase(ops, tag):
        sms.append({"kind": "sm", "ops": ops, "_tag": tag})
    P = lambda b: {"op": "produced", "block": b}
    N_ = lambda i, known=False, h=None: {"op": "notice", "hash": sym(i) if h is None else h, "known": known}
    Rr = lambda bl: {"op": "response", "blocks": bl}
    smcase([P(B(1)), P(B(1)), N_(1), N_(2), N_(2), N_(3, True), N_(3, True), P(B(2)), P(B(3))], "duplicates")
    smcase([P(B(4, big=True)), P(B(4)), N_(4)], "oversize-then-genuine")
    smcase([P(B(5, serial=77)), P(B(5))], "forged-then-genuine")
    smcase([Rr([B(9)]), Rr([B(9)]), Rr([B(9), B(8)]), Rr([]), Rr([B(7, big=True)]), Rr([B(1, serial=50)])], "responses")
    smcase([P(B(1, hash_="abcd")), N_(1, h="abcd"), P(B(1, hash_="")), N_(1, h=""), P(B(1, hash_="11" * 33)), P(B(1))], "bad-hash-length")
    smcase([N_(i % 250 + 1) for i in range(0, 301)] + [N_(1), P(B(2)), N_(200), N_(251), N_(1)], "eviction")
    for _ in range(15 if quick else 300):
        ops = []
        for _o in range(rng.randrange(1, 12)):
            r = rng.random()
            i = rng.randrange(1, 6)
            if r < 0.45:
                ops.append(P(B(i, big=rng.random() < 0.15, serial=i if rng.random() < 0.8 else 100 + i)))
            elif r < 0.85:
                ops.append(N_(i, rng.random() < 0.4))
            else:
                ops.append(Rr([B(rng.randrange(1, 6), big=rng.random() < 0.2) for _x in range(rng.randrange(0, 3))]))
        smcase(ops, "random")
    return cases, sms


def coq_blk(b):
    return "(mk_block %s [%d; %d])" % (cb(bytes.fromhex(b["hash"])), 1 if b["big"] else 0, b["serial"])


def coq_body(st):
    if st["body"] == "other_ok":
        return "(BOther true)"
    if st["body"] == "other_bad":
        return "(BOther false)"
    return "(BBlocks %s [%s] %s)" % ("false" if st["body"] == "status_bad" else "true", "; ".join(coq_blk(b) for b in st["blocks"]),
                                     "true" if st["has_next"] else "false")


def hs_hdr(magic, versions, cnt=None):
    """Input builder: wire handshake request header bytes (big-endian words)."""
    n = len(versions) if cnt is None else cnt
    return (magic % 2 ** 32).to_bytes(4, "big") + (n % 2 ** 32).to_bytes(4, "big") + b"".join((v % 2 ** 32).to_bytes(4, "big") for v in versions)


MAGIC = 0x47416841
VERS = [0x20000, 0x303, 0x302, 0x301]


def gen_wire(ctx):
    rng = ctx.rng
    quick = ctx.tier == "quick"
    C = [{"op": "consts"}, {"op": "maxblock"}]
    # marshal: every boundary count
    for n in (0, 1, 2, 3, 4, 15, 16, 17, 40):
        C.append({"op": "marshal", "magic": rng.choice([MAGIC, 0, 2 ** 32 - 1, rng.randrange(2 ** 32)]),
                  "versions": [rng.choice(VERS + [0, 1, 2 ** 32 - 1, rng.randrange(2 ** 32)]) for _ in range(n)]})
    C.append({"op": "marshal", "magic": MAGIC, "versions": VERS})
    for m, c_ in ((MAGIC, 0x303), (0, 1), (0, 2), (2 ** 32 - 1, 2 ** 32 - 1), (0x01020304, 0x05060708)):
        C.append({"op": "resp", "magic": m, "code": c_})
        C.append({"op": "readresp", "stream": hx((m).to_bytes(4, "big") + (c_).to_bytes(4, "big") + rng.randbytes(rng.choice([0, 3])))})
    for k in range(0, 8):
        C.append({"op": "readresp", "stream": hx((MAGIC).to_bytes(4, "big") + (0x303).to_bytes(4, "big"))[:2 * k]})

    def rd(stream, kind, chunk=0):
        C.append({"op": "read", "stream": hx(stream), "chunk": chunk, "_kind": kind})

    def wr(stream, kind, chunk=0):
        C.append({"op": "wire", "stream": hx(stream), "chunk": chunk, "_kind": kind})
    # well-formed headers of every legal count, with a continuation
    for n in range(1, 17):
        vs = [rng.choice(VERS + [rng.randrange(2 ** 32)]) for _ in range(n)]
        rd(hs_hdr(MAGIC, vs) + rng.randbytes(rng.choice([0, 1, 4, 9])), "ok", chunk=rng.choice([0, 0, 1, 3]))
    # counts at and beyond the limits, with plenty of bytes following
    for cnt in (0, 16, 17, 18, 255, 256, 65536, 2 ** 24, 2 ** 31 - 1, 2 ** 31, 2 ** 32 - 1):
        rd(hs_hdr(MAGIC, [0x303] * 20, cnt=cnt), "count")
        wr(hs_hdr(MAGIC, [0x303] * 20, cnt=cnt), "count")
    # every truncation of a 3-version and of a 16-version header
    for vs in ([0x20000, 0x303, 0x301], [7] * 15 + [0x302]):
        full = hs_hdr(MAGIC, vs)
        for k in range(len(full)):
            rd(full[:k], "trunc", chunk=rng.choice([0, 1]))
            if k % (1 if not quick else 3) == 0:
                wr(full[:k], "trunc")
    # every single bit flip of a header
    full = hs_hdr(MAGIC, [0x20000, 0x303, 0x301]) + b"\xaa\xbb"
    for b in (range(160) if not quick else list(range(0, 64)) + rng.sample(range(64, 160), 24)):
        m = bytearray(full)
        m[b // 8] ^= 1 << (b % 8)
        rd(bytes(m), "flip")
        wr(bytes(m), "flip")
    for _ in range(60 if quick else 2000):
        rd(rng.randbytes(rng.choice([0, 1, 3, 4, 7, 8, 11, 12, rng.randrange(0, 80)])), "rnd", chunk=rng.choice([0, 0, 2]))
    # negotiation through the real handler: every subset of the accepted versions, in random order, with unknown ones mixed in
    for mask in range(16):
        vs = [v for i, v in enumerate(VERS) if mask >> i & 1] + rng.sample([0x300, 0x304, 0, 5, 0x20001], rng.randrange(0, 3))
        rng.shuffle(vs)
        if vs:
            wr(hs_hdr(MAGIC, vs) + rng.randbytes(rng.choice([0, 5, 48])), "negotiate")
    for m in (0, MAGIC ^ 1, MAGIC + 1, 0x2e415429, 0x8fae0fd4, 0x41684147):   # test-net / raft-snap / byte-swapped magics
        wr(hs_hdr(m, VERS) + b"zz", "magic")
    # outbound side: the listener's response as an arbitrary byte stream
    def wo(stream, kind):
        C.append({"op": "wireout", "stream": hx(stream), "_kind": kind})
    for code in VERS + [0, 1, 2, 0x300, 0x304, 2 ** 32 - 1]:
        for m in (MAGIC, 0, MAGIC ^ 0x100, 0x41684147):
            wo(m.to_bytes(4, "big") + code.to_bytes(4, "big") + rng.randbytes(rng.choice([0, 3, 48])), "resp")
    full = MAGIC.to_bytes(4, "big") + (0x20000).to_bytes(4, "big")
    for k in range(8):
        wo(full[:k], "trunc")
    for b in range(64):
        m = bytearray(full + b"\x55")
        m[b // 8] ^= 1 << (b % 8)
        wo(bytes(m), "flip")
    for _ in range(10 if quick else 300):
        wo(rng.randbytes(rng.randrange(0, 14)), "rnd")
    for _ in range(20 if quick else 600):
        n = rng.randrange(1, 17)
        wr(hs_hdr(rng.choice([MAGIC, MAGIC, MAGIC, rng.randrange(2 ** 32)]), [rng.choice(VERS + [0x300, 9]) for _ in range(n)]) + rng.randbytes(rng.randrange(0, 20)), "rnd")
    return C


# ---------------------------------------------------------------- protobuf input builder (Status payloads)
def pb_varint(n, pad=0):
    out = bytearray()
    while True:
        b = n & 0x7f
        n >>= 7
        if n or pad > len(out) + 1:
            out.append(b | 0x80)
        else:
            out.append(b)
            return bytes(out)


def pb_bytes(num, data):
    return pb_varint(num << 3 | 2) + pb_varint(len(data)) + data


def pb_uint(num, v, pad=0):
    return pb_varint(num << 3) + pb_varint(v, pad)


def chain_id_wire(c, version=None):
    v = c["v"] if version is None else version
    return (v & 0xffffffff).to_bytes(4, "little") + bytes([1 if c["pub"] else 0, 1 if c["main"] else 0]) + (c["magic"] + "/" + c["cons"]).encode()


def gen_status_raw(ctx):
    """Status payloads written byte by byte (optional fields absent / empty / duplicated, odd varints, truncations, bit flips)
    through the real frame + protobuf + receiveRemoteStatus + checkRemoteStatus path of the four handshakers."""
    rng = ctx.rng
    quick = ctx.tier == "quick"
    chain = {"v": 3, "pub": True, "main": True, "magic": "aergo.io", "cons": "dpos"}
    gen, peer = rng.randbytes(32), rng.randbytes(38)
    local = {"chain": chain, "v0": 2, "v1": 3, "fork": 1000, "genesis": hx(gen), "peer": hx(peer)}
    cid = chain_id_wire(chain)
    best = rng.randbytes(32)

    def sender(addr=b"192.168.1.10", pid=peer, role=1, addrs=(b"/ip4/192.168.1.10/tcp/7846",), port=7846, extra=b""):
        m = b""
        if addr is not None:
            m += pb_bytes(1, addr)
        if port is not None:
            m += pb_uint(2, port)
        if pid is not None:
            m += pb_bytes(3, pid)
        if role:
            m += pb_uint(4, role)
        for a in addrs:
            m += pb_bytes(6, a)
        return m + extra
    F = {"sender": pb_bytes(1, sender()), "best": pb_bytes(2, best), "height": pb_uint(3, 5000), "chain": pb_bytes(4, cid),
         "version": pb_bytes(6, b"v2.0.0"), "genesis": pb_bytes(7, gen)}
    order = ["sender", "best", "height", "chain", "version", "genesis"]
    base = b"".join(F[k] for k in order)
    P = [("base", base), ("empty", b"")]
    for k in order:
        P.append(("omit-" + k, b"".join(F[x] for x in order if x != k)))
        P.append(("empty-" + k, b"".join(F[x] if x != k else (pb_bytes({"sender": 1, "best": 2, "chain": 4, "version": 6, "genesis": 7}[k], b"") if k != "height" else pb_uint(3, 0)) for x in order)))
    P.append(("reversed", b"".join(F[k] for k in reversed(order))))
    other = dict(F)
    for nm, snd in (("sender-empty-msg", b""), ("sender-no-peer", sender(pid=None)), ("sender-empty-peer", sender(pid=b"")),
                    ("sender-no-address", sender(addr=None)), ("sender-empty-address", sender(addr=b"")), ("sender-bad-address", sender(addr=b"not a valid!!")),
                    ("sender-no-addrs", sender(addrs=())), ("sender-no-addrs-bad-address", sender(addr=b"", addrs=())), ("sender-fqdn", sender(addr=b"dummy.aergo.io", addrs=())),
                    ("sender-short-peer", sender(pid=peer[:-1])), ("sender-long-peer", sender(pid=peer + b"\0")), ("sender-role-agent", sender(role=3)),
                    ("sender-role-77", sender(role=77)), ("sender-bad-multiaddr-entry", sender(addrs=(b"garbage",))), ("sender-port-0", sender(port=0, addrs=())),
                    ("sender-port-huge", sender(port=2 ** 32 - 1, addrs=()))):
        P.append((nm, pb_bytes(1, snd) + b"".join(F[k] for k in order[1:])))
    for nm, b_ in (("best-31", best[:31]), ("best-33", best + b"\1"), ("best-0", b"")):
        P.append((nm, F["sender"] + pb_bytes(2, b_) + b"".join(F[k] for k in order[2:])))
    # duplicated fields: the last scalar wins, messages merge
    P.append(("dup-chain-wrong-then-right", base.replace(F["chain"], pb_bytes(4, chain_id_wire(chain, 9)) + F["chain"])))
    P.append(("dup-chain-right-then-wrong", base + pb_bytes(4, chain_id_wire(chain, 9))))
    P.append(("dup-genesis-right-then-wrong", base + pb_bytes(7, rng.randbytes(32))))
    P.append(("dup-genesis-wrong-then-right", pb_bytes(7, rng.randbytes(32)) + base))
    P.append(("dup-sender-merge-peer", base + pb_bytes(1, pb_bytes(3, rng.randbytes(38)))))
    P.append(("dup-sender-merge-same", base + pb_bytes(1, pb_bytes(3, peer))))
    P.append(("dup-height-below-fork", base + pb_uint(3, 999)))
    # odd varints / wire types / unknown fields
    P.append(("height-overlong-varint", base.replace(F["height"], pb_uint(3, 5000, pad=10))))
    P.append(("height-11-byte-varint", base.replace(F["height"], pb_varint(3 << 3) + b"\x80" * 10 + b"\x01")))
    P.append(("height-max", base.replace(F["height"], pb_uint(3, 2 ** 64 - 1))))
    P.append(("chain-as-varint", base.replace(F["chain"], pb_uint(4, 7))))
    P.append(("sender-as-varint", pb_uint(1, 7) + base[len(F["sender"]):]))
    P.append(("unknown-field-15", base + pb_bytes(15, b"xyz") + pb_uint(14, 3)))
    P.append(("unknown-group-wiretype", base + bytes([15 << 3 | 3])))
    P.append(("len-beyond-end", base + pb_varint(7 << 3 | 2) + pb_varint(200) + b"ab"))
    P.append(("len-huge", base + pb_varint(7 << 3 | 2) + pb_varint(2 ** 40)))
    P.append(("truncated-tag", base + b"\x80"))
    P.append(("cert-garbage", base + pb_bytes(8, b"\x08\x01\x12\x03abc")))
    P.append(("cert-empty-agent", F["sender"].replace(F["sender"], pb_bytes(1, sender(role=3, extra=pb_bytes(7, rng.randbytes(38))))) + b"".join(F[k] for k in order[1:]) + pb_bytes(8, b"")))
    step = 9 if quick else 1
    for k in list(range(1, len(base), step)) + [len(base) - 1]:
        P.append(("trunc", base[:k]))
    for b in rng.sample(range(len(base) * 8), 40 if quick else 600):
        m = bytearray(base)
        m[b // 8] ^= 1 << (b % 8)
        P.append(("flip", bytes(m)))
    for _ in range(10 if quick else 300):
        P.append(("random", rng.randbytes(rng.randrange(0, 60))))
    cases = []
    for hs in (31, 32, 33, 200):
        for nm, pl in P:
            st = {"chain": dict(chain), "chain_raw": "", "best_hash": hx(best), "height": 5000, "addr": "192.168.1.10", "nil_sender": False, "peer": hx(peer),
                  "genesis": hx(gen), "role": 1, "producers": [], "bad_cert": False}
            cases.append({"hs": hs, "mode": "recv" if hs == 200 else "inbound", "local": local, "status": st, "payload_raw": hx(pl) if pl else "-",
                          "_mut": "raw:" + nm, "_raw": True})
    return cases


def gen_agent(ctx):
    """2.0.0 role / certificate rule with real keys and real certificates."""
    chain = {"v": 3, "pub": True, "main": True, "magic": "aergo.io", "cons": "dpos"}
    gen = hx(ctx.rng.randbytes(32))
    local = {"chain": chain, "v0": 2, "v1": 3, "fork": 1000, "genesis": gen, "peer": "@agent"}
    V = lambda bp, agent="@agent", **kw: dict({"bp": bp, "agent": agent, "tamper": False, "expired": False}, **kw)
    variants = [
        ("no-certs", 3, ["@bp0", "@bp1"], []), ("one-valid", 3, ["@bp0", "@bp1"], [V(0)]), ("two-valid", 3, ["@bp0", "@bp1"], [V(0), V(1)]),
        ("same-twice", 3, ["@bp0"], [V(0), V(0)]), ("bp-not-listed", 3, ["@bp0", "@bp1"], [V(2)]), ("valid-then-not-listed", 3, ["@bp0", "@bp1"], [V(0), V(3)]),
        ("other-agent", 3, ["@bp0", "@bp1"], [V(0, "@other")]), ("valid-then-other-agent", 3, ["@bp0"], [V(0), V(0, "@other")]),
        ("tampered", 3, ["@bp0"], [V(0, tamper=True)]), ("valid-then-tampered", 3, ["@bp0", "@bp1"], [V(0), V(1, tamper=True)]),
        ("expired", 3, ["@bp0"], [V(0, expired=True)]), ("no-producers", 3, [], []), ("no-producers-with-cert", 3, [], [V(0)]),
        ("producer-role-bad-cert", 1, ["@bp0"], [V(0, tamper=True)]), ("watcher-role-bad-cert", 2, [], [V(0, "@other")]),
        ("legacy-role-bad-cert", 0, [], [V(1, expired=True)]), ("unknown-role-bad-cert", 77, [], [V(1, tamper=True)]),
        ("agent-is-producer-itself", 3, ["@agent"], []), ("many-producers", 3, ["@bp0", "@bp1", "@bp2", "@bp3"], [V(3), V(2), V(1), V(0)]),
    ]
    cases = []
    for nm, role, prods, certs in variants:
        for mode in ("check", "recv"):
            st = {"chain": dict(chain), "chain_raw": "", "best_hash": "ab" * 32, "height": 5000, "addr": "192.168.1.10", "nil_sender": False, "peer": "@agent",
                  "genesis": gen, "role": role, "producers": prods, "bad_cert": False, "certs": certs}
            cases.append({"hs": 200, "mode": mode, "local": local, "status": st, "_mut": "agent:" + nm, "_agent": True})
        # the same certificates presented by another peer id than the connection's
    st = {"chain": dict(chain), "chain_raw": "", "best_hash": "ab" * 32, "height": 5000, "addr": "192.168.1.10", "nil_sender": False, "peer": "@other",
          "genesis": gen, "role": 3, "producers": ["@bp0"], "bad_cert": False, "certs": [V(0, "@other")]}
    cases.append({"hs": 200, "mode": "check", "local": local, "status": st, "_mut": "agent:other-peer-own-cert", "_agent": True})
    return cases


def coq_raw_status(chain_id, best_hash, height, nil_sender, addr, has_addrs, peer, role, producers, genesis, certs, port=7846):
    b = lambda x: "true" if x else "false"
    if nil_sender:
        snd = "None"
    else:
        snd = "(Some (mk_sender %s %s %s %s %d [%s]))" % (b(ADDR_OK[addr]), b(has_addrs), b(ADDR_OK[addr] and port <= 65535), cb(peer), role, "; ".join(cb(p) for p in producers))
    return "(mk_raw_status %s %s %d %s %s [%s])" % (cb(chain_id), cb(best_hash), height, snd, cb(genesis),
                                                    "; ".join("(mk_cert %s %s %s)" % (b(v), cb(a), cb(p)) for v, a, p in certs))


def gen_vershs(ctx):
    """Whole connections through the real wire handshakers, the real defaultVersionManager (FindBestP2PVersion,
    GetVersionedHandshaker) and the real versioned handshakers: every version value x every single-field status difference
    x inbound / outbound."""
    rng = ctx.rng
    quick = ctx.tier == "quick"
    chain = {"v": 3, "pub": True, "main": True, "magic": "aergo.io", "cons": "dpos"}
    base_l = {"chain": chain, "v0": 2, "v1": 3, "fork": 1000}
    C = []

    def st(**kw):
        d = {"schain": dict(chain), "genesis": "local", "peer": "conn", "best_hash": "ab" * 32, "height": 5000, "addr": "192.168.1.2", "nil_sender": False}
        d.update(kw)
        return d
    sch = lambda **kw: dict(chain, **kw)
    muts = [("none", st()), ("genesis", st(genesis="other")), ("genesis-empty", st(genesis="")), ("genesis-short", st(genesis="0102")),
            ("peer", st(peer=hx(rng.randbytes(38)))), ("peer-empty", st(peer="")),
            ("chain.version", st(schain=sch(v=2))), ("chain.version", st(schain=sch(v=4))), ("chain.public", st(schain=sch(pub=False))),
            ("chain.main", st(schain=sch(main=False))), ("chain.magic", st(schain=sch(magic="aergo.iO"))), ("chain.consensus", st(schain=sch(cons="raft"))),
            ("best_hash-31", st(best_hash="ab" * 31)), ("best_hash-0", st(best_hash="")), ("best_hash-33", st(best_hash="ab" * 33)),
            ("addr", st(addr="not a valid!!")), ("addr-empty", st(addr="")), ("nil_sender", st(nil_sender=True)),
            # below the fork height: the per-height chain id has version 2, the static one version 3
            ("height-below-fork", st(height=999)), ("height-below-fork+version", st(height=999, schain=sch(v=2))),
            ("height-at-fork", st(height=1000)), ("height-0+version", st(height=0, schain=sch(v=2)))]
    for op in ("inbound", "outbound"):
        for v in (0x301, 0x302, 0x303, 0x20000):
            for name, s_ in muts:
                C.append(dict(base_l, op=op, versions=[v], _mut=name, **s_))
        for v in (0x300, 0x304, 0):
            C.append(dict(base_l, op=op, versions=[v], _mut="unsupported", **st()))
    # inbound: several versions offered, the real negotiation picks
    for vs in ([0x301, 0x302], [0x302, 0x301], [0x301, 0x20000], [0x303, 0x302, 0x300], [0x300, 0x301], [0x302, 0x304]):
        for name in ("none", "genesis"):
            C.append(dict(base_l, op="inbound", versions=vs, _mut="offer:" + name, **(st() if name == "none" else st(genesis="other"))))
    # concrete type returned by the real GetVersionedHandshaker for every version value (after the connections, so that a
    # connection completing against the property is the first replay)
    for v in (0x301, 0x302, 0x303, 0x20000, 0x300, 0x304, 0x10000, 0x20001, 0, 1, 2 ** 32 - 1):
        C.append(dict(base_l, op="type", versions=[v], schain=chain, genesis="local", peer="conn", best_hash="", height=0, addr="", nil_sender=False, _mut="type"))
    for _ in range(0 if quick else 200):
        n1, s1 = rng.choice(muts)
        n2, s2 = rng.choice(muts)
        m = dict(s1)
        for k in s2:
            if s2[k] != st()[k]:
                m[k] = s2[k]
        C.append(dict(base_l, op=rng.choice(["inbound", "outbound"]), versions=[rng.choice([0x301, 0x302, 0x303, 0x20000])], _mut=n1 + "+" + n2, **m))
    return C


TYPE_CODE = {"*v030.V030Handshaker": 0, "*v030.V032Handshaker": 1, "*v030.V033Handshaker": 2, "*v200.V200Handshaker": 3}
TYPE_OF_VERSION = {0x301: "*v030.V030Handshaker", 0x302: "*v030.V032Handshaker", 0x303: "*v030.V033Handshaker", 0x20000: "*v200.V200Handshaker"}


FOREIGN_KINDS = ["magic", "cons", "pub", "main", "empty"]


def gen_chainid(ctx):
    """Arrival scripts for the real ChainService: honest blocks and blocks of another chain, in every arrival order."""
    rng = ctx.rng
    quick = ctx.tier == "quick"
    S = lambda no, kind="honest", parent="": {"no": no, "kind": kind, "parent": parent}
    C = []

    def add(steps, tag, model=True, height=3, total=7):
        C.append({"height": height, "total": total, "steps": steps, "_tag": tag, "_model": model})
    for k in FOREIGN_KINDS:
        add([S(4, k), S(4), S(5)], "direct-child")                                   # foreign block as a direct child of the best block
        add([S(5, k), S(4), S(5), S(6)], "orphan-then-parent")                       # foreign orphan first, then its honest parent
        add([S(4), S(5), S(5, k), S(6)], "after-honest-same-height")                 # foreign block after the honest block of its height
        add([S(5, k), S(6, k, "same"), S(4), S(5), S(6)], "two-deep-orphan-chain")   # foreign orphan and its foreign child
        add([S(6, k), S(5), S(4), S(6)], "deep-orphan")                              # foreign orphan two above the best, honest orphans resolved
        add([S(5, k), S(5, k), S(4), S(5, k), S(5)], "repeated")
    add([S(6), S(5), S(4)], "honest-orphans")
    add([S(4), S(4), S(5)], "honest-duplicate")
    add([S(5), S(7), S(4), S(6)], "honest-two-gaps")
    # version-only difference: ValidChildOf ignores the version, and nothing else on this path validates it (observation, not modelled)
    add([S(4), S(4, "version"), S(5, "version"), S(5), S(6)], "version-only", model=False)
    add([S(5, "version"), S(4), S(5), S(6)], "version-only-orphan", model=False)
    for _ in range(10 if quick else 300):
        steps = []
        for _s in range(rng.randrange(2, 8)):
            no = rng.randrange(4, 8)
            k = "honest" if rng.random() < 0.55 else rng.choice(FOREIGN_KINDS)
            steps.append(S(no, k, "same" if (k != "honest" and no > 4 and rng.random() < 0.25) else ""))
        add(steps, "random")
    return C


def ci_id(label):
    """label -> number for the model: h5 -> 5, f5:<kind> -> 1000*(kind index+1)+5, + 500000 for a foreign-parent variant."""
    if label.startswith("h"):
        return int(label[1:])
    no, kind = label[1:].split(":")
    up = kind.endswith("^")
    kind = kind.rstrip("^")
    return 1000 * (["magic", "cons", "pub", "main", "empty", "version"].index(kind) + 1) + int(no) + (500000 if up else 0)


def coq_chain(c):
    v = c["v"] & (2 ** 32 - 1)
    b = lambda x: "true" if x else "false"
    return "(mk_chain_id %d %s %s %s %s)" % (v, b(c["pub"]), b(c["main"]), cb(c["magic"].encode()), cb(c["cons"].encode()))


def coq_hs_case(c, o):
    l, s = c["local"], c["status"]
    ver = {31: 769, 32: 770, 33: 771, 200: 131072}[c["hs"]]
    b = lambda x: "true" if x else "false"
    addr_ok = (not s["nil_sender"]) and ADDR_OK[s["addr"]]
    cert_ok = s["role"] != 3 or (len(s["producers"]) > 0 and not s["bad_cert"])
    loc = "(mk_local %s (forked_chain_id %s %d %d %d) %s %s)" % (
        coq_chain(l["chain"]), coq_chain(l["chain"]), l["v0"] & (2 ** 32 - 1), l["v1"] & (2 ** 32 - 1), l["fork"],
        cb(bytes.fromhex(l["genesis"])), cb(bytes.fromhex(l["peer"])))
    st = "(mk_status %s %s %d %s %s %s %s)" % (
        cb(bytes.fromhex(o["chain_id"])), cb(bytes.fromhex(s["best_hash"])), s["height"], b(addr_ok),
        cb(b"" if s["nil_sender"] else bytes.fromhex(s["peer"])), cb(bytes.fromhex(s["genesis"])), b(cert_ok))
    return ver, loc, st


# ------------------------------------------------------------------ run
def run(ctx):
    rng = ctx.rng
    quick = ctx.tier == "quick"
    import time
    tm = {}
    t0 = time.time()

    def lap(name):
        nonlocal t0
        tm[name] = round(tm.get(name, 0) + time.time() - t0, 1)
        t0 = time.time()
    pr = ctx.prove()
    lap("prove")
    ctx.cov["trusted_base"] = [
        "Coq 8.16.1 kernel + vm_compute", "Go toolchain and runtime.MemStats", "engines harness/engines/p2p/*.go",
        "case generator checks/C18.py", "gomock doubles of PeerManager/ActorService/ChainAccessor (reply path of DoForInbound only)",
        "protobuf (de)serialisation of types.Status", "C19 model of ChainID.Read (coq/Codec/ChainId.v)"]
    ctx.assumptions = [
        "a stream is a finite byte sequence ending in EOF; read timeouts / io errors other than EOF are outside the model",
        "message ids are 16 bytes, sub-protocol and length are uint32, timestamp is an int64 (bit pattern as uint64)",
        "CheckAddressType, certificate verification and protobuf decoding are oracles (address-class bit, certificate bit)",
        "sha256 is an arbitrary function H on header bytes; collision resistance is not used by the C18 theorems",
        "FindBestP2PVersion is modelled; only the AcceptedInboundVersions list and version constants are observed on the code",
        "F8 is reproduced at types.Block level; the block store / errBlocks behaviour is model only"]
    E = os.path.join(vf.HARNESS, "engines/p2p")
    rc, log, b030 = ctx.go_test_binary("p2p/v030", [os.path.join(E, "zz_verif_c18_frame_engine_test.go"),
                                                    os.path.join(E, "zz_verif_c18_hs030_engine_test.go")], "v030.test",
                                       overlay_extra={"p2p/v030/" + f: "" for f in MASK030}, use_overlay=False)
    if rc != 0:
        raise RuntimeError("v030 engine build failed:\n" + log[-3000:])
    rc, log, b200 = ctx.go_test_binary("p2p/v200", [os.path.join(E, "zz_verif_c18_hs200_engine_test.go")], "v200.test",
                                       overlay_extra={"p2p/v200/v200handshake_test.go": ""}, use_overlay=False)
    if rc != 0:
        raise RuntimeError("v200 engine build failed:\n" + log[-3000:])
    rc, log, btyp = ctx.go_test_binary("types", [os.path.join(E, "zz_verif_c18_blockid_engine_test.go")], "types.test", use_overlay=False)
    if rc != 0:
        raise RuntimeError("types engine build failed:\n" + log[-3000:])

    lap("go build")
    pred_fail = []     # (key, what, replay)
    corr = []          # (what, cases)
    dist = {}

    # ================================================================= framing: writes
    W = gen_writes(ctx)
    corpus = load_corpus(ctx)
    W = corpus.get("writes", []) + W
    rc, log, WO = run_engine(ctx, b030, "TestVerifC18FrameEngine", [{"op": "versions"}] + W, "frame_w")
    if rc != 0 or len(WO) != len(W) + 1:
        raise RuntimeError("frame engine (writes) failed rc=%s obs=%d/%d:\n%s" % (rc, len(WO), len(W) + 1, log[-3000:]))
    vers, WO = WO[0], WO[1:]
    real_max = vers["consts"][6]
    witems = []
    for c, o in zip(W, WO):
        payload = bytes.fromhex(c["payload"])
        decl = len(payload) if c["decl_len"] < 0 else c["decl_len"]
        m = coq_msg(c["proto"], decl, c["ts"], bytes.fromhex(c["id"]), bytes.fromhex(c["orig"]), payload)
        obs = "None" if o["cls"] != 0 else "(Some %s)" % cb(bytes.fromhex(o["bytes"]))
        witems.append("(%d, %s, %s)" % (c["max"], m, obs))
        # direct predicates on writes
        if o["cls"] == 4:
            pred_fail.append(("C18:write-panic", "WriteMsg panicked", {"case": c, "obs": o}))
        if decl > c["max"] and o["cls"] == 0:
            pred_fail.append(("C18:write-oversize-accepted", "WriteMsg accepted a payload above MaxPayloadLength", {"case": c, "obs": o}))
        if o["cls"] != 0 and o["bytes"]:
            pred_fail.append(("C18:write-error-partial", "WriteMsg returned an error after writing bytes", {"case": c, "obs": o}))
        if o["cls"] == 0 and len(o["bytes"]) // 2 != HDR + len(payload):
            pred_fail.append(("C18:write-length", "written frame is not header + payload long", {"case": c, "obs": o}))
        dist["write:" + ["ok", "size", "big", "other", "panic"][o["cls"]]] = dist.get("write:" + ["ok", "size", "big", "other", "panic"][o["cls"]], 0) + 1

    # ================================================================= framing: streams of messages on one connection
    # Several messages written by one writer and read by ONE reader, which holds on to every message and is
    # compared with what was written only after the whole stream has been read (later frames smaller than,
    # equal to and larger than earlier ones): the model has message VALUES (P2P/Stream.v), the implementation
    # hands out payload slices, so buffer sharing between the messages of a connection shows up only here.
    rng = ctx.rng
    ST = []

    def smsg(n, fill=None):
        pay = bytes([fill]) * n if fill is not None else rng.randbytes(n)
        return {"proto": rng.choice([1, 2, 3, 0x10, 0x11, 0x20, 0x3014, 2 ** 32 - 1]), "ts": rng.randrange(-2 ** 63, 2 ** 63),
                "id": hx(rng.randbytes(16)), "orig": hx(rng.randbytes(16)), "payload": hx(pay)}
    size_patterns = [[5, 3], [3, 5], [8, 8], [0, 4, 0], [100, 10, 1], [1, 10, 100], [7, 7, 7, 7], [300, 0, 299, 300, 1],
                     [LIM, 1, LIM], [4096, 4095, 4097, 2], [5000, 100, 4999]]
    for pat in size_patterns:
        mx = LIM if max(pat) <= LIM else 8192
        ST.append({"op": "stream", "max": mx, "msgs": [smsg(n, 0xa0 + i) for i, n in enumerate(pat)], "chunk": 0, "scribble": False})
        ST.append({"op": "stream", "max": mx, "msgs": [smsg(n) for n in pat], "chunk": rng.choice([0, 1, 7, 48, 49]), "scribble": True})
    for _ in range(12 if quick else 300):
        k = rng.randrange(2, 9)
        base = rng.choice([4, 64, 600])
        ST.append({"op": "stream", "max": LIM, "msgs": [smsg(rng.randrange(0, base + 1)) for _ in range(k)],
                   "chunk": rng.choice([0, 0, 3, 50]), "scribble": rng.random() < 0.5})
    rc, log, SO = run_engine(ctx, b030, "TestVerifC18FrameEngine", ST, "frame_stream")
    if rc != 0 or len(SO) != len(ST):
        raise RuntimeError("frame engine (streams) failed rc=%s obs=%d/%d:\n%s" % (rc, len(SO), len(ST), log[-3000:]))
    sitems, ssrc = [], []
    for c, o in zip(ST, SO):
        want = c["msgs"]
        held, at_read = o.get("held") or [], o.get("at_read") or []
        rep = {"case": {"max": c["max"], "chunk": c["chunk"], "sizes": [len(m["payload"]) // 2 for m in want], "msgs": want},
               "held_after_whole_stream": held, "seen_at_read": at_read, "err": o.get("err")}
        if o["cls"] != 0:
            pred_fail.append(("C18:stream-engine-error", "writing/reading a stream of messages failed: %s" % o.get("err"), rep))
            continue
        if at_read != want:
            pred_fail.append(("C18:stream-not-read-back", "a stream of messages written to one connection was not read back identically "
                              "(compared at the time of each read)", rep))
        if held != want:
            i = next((i for i, (a, b) in enumerate(zip(held, want)) if a != b), min(len(held), len(want)))
            pred_fail.append(("C18:stream-held-message-altered",
                              "message #%d of %d read from one connection differs from what was written once the later frames have been "
                              "read (payload sizes %s): messages delivered by ReadMsg share a buffer" % (
                                  i, len(want), [len(m["payload"]) // 2 for m in want]), rep))
        if o.get("err"):
            pred_fail.append(("C18:stream-payload-aliasing", o["err"], rep))
        if o.get("end_cls") != 1:
            pred_fail.append(("C18:stream-end", "reading past the last frame did not end with a clean header error", rep))
        ms = "[" + "; ".join(coq_msg(m["proto"], len(m["payload"]) // 2, m["ts"], bytes.fromhex(m["id"]), bytes.fromhex(m["orig"]),
                                    bytes.fromhex(m["payload"])) for m in want) + "]"
        hs_ = "[" + "; ".join(coq_msg(m["proto"], len(m["payload"]) // 2, m["ts"], bytes.fromhex(m["id"]), bytes.fromhex(m["orig"]),
                                     bytes.fromhex(m["payload"])) for m in held) + "]"
        sitems.append("(%d, %s, %s, %s)" % (c["max"], ms, cb(bytes.fromhex(o["wire"])), hs_))
        ssrc.append(rep)
        dist["stream:%d-msgs" % min(len(want), 5)] = dist.get("stream:%d-msgs" % min(len(want), 5), 0) + 1

    # ================================================================= framing: refused writes on one long-lived writer
    # One V030ReadWriter is handed accepted and refused messages alternately (payload above the limit by 1 / by a lot, declared
    # length != len(payload)) and goes on after each refusal; per call the bytes reaching the connection are counted, the writer is
    # flushed explicitly at the end, one reader reads the wire to its end.
    ST2 = []

    def smsg2(n, kind="ok", lim=LIM):
        m = smsg(n)
        if kind == "big1":
            m["payload"] = hx(rng.randbytes(lim + 1))
        elif kind == "big":
            m["payload"] = hx(rng.randbytes(lim + rng.choice([2, 48, 1000, 5000])))
        elif kind == "decl":
            m["use_decl"], m["decl_len"] = True, n + rng.choice([1, -1, 7]) if n > 0 else 1
        elif kind == "decl-big":
            m["use_decl"], m["decl_len"] = True, lim + 1       # declared above the limit, small payload: refused as invalid size
        elif kind == "decl-ok":
            m["use_decl"], m["decl_len"] = True, n             # consistent declared length through the same Message type
        return m
    pats = [["ok", "big1", "ok"], ["big1", "ok"], ["ok", "big1"], ["big1"], ["big1", "big1", "ok", "ok"], ["ok", "big", "ok", "big1", "ok"],
            ["ok", "decl", "ok"], ["decl", "ok"], ["ok", "decl"], ["decl-big", "ok"], ["decl", "big1", "decl", "ok"], ["decl-ok", "big1", "decl-ok"],
            ["ok", "ok", "big1", "ok", "decl", "ok", "big", "ok"]]
    for pat in pats:
        for lim in (LIM, 48, 1):
            ST2.append({"op": "stream2", "max": lim, "msgs": [smsg2(rng.randrange(0, min(lim, 60) + 1), k, lim) for k in pat],
                        "chunk": rng.choice([0, 1, 49]), "_pat": pat})
    for _ in range(15 if quick else 400):
        lim = rng.choice([LIM, 100, 16])
        pat = [rng.choice(["ok", "ok", "ok", "big1", "big", "decl", "decl-big", "decl-ok"]) for _ in range(rng.randrange(1, 9))]
        ST2.append({"op": "stream2", "max": lim, "msgs": [smsg2(rng.randrange(0, min(lim, 80) + 1), k, lim) for k in pat], "chunk": rng.choice([0, 0, 5]), "_pat": pat})
    ST2 += corpus.get("stream2", [])
    rc, log, SO2 = run_engine(ctx, b030, "TestVerifC18FrameEngine", ST2, "frame_stream2")
    if rc != 0 or len(SO2) != len(ST2):
        raise RuntimeError("frame engine (refused writes) failed rc=%s obs=%d/%d:\n%s" % (rc, len(SO2), len(ST2), log[-3000:]))
    s2items, s2src = [], []
    for c, o in zip(ST2, SO2):
        lim = c["max"]
        writes = o.get("writes") or []
        held = o.get("held") or []
        rep = {"case": {"max": lim, "chunk": c["chunk"], "pattern": c.get("_pat"), "msgs": [dict(m, payload_len=len(m["payload"]) // 2) for m in c["msgs"]]},
               "writes": writes, "wire_before_flush": o.get("wire_before"), "wire": o.get("wire"), "held": held, "end_cls": o.get("end_cls")}
        acc, exp_wire_len = [], 0
        for m, wobs in zip(c["msgs"], writes):
            plen = len(m["payload"]) // 2
            decl = m["decl_len"] if m.get("use_decl") else plen
            should = decl == plen and plen <= lim
            if wobs["cls"] == 4:
                pred_fail.append(("C18:write-panic", "WriteMsg panicked on a long-lived writer", rep))
            if (wobs["cls"] == 0) != should:
                pred_fail.append(("C18:write-refusal", "WriteMsg %s a message with payload %d, declared length %d, limit %d" % ("accepted" if wobs["cls"] == 0 else "refused", plen, decl, lim), rep))
            if wobs["cls"] != 0 and wobs["emitted"] != 0:
                pred_fail.append(("C18:refused-write-emits", "a refused WriteMsg put %d bytes on the connection" % wobs["emitted"], rep))
            if wobs["cls"] == 0:
                acc.append({k: m[k] for k in ("proto", "ts", "id", "orig", "payload")})
                exp_wire_len += HDR + plen
                if wobs["emitted"] != HDR + plen:
                    pred_fail.append(("C18:accepted-write-emits", "an accepted WriteMsg of a %d-byte payload put %d bytes on the connection (buffered bytes of an earlier refused write?)" % (plen, wobs["emitted"]), rep))
        o["wire"], o["wire_before"] = o.get("wire") or "", o.get("wire_before") or ""
        if o["wire"] != o["wire_before"]:
            pred_fail.append(("C18:refused-write-buffered", "bytes of a refused WriteMsg stayed in the writer's buffer and reached the connection at a later flush", rep))
        if len(o.get("wire", "")) // 2 != exp_wire_len:
            pred_fail.append(("C18:wire-not-accepted-frames", "the wire is %d bytes, the frames of the accepted messages are %d bytes" % (len(o.get("wire", "")) // 2, exp_wire_len), rep))
        if held != acc or o.get("end_cls") != 1:
            pred_fail.append(("C18:mixed-stream-not-read-back", "after refused writes on the same writer the reader did not get exactly the accepted messages followed by a clean end "
                              "(got %d of %d, end class %s)" % (len(held), len(acc), o.get("end_cls")), rep))
        cm = lambda m, ln: coq_msg(m["proto"], ln, m["ts"], bytes.fromhex(m["id"]), bytes.fromhex(m["orig"]), bytes.fromhex(m["payload"]))
        ws = "[" + "; ".join("(%s, (%d, %d))" % (cm(m, m["decl_len"] if m.get("use_decl") else len(m["payload"]) // 2), wobs["cls"], wobs["emitted"]) for m, wobs in zip(c["msgs"], writes)) + "]"
        hs2 = "[" + "; ".join(cm(m, len(m["payload"]) // 2) for m in held) + "]"
        s2items.append("(%d, %s, %s, %s)" % (lim, ws, cb(bytes.fromhex(o.get("wire", ""))), hs2))
        s2src.append(rep)
        dist["stream2:%s" % ("refused-last" if writes and writes[-1]["cls"] != 0 else "accepted-last")] = dist.get("stream2:%s" % ("refused-last" if writes and writes[-1]["cls"] != 0 else "accepted-last"), 0) + 1

    # ================================================================= framing: reads
    R = gen_reads(ctx, W, WO)
    for c in corpus.get("reads", []):
        R.append((c, "corpus", None))
    rc, log, RO = run_engine(ctx, b030, "TestVerifC18FrameEngine", [r[0] for r in R], "frame_r")
    if rc != 0 or len(RO) != len(R):
        # the engine died: the last case it did not answer is the failing input
        bad = R[len(RO)][0] if len(RO) < len(R) else None
        pred_fail.append(("C18:read-crash", "ReadMsg crashed the process (rc=%s)" % rc, {"case": bad, "log": log[-1500:]}))
        R = R[:len(RO)]
    # huge announced lengths, in a separate process, largest last
    big_hdr = []
    for ln in (2 ** 26, 2 ** 28, 2 ** 31 - 1, 2 ** 31, 2 ** 32 - 1):
        big_hdr.append(({"op": "read", "max": LIM, "stream": hx(header_bytes(1, ln, 1, b"\x01" * 16, b"\x02" * 16) + b"xyz"), "chunk": 0}, "oversize", None))
    # at the real limit
    realc = [({"op": "readbig", "max": 0, "stream": hx(header_bytes(0x11, real_max, 5, b"\x03" * 16, b"\x04" * 16)), "avail": real_max + 3}, "real", None),
             ({"op": "readbig", "max": 0, "stream": hx(header_bytes(0x11, real_max, 5, b"\x03" * 16, b"\x04" * 16)), "avail": real_max - 1}, "real", None),
             ({"op": "readbig", "max": 0, "stream": hx(header_bytes(0x11, real_max + 1, 5, b"\x03" * 16, b"\x04" * 16)), "avail": real_max + 1}, "real", None),
             ({"op": "readbig", "max": 0, "stream": hx(header_bytes(0x11, 2 ** 32 - 1, 5, b"\x03" * 16, b"\x04" * 16)), "avail": 100}, "real", None)]
    alloc_bad_small = [o for (c, k, wi), o in zip(R, RO) if o["alloc"] > alloc_cap(o["max"])]
    if not alloc_bad_small:
        rc, log, BO = run_engine(ctx, b030, "TestVerifC18FrameEngine", [r[0] for r in big_hdr + realc], "frame_big")
        if rc != 0 or len(BO) != len(big_hdr) + len(realc):
            bad = (big_hdr + realc)[len(BO)][0] if len(BO) < len(big_hdr) + len(realc) else None
            pred_fail.append(("C18:read-crash", "ReadMsg crashed the process on a huge announced length (rc=%s)" % rc,
                              {"case": bad, "log": log[-1500:]}))
        R += (big_hdr + realc)[:len(BO)]
        RO += BO
    ritems, bitems = [], []
    rcases, bcases = [], []
    for (c, kind, wi), o in zip(R, RO):
        mx = o["max"]
        dist["read:%s:%s" % (kind, ["ok", "hdr", "big", "payload", "panic"][o["cls"]])] = dist.get("read:%s:%s" % (kind, ["ok", "hdr", "big", "payload", "panic"][o["cls"]]), 0) + 1
        pred_fail += read_predicates(c, kind, wi, o, W, WO)
        # ---- model items
        if c["op"] == "read":
            stream = bytes.fromhex(c["stream"])
            if o["cls"] == 0:
                # observed payload / rest: when they are (as compared here, byte for byte) slices of the stream that was
                # sent, they are written as slices of it instead of being repeated (halves the size of the case file)
                pl, rs = bytes.fromhex(o["payload"]), bytes.fromhex(o["rest"])
                n = len(pl)
                pl_t = "(sub 48 %d s)" % (HDR + n) if (n > 8 and stream[HDR:HDR + n] == pl) else cb(pl)
                rs_t = "(drop %d s)" % (HDR + n) if (len(rs) > 8 and stream[HDR + n:] == rs) else cb(rs)
                m = "(mk_msg %d %d %d %s %s %s)" % (o["proto"], o["len"], u64(o["ts"]), cb(bytes.fromhex(o["id"])), cb(bytes.fromhex(o["orig"])), pl_t)
                rest = rs_t
            else:
                m, rest = "dummy_msg", "[]"
            ritems.append("(let s := %s in ((%d, s, %d, %s, %s), %d))" % (cb(stream), mx, o["cls"], m, rest, o["alloc"]))
            rcases.append((c, o))
        else:
            bitems.append("((%d, %s, %d), (%d, %d, %d))" % (mx, cb(bytes.fromhex(c["stream"])), c["avail"], o["cls"], o["paylen"], o["alloc"]))
            bcases.append((c, o))
            if o["cls"] == 0 and not (o["payzero"] and o["restlen"] == c["avail"] - o["paylen"]):
                pred_fail.append(("C18:roundtrip", "large frame: payload/rest not returned intact", {"case": c, "obs": o}))

    # ================================================================= handshake
    HS = gen_hs(ctx) + corpus.get("handshakes", []) + gen_inbound_frames(ctx, real_max) + gen_status_raw(ctx) + gen_agent(ctx)
    hs030 = [c for c in HS if c["hs"] != 200]
    hs200 = [c for c in HS if c["hs"] == 200]
    rc, log, O030 = run_engine(ctx, b030, "TestVerifC18HS030Engine", hs030, "hs030")
    if rc != 0 or len(O030) != len(hs030):
        raise RuntimeError("v030 handshake engine failed rc=%s obs=%d/%d:\n%s" % (rc, len(O030), len(hs030), log[-3000:]))
    rc, log, O200 = run_engine(ctx, b200, "TestVerifC18HS200Engine", hs200, "hs200")
    if rc != 0 or len(O200) != len(hs200):
        raise RuntimeError("v200 handshake engine failed rc=%s obs=%d/%d:\n%s" % (rc, len(O200), len(hs200), log[-3000:]))
    hitems, hcases = [], []
    fitems, fcases, mcases = [], [], []
    ritems_raw, raw_src = [], []
    f20 = {}
    for c, o in list(zip(hs030, O030)) + list(zip(hs200, O200)):
        l, s = c["local"], c["status"]
        if o.get("res_set") and o["accepted"] and not c.get("_frame"):
            d_ = o.get("dec")
            exp_no = d_["height"] if d_ else s["height"]
            exp_hash = d_["best_hash"] if d_ else s["best_hash"]
            exp_peer = d_["peer"] if d_ else o["peer_used"]
            if len(exp_hash) != 64:
                exp_hash = "00" * 32       # 0.3.x: ParseToBlockID error ignored, zero identifier
            if not (o["res_no"] == exp_no and o["res_hash"] == exp_hash and o["res_peer"] == exp_peer):
                pred_fail.append(("C18:handshake-result", "handshake %d reports a remote peer state (id / best hash / best height) that is not the one in the accepted status" % c["hs"], {"case": c, "obs": o}))
        if c.get("_raw") or c.get("_agent"):
            tag = c["_mut"].split(":")[0] + ":" + (c["_mut"].split(":")[1] if c.get("_agent") or c["_mut"].split(":")[1] in ("trunc", "flip", "random") else "crafted")
            dist["hs%d:%s" % (c["hs"], tag)] = dist.get("hs%d:%s" % (c["hs"], tag), 0) + 1
            hcases.append((c, o))
            if o["panic"]:
                pred_fail.append(("C18:handshake-panic", "handshaker %d panicked on a status message (%s)" % (c["hs"], c["_mut"]), {"case": c, "obs": o}))
                continue
            ver = {31: 769, 32: 770, 33: 771, 200: 131072}[c["hs"]]
            loc = "(mk_local %s (forked_chain_id %s %d %d %d) %s %s)" % (
                coq_chain(l["chain"]), coq_chain(l["chain"]), l["v0"], l["v1"], l["fork"], cb(bytes.fromhex(l["genesis"])), cb(bytes.fromhex(o["local_peer_used"])))
            if c.get("_agent"):
                certs = [(x["valid"], bytes.fromhex(x["agent"]), bytes.fromhex(x["bp"])) for x in (o["certs_used"] or [])]
                rs = coq_raw_status(bytes.fromhex(o["chain_id"]), bytes.fromhex(s["best_hash"]), s["height"], False, s["addr"], True, bytes.fromhex(o["peer_used"]),
                                    s["role"], [bytes.fromhex(x) for x in (o["producers_used"] or [])], bytes.fromhex(s["genesis"]), certs)
                ritems_raw.append("(%d, %s, (Some %s), false, %d)" % (ver, loc, rs, o["cls"]))
                raw_src.append(dict(case=c, obs=o))
                # direct predicate: the rule itself, from the case as built
                agent = s["role"] == 3
                ok_rule = (not agent) or (len(s["producers"]) > 0 and all((not x["tamper"]) and (not x["expired"]) and x["agent"] == s["peer"] and ("@bp%d" % x["bp"]) in s["producers"] for x in s["certs"]))
                should = ok_rule and s["peer"] == l["peer"]
                if o["accepted"] != should:
                    pred_fail.append(("C18:handshake-agent-rule", "2.0.0 agent/certificate rule: accepted=%s expected=%s (%s)" % (o["accepted"], should, c["_mut"]), {"case": c, "obs": o}))
                continue
            d = o.get("dec")
            if o["accepted"]:
                if not (d and d["ok"]) or d["nil_sender"] or d["peer"] != l["peer"] or not chain_raw_equiv(d["chain_id"], l["chain"], l["v0"] if (c["hs"] in (33, 200) and d["height"] < l["fork"]) else l["v1"]):
                    pred_fail.append(("C18:handshake-raw-accepted", "handshake %d accepted a status payload that does not decode to the local chain id / the connection's peer id (%s)" % (c["hs"], c["_mut"]), {"case": c, "obs": o}))
                elif c["hs"] != 31 and d["genesis"] != l["genesis"]:
                    pred_fail.append(("C18:handshake-genesis-v%03d" % c["hs"], "handshake %d accepted a status payload with a different genesis hash" % c["hs"], {"case": c, "obs": o}))
                elif c["hs"] == 200 and len(d["best_hash"]) != 64:
                    pred_fail.append(("C18:handshake-best-hash", "2.0.0 handshake accepted a best block hash that is not 32 bytes", {"case": c, "obs": o}))
            if d is None:
                continue
            if not d["ok"]:
                ritems_raw.append("(%d, %s, None, %s, %d)" % (ver, loc, "true" if c["hs"] != 200 else "false", o["cls"]))
                raw_src.append(dict(case=c, obs=o))
            elif (d["nil_sender"] or d["addr"] in ADDR_OK) and not (d["ncerts"] > 0 and d["role"] == 3):
                rs = coq_raw_status(bytes.fromhex(d["chain_id"]), bytes.fromhex(d["best_hash"]), d["height"], d["nil_sender"], d["addr"], d["naddrs"] > 0,
                                    bytes.fromhex(d["peer"]), d["role"] if d["role"] >= 0 else d["role"] + 2 ** 32, [bytes.fromhex(x) for x in (d["producers"] or [])], bytes.fromhex(d["genesis"]), [], port=d["port"])
                ritems_raw.append("(%d, %s, (Some %s), %s, %d)" % (ver, loc, rs, "true" if c["hs"] != 200 else "false", o["cls"]))
                raw_src.append(dict(case=c, obs=o))
            continue
        ver, loc, st = coq_hs_case(c, o)
        cls = o["cls"]
        if c.get("_frame"):
            # frame-level case: the whole inbound path against P2P/Inbound.v; the payload either decodes to the case's status
            # (real protobuf) or not at all (cls 23 observed -> decoder None)
            fitems.append("(%d, %s, %s, %s, %d, %d)" % (ver, loc, st, cb(bytes.fromhex(o["stream"])), o["maxlen"], cls))
            fcases.append((c, o))
        else:
            if c["mode"] != "check" and cls != 0:
                cls = 1000    # through frames: only accepted / refused is compared
            hitems.append("(%d, %s, %s, %d)" % (ver, loc, st, cls))
            mcases.append((c, o))
        hcases.append((c, o))
        if c.get("_frame"):
            dist["hs%d:frame:%s" % (c["hs"], {20: "read error", 21: "unexpected sub-protocol", 22: "goaway received", 23: "malformed status"}.get(o["cls"], GOAWAY_CLS.get(o["cls"], "other(%d)" % o["cls"])))] = dist.get("hs%d:frame:%s" % (c["hs"], {20: "read error", 21: "unexpected sub-protocol", 22: "goaway received", 23: "malformed status"}.get(o["cls"], GOAWAY_CLS.get(o["cls"], "other(%d)" % o["cls"]))), 0) + 1
            if o["panic"]:
                pred_fail.append(("C18:handshake-panic", "handshaker panicked on an inbound byte stream", {"case": c, "obs": o}))
            if o["accepted"] and (c.get("frame_proto", 0) not in (0, 1) or c.get("keep") or c.get("cut") or c.get("raw_stream")):
                pred_fail.append(("C18:handshake-bad-frame", "handshake completed although the first frame is not a complete StatusRequest", {"case": c, "obs": o}))
            continue
        dist["hs%d:%s:%s" % (c["hs"], c["mode"], GOAWAY_CLS.get(o["cls"], "other(%d)" % o["cls"]))] = dist.get("hs%d:%s:%s" % (c["hs"], c["mode"], GOAWAY_CLS.get(o["cls"], "other(%d)" % o["cls"])), 0) + 1
        # ---- direct predicates
        if o["panic"]:
            pred_fail.append(("C18:handshake-panic", "handshaker panicked on a status message", {"case": c, "obs": o}))
        if (not o["accepted"]) and not o["goaway"] and c["mode"] == "check":
            pred_fail.append(("C18:handshake-no-goaway", "status refused without a GoAway notice", {"case": c, "obs": o}))
        if o["accepted"]:
            same_gen = s["genesis"] == l["genesis"]
            same_peer = (not s["nil_sender"]) and s["peer"] == l["peer"]
            lv = l["chain"]["v"] if c["hs"] in (31, 32) else (l["v0"] if s["height"] < l["fork"] else l["v1"])
            if s["chain"] is not None:
                sc = s["chain"]
                same_chain = (sc["v"] == lv and sc["pub"] == l["chain"]["pub"] and sc["main"] == l["chain"]["main"]
                              and sc["magic"] == l["chain"]["magic"] and sc["cons"] == l["chain"]["cons"])
            else:
                same_chain = chain_raw_equiv(s["chain_raw"], l["chain"], lv)
            if not same_peer:
                pred_fail.append(("C18:handshake-peer-id", "handshake %d accepted a status whose peer id is not the connection's" % c["hs"], {"case": c, "obs": o}))
            if not same_chain:
                pred_fail.append(("C18:handshake-chain-id", "handshake %d accepted a status with a different chain id" % c["hs"], {"case": c, "obs": o}))
            if not same_gen:
                if c["hs"] == 31:
                    f20.setdefault("v031_accepts", (c, o))
                else:
                    pred_fail.append(("C18:handshake-genesis-v%03d" % c["hs"], "handshake %d accepted a status with a different genesis hash" % c["hs"], {"case": c, "obs": o}))
            if c["hs"] == 200 and len(s["best_hash"]) != 64:
                pred_fail.append(("C18:handshake-best-hash", "2.0.0 handshake accepted a best block hash that is not 32 bytes", {"case": c, "obs": o}))
        elif c["hs"] == 32 and o["cls"] == 6 and c["_mut"] == "genesis":
            f20.setdefault("v032_refuses", (c, o))
    if vers["vers"] and vers["vers"][0] != max(vers["vers"]):
        pred_fail.append(("C18:negotiation-order", "AcceptedInboundVersions does not start with its best version: a peer offering every accepted version is "
                          "given %#x instead of %#x" % (vers["vers"][0], max(vers["vers"])), {"requested": vers["vers"], "chosen": vers["vers"][0]}))
    v031_negotiable = 0x301 in vers["vers"]
    if "v031_accepts" in f20 and v031_negotiable:
        c, o = f20["v031_accepts"]
        pred_fail.append(("C18:F20-v031-no-genesis-check",
                          "P2P version 0.3.1 is in AcceptedInboundVersions and its handshaker accepts a status with a different genesis hash "
                          "(the 0.3.2 handshaker refuses the same status: %s)" % ("observed" if "v032_refuses" in f20 else "not observed"),
                          {"case": c, "obs": o, "accepted_inbound_versions": vers["vers"]}))

    # ================================================================= block identity
    BC = []
    for wire in (False, True):
        for field in ("", "genuine", "ab" * 32, "cd", "ef" * 33):
            for alter in (False, True):
                BC.append({"no": rng.randrange(1, 10 ** 6), "ts": rng.randrange(1, 2 ** 62), "prev": hx(rng.randbytes(32)), "coinbase": hx(rng.randbytes(33)),
                           "hash_field": field, "alter_hdr": alter, "wire": wire})
    for _ in range(10 if quick else 300):
        BC.append({"no": rng.randrange(0, 2 ** 64), "ts": rng.randrange(-2 ** 63, 2 ** 63), "prev": hx(rng.randbytes(rng.choice([0, 32]))), "coinbase": hx(rng.randbytes(rng.choice([0, 33]))),
                   "hash_field": rng.choice(["", "genuine", hx(rng.randbytes(rng.randrange(1, 40)))]), "alter_hdr": rng.random() < 0.3, "wire": rng.random() < 0.5})
    rc, log, BO2 = run_engine(ctx, btyp, "TestVerifC18BlockIDEngine", BC, "blockid")
    if rc != 0 or len(BO2) != len(BC):
        raise RuntimeError("blockid engine failed rc=%s obs=%d/%d:\n%s" % (rc, len(BO2), len(BC), log[-3000:]))
    kitems = []
    for c, o in zip(BC, BO2):
        kitems.append("(%s, %s, %s)" % (cb(bytes.fromhex(o["field"])), cb(bytes.fromhex(o["digest"])), cb(bytes.fromhex(o["block_hash"]))))
        dist["blockid:%s" % ("empty" if not o["field"] else "consistent" if o["field"] == o["digest"] else "forged")] = dist.get("blockid:%s" % ("empty" if not o["field"] else "consistent" if o["field"] == o["digest"] else "forged"), 0) + 1
        if o["block_hash"] != o["digest"]:
            if o["field"]:
                pred_fail.append(("C18:F8-blockhash-trusts-field",
                                  "types.Block.BlockHash()/BlockID() return the sender-supplied Hash field, which differs from the sha256 digest of the block's own header",
                                  {"case": c, "obs": o}))
            else:
                pred_fail.append(("C18:blockhash-empty-field", "BlockHash() of a block with an empty Hash field is not the digest of its header", {"case": c, "obs": o}))
        if o["block_id"][:len(o["block_hash"])] != o["block_hash"][:64]:
            pred_fail.append(("C18:blockid-differs", "BlockID() is not BlockHash()", {"case": c, "obs": o}))

    lap("engines")
    # ================================================================= thorough: chain-level F8, real FindBestP2PVersion
    chain_obs, neg_cases, neg_obs = [], [], []
    ci_items, ci_src = [], []
    # chain-service level F8 and the real FindBestP2PVersion need the overlay builds of packages chain and p2p; cached they cost
    # 1-8 s + 0.2 s (measured), so they run in every tier; VERIF_C18_NODEEP=1 skips them in the quick tier (cold build ~30 s each)
    deep = (not quick) or os.environ.get("VERIF_C18_NODEEP") != "1"
    if deep:
        rc, log, bchain = ctx.go_test_binary("chain", [os.path.join(E, "zz_verif_c18_chainf8_engine_test.go"),
                                                      os.path.join(E, "zz_verif_c18_chainid_engine_test.go")], "chain.test", use_overlay=True)
        if rc != 0:
            raise RuntimeError("chain F8 engine build failed:\n" + log[-3000:])
        rc, log, chain_obs = run_engine(ctx, bchain, "TestVerifC18ChainF8Engine", [], "chainf8")
        if rc != 0 or len(chain_obs) != 3:
            raise RuntimeError("chain F8 engine failed rc=%s obs=%d:\n%s" % (rc, len(chain_obs), log[-3000:]))
        for o in chain_obs:
            dist["chain:" + o["scenario"]] = 1
            if o["scenario"] == "forged" and (o["stored_under_announced"] and not o["stored_under_digest"]) and o["announced"] != o["digest"]:
                pred_fail.append(("C18:F8-blockhash-trusts-field",
                                  "ChainService.addBlock stores a block with a forged Hash field under the forged identifier only", {"obs": o}))
            if o["scenario"] == "poison" and o["genuine_err"]:
                pred_fail.append(("C18:F8-blockhash-trusts-field",
                                  "an altered block announcing the genuine identifier makes ChainService.addBlock reject the genuine block: " + o["genuine_err"], {"obs": o}))
            if o["scenario"] == "control" and not (o["add_err"] == "" and o["stored_under_digest"]):
                pred_fail.append(("C18:chain-control", "a genuine block with an empty Hash field was not stored under the digest of its header", {"obs": o}))
        # ---------------- chain identifier of received blocks: arrival orders through the real ChainService
        cicases = gen_chainid(ctx) + corpus.get("chainid", [])
        rc, log, ciobs = run_engine(ctx, bchain, "TestVerifC18ChainIDEngine", cicases, "chainid")
        if rc != 0 or len(ciobs) != len(cicases):
            raise RuntimeError("chain-id engine failed rc=%s obs=%d/%d:\n%s" % (rc, len(ciobs), len(cicases), log[-3000:]))
        for c, o in zip(cicases, ciobs):
            dist["chainid:" + c.get("_tag", "corpus")] = dist.get("chainid:" + c.get("_tag", "corpus"), 0) + 1
            foreign_labels = set()
            honest_seen = set()
            items = []
            for st_, so in zip(c["steps"], o["steps"]):
                if so.get("panic"):
                    pred_fail.append(("C18:chain-panic", "ChainService.addBlock panicked: " + so["panic"][:200], {"case": c, "obs": o}))
                if so["foreign"]:
                    foreign_labels.add(so["label"])
                    if so["cls"] == 0:
                        pred_fail.append(("C18:foreign-block-not-refused", "a block whose header carries another chain identifier (%s) was not refused by ChainService.addBlock" % so["label"], {"case": c, "obs": o}))
                else:
                    honest_seen.add(so["label"])
                bad = [l for l in (so["stored"] or []) + (so["main"] or []) + (so["orphans"] or []) + [so["best"]] if l in foreign_labels or (l.startswith("f") and not l.endswith(":version") and not l.endswith(":version^"))]
                if bad:
                    pred_fail.append(("C18:foreign-block-connected", "a block of another chain (%s) is stored / on the main chain / best / pooled as an orphan after the arrival of %s"
                                      % (", ".join(sorted(set(bad))), so["label"]), {"case": c, "obs": o}))
                if so["label"].startswith("h") and so["cls"] not in (0,):
                    pred_fail.append(("C18:honest-block-refused", "the honest block %s was refused (%s) after blocks of another chain had been delivered" % (so["label"], so["err"][:80]), {"case": c, "obs": o}))
                if c.get("_model", True):
                    no, kind = st_["no"], st_["kind"]
                    lab = so["label"]
                    parent = ci_id(("f%d:%s" % (no - 1, kind)) if st_.get("parent") == "same" else "h%d" % (no - 1))
                    items.append("(mk_cblock %d %d %d %s, (%d, %d, [%s], [%s]))" % (
                        ci_id(lab), parent, no, "true" if so["foreign"] else "false", so["cls"], ci_id(so["best"]),
                        ";".join(str(ci_id(l)) for l in ["h%d" % i for i in range(1, c["height"] + 1)] + (so["stored"] or [])),
                        ";".join(str(ci_id(l)) for l in (so["orphans"] or []))))
            # at the end: the honest chain delivered contiguously from height+1 is the main chain
            last = o["steps"][-1]
            n = c["height"]
            while "h%d" % (n + 1) in honest_seen:
                n += 1
            exp_main = ["h%d" % i for i in range(c["height"] + 1, n + 1)]
            if c.get("_model", True) and (last["main"] or []) != exp_main:
                pred_fail.append(("C18:honest-chain-affected", "after the script the main chain above height %d is %s, the honest blocks delivered are %s" % (c["height"], last["main"], exp_main), {"case": c, "obs": o}))
            if not c.get("_model", True):
                if any(l.endswith(":version") for so in o["steps"] for l in (so["main"] or [])):
                    ctx.notes.append("observation: a block whose header chain id differs only in the version was connected and was the best block for a while (ValidChildOf ignores the version; ValidateHeader has 'ChainVersion' as a TODO)")
                continue
            init = "; ".join("mk_cblock %d %d %d false" % (i, i - 1, i) for i in range(1, c["height"] + 1))
            ci_items.append("([%s], [%s])" % (init, ";\n ".join(items)))
            ci_src.append(dict(case=c, obs=o))
        rc, log, bp2p = ctx.go_test_binary("p2p", [os.path.join(E, "zz_verif_c18_negotiate_engine_test.go"),
                                                   os.path.join(E, "zz_verif_c18_blkrecv_engine_test.go"),
                                                   os.path.join(E, "zz_verif_c18_wirehs_engine_test.go"),
                                                   os.path.join(E, "zz_verif_c18_vershs_engine_test.go")], "p2p.test", use_overlay=True)
        if rc != 0:
            raise RuntimeError("negotiate engine build failed:\n" + log[-3000:])
        rundir = os.path.join(ctx.workdir, "p2prun")      # the package's own test init() loads ./test/sample/sample.key
        os.makedirs(os.path.join(rundir, "test", "sample"), exist_ok=True)
        for f in ("sample.key", "sample.pub", "sample.id"):
            if os.path.exists(os.path.join(ctx.repo, "p2p/test/sample", f)):
                shutil.copy(os.path.join(ctx.repo, "p2p/test/sample", f), os.path.join(rundir, "test", "sample", f))
        pool = [0x301, 0x302, 0x303, 0x20000, 0x300, 0x304, 0x10000, 0, 5, 0x20001]
        neg_cases = [[], [0x301], [0x302], [0x303], [0x20000], [0x300], [0x301, 0x302], [0x302, 0x301], [0x301, 0x20000], [0x300, 0x304]]
        for _ in range(300):
            neg_cases.append([rng.choice(pool) for _ in range(rng.randrange(0, 7))])
        fin, fout = os.path.join(ctx.workdir, "neg.in"), os.path.join(ctx.workdir, "neg.out")
        with open(fin, "w") as f:
            for c in neg_cases:
                f.write(json.dumps(c) + "\n")
        env = ctx.goenv()
        env.update({"VERIF_IN": fin, "VERIF_OUT": fout})
        rc, log = vf.sh([bp2p, "-test.run", "TestVerifC18NegotiateEngine"], cwd=rundir, env=env, timeout=600)
        if rc != 0:
            raise RuntimeError("negotiate engine failed:\n" + log[-3000:])
        neg_obs = [int(x) for x in open(fout).read().split()]
        if len(neg_obs) != len(neg_cases):
            raise RuntimeError("negotiate engine: %d observations for %d cases" % (len(neg_obs), len(neg_cases)))
        for c, v in zip(neg_cases, neg_obs):
            exp = next((a for a in vers["vers"] if a in c), 0)     # direct predicate: first accepted version the peer requested
            if v != exp:
                pred_fail.append(("C18:negotiation", "FindBestP2PVersion did not pick the first accepted version requested", {"requested": c, "chosen": v}))
        dist["negotiate"] = len(neg_cases)

    lap("deep engines")
    # ================================================================= block receive path (package p2p, overlay build)
    # Runs in every tier: the overlay build of package p2p is cached (measured 1-9 s when cached, ~30 s cold); set
    # VERIF_C18_NORECV=1 to skip it in the quick tier.
    recv_items, sm_items, recv_src, sm_src = [], [], [], []
    wire_marshal, wire_resp, wire_rresp, wire_read, wire_wire, wire_src, wire_wsrc, wire_consts, wire_sizes = [], [], [], [], [], [], [], None, None
    wire_out, wire_osrc = [], []
    vers_kind, vers_ksrc, vers_conn, vers_csrc = [], [], [], []
    if deep or os.environ.get("VERIF_C18_NORECV") != "1":
        t_b = time.time()
        rc, log, bp2p = ctx.go_test_binary("p2p", [os.path.join(E, "zz_verif_c18_negotiate_engine_test.go"),
                                                   os.path.join(E, "zz_verif_c18_blkrecv_engine_test.go"),
                                                   os.path.join(E, "zz_verif_c18_wirehs_engine_test.go"),
                                                   os.path.join(E, "zz_verif_c18_vershs_engine_test.go")], "p2p.test", use_overlay=True)
        if rc != 0:
            raise RuntimeError("p2p (negotiate + blkrecv) engine build failed:\n" + log[-3000:])
        tm["p2p overlay build"] = round(time.time() - t_b, 1)
        rundir = os.path.join(ctx.workdir, "p2prun")      # the package's own test init() loads ./test/sample/sample.key
        os.makedirs(os.path.join(rundir, "test", "sample"), exist_ok=True)
        for f in ("sample.key", "sample.pub", "sample.id"):
            if os.path.exists(os.path.join(ctx.repo, "p2p/test/sample", f)):
                shutil.copy(os.path.join(ctx.repo, "p2p/test/sample", f), os.path.join(rundir, "test", "sample", f))
        rcases, smcases = gen_recv(ctx)
        rcases += corpus.get("recv", [])
        smcases += corpus.get("sm", [])
        allc = [{"kind": "consts"}] + rcases + smcases
        fin, fout = os.path.join(ctx.workdir, "recv.in"), os.path.join(ctx.workdir, "recv.out")
        with open(fin, "w") as f:
            for c in allc:
                f.write(json.dumps(c) + "\n")
        if os.path.exists(fout):
            os.remove(fout)
        env = ctx.goenv()
        env.update({"VERIF_IN": fin, "VERIF_OUT": fout})
        rc, log = vf.sh([bp2p, "-test.run", "TestVerifC18BlkRecvEngine"], cwd=rundir, env=env, timeout=900)
        robs = [json.loads(l) for l in open(fout)] if os.path.exists(fout) else []
        if rc != 0 or len(robs) != len(allc):
            raise RuntimeError("blkrecv engine failed rc=%s obs=%d/%d:\n%s" % (rc, len(robs), len(allc), log[-3000:]))
        cache_cap = robs[0]["consts"][0]
        for c, o in zip(rcases, robs[1:1 + len(rcases)]):
            obs_items, told, ended = [], [], False
            for st, so in zip(c["steps"], o["steps"]):
                tells = so["tells"] or []
                if so.get("panic"):
                    pred_fail.append(("C18:recv-panic", "BlocksChunkReceiver.ReceiveResp panicked", {"case": c, "obs": o}))
                if len(tells) > 1 or (tells and told):
                    pred_fail.append(("C18:recv-told-twice", "the syncer was told more than once by one block receiver", {"case": c, "obs": o}))
                if so["offset"] > len(c["hashes"]):
                    pred_fail.append(("C18:recv-count", "the receiver kept more blocks than requested", {"case": c, "obs": o}))
                tc, tb = 0, []
                if tells:
                    t_ = tells[0]
                    told.append(t_)
                    if t_["err"] == 0:
                        tc, tb = 7, t_["blocks"] or []
                        got_ids = [b["hash"] for b in tb]
                        if got_ids != c["hashes"]:
                            pred_fail.append(("C18:recv-order", "blocks handed to the syncer are not the requested identifiers in order", {"case": c, "obs": o}))
                        if any(b["big"] for b in tb):
                            pred_fail.append(("C18:recv-too-big", "a block above the size limit was handed to the syncer", {"case": c, "obs": o}))
                        if c.get("real_ids") and any(not b["consistent"] for b in tb):
                            pred_fail.append(("C18:F8-receiver-compares-hash-field",
                                              "BlocksChunkReceiver delivered a block whose Hash field is the requested identifier but whose header has another digest",
                                              {"case": c, "obs": o}))
                    else:
                        tc = t_["err"]
                obs_items.append("(%d, %d, %d, [%s], %d)" % (so["status"], so["offset"], tc, "; ".join(coq_blk(b) for b in tb), so["consumed"]))
            recv_items.append("([%s], [%s], [%s])" % ("; ".join(cb(bytes.fromhex(h)) for h in c["hashes"]),
                                                      "; ".join("(%s, %s)" % ("true" if st["expired"] else "false", coq_body(st)) for st in c["steps"]),
                                                      "; ".join(obs_items)))
            recv_src.append(dict(case=c, obs=o))
            dist["recv:" + c.get("_tag", "corpus")] = dist.get("recv:" + c.get("_tag", "corpus"), 0) + 1
        for c, o in zip(smcases, robs[1 + len(rcases):]):
            ops_t, obs_t = [], []
            first_seen = {}
            for op, so in zip(c["ops"], o["ops"]):
                if op["op"] == "produced":
                    ops_t.append("OpProduced %s" % coq_blk(op["block"]))
                    b = op["block"]
                    if so["code"] == 3 and not (so["fwd_hash"] == b["hash"] and so["fwd_serial"] == b["serial"]):
                        pred_fail.append(("C18:notice-forward", "a different block than the announced one was forwarded", {"case": c, "obs": o}))
                    if len(b["hash"]) == 64:
                        prev = first_seen.get(b["hash"])
                        if prev is not None and so["code"] == 3 and len(first_seen) < cache_cap:
                            pred_fail.append(("C18:notice-duplicate", "a block-produced notice for an identifier already seen was forwarded again", {"case": c, "obs": o}))
                        if prev is not None and prev != ("P", b["serial"], b["big"]) and prev[0] == "P" and not b["big"] and so["code"] == 0 and b["serial"] < 100:
                            pred_fail.append(("C18:F8-notice-cache-keyed-by-hash-field",
                                              "a genuine block-produced notice was dropped as a duplicate of a different block that announced the same identifier",
                                              {"case": c, "obs": o}))
                        first_seen.setdefault(b["hash"], ("P", b["serial"], b["big"]))
                elif op["op"] == "notice":
                    ops_t.append("OpNotice %s %s" % (cb(bytes.fromhex(op["hash"])), "true" if op["known"] else "false"))
                    if len(op["hash"]) == 64:
                        if op["hash"] in first_seen and so["code"] != 0 and len(first_seen) < cache_cap:
                            pred_fail.append(("C18:notice-duplicate", "a new-block notice for an identifier already seen was acted on again", {"case": c, "obs": o}))
                        first_seen.setdefault(op["hash"], ("N",))
                else:
                    ops_t.append("OpResponse [%s]" % "; ".join(coq_blk(b) for b in op["blocks"]))
                obs_t.append("(%d, %d)" % (so["code"], so["cachelen"]))
            sm_items.append("(%d, [%s], [%s])" % (cache_cap, "; ".join(ops_t), "; ".join(obs_t)))
            sm_src.append(dict(case=c, obs=o))
            dist["sm:" + c.get("_tag", "corpus")] = dist.get("sm:" + c.get("_tag", "corpus"), 0) + 1
        # ---------------- wire handshake header (handshakev2.go) on the same binary
        wcases = gen_wire(ctx) + corpus.get("wire", [])
        fin, fout = os.path.join(ctx.workdir, "wire.in"), os.path.join(ctx.workdir, "wire.out")
        with open(fin, "w") as f:
            for c in wcases:
                f.write(json.dumps(c) + "\n")
        if os.path.exists(fout):
            os.remove(fout)
        env = ctx.goenv()
        env.update({"VERIF_IN": fin, "VERIF_OUT": fout})
        rc, log = vf.sh([bp2p, "-test.run", "TestVerifC18WireHSEngine"], cwd=rundir, env=env, timeout=900)
        wobs = [json.loads(l) for l in open(fout)] if os.path.exists(fout) else []
        if rc != 0 or len(wobs) != len(wcases):
            bad = wcases[len(wobs)] if len(wobs) < len(wcases) else None
            pred_fail.append(("C18:wire-crash", "the wire handshake engine died (rc=%s)" % rc, {"case": bad, "log": log[-1500:]}))
            wcases = wcases[:len(wobs)]
        NL = lambda l: "[" + ";".join(str(x) for x in (l or [])) + "]"
        for c, o in zip(wcases, wobs):
            k = c["op"] + ":" + c.get("_kind", "")
            dist["wire:" + k] = dist.get("wire:" + k, 0) + 1
            if o["cls"] == 4:
                pred_fail.append(("C18:wire-panic", "wire handshake code panicked on a byte stream", {"case": c, "obs": o}))
                continue
            if c["op"] == "consts":
                wire_consts = o["consts"]
            elif c["op"] == "maxblock":
                sz = o["sizes"]
                wire_sizes = sz
                if not (o["accepted"] and max(sz[3], sz[4]) <= sz[5] and sz[1] == sz[0]):
                    pred_fail.append(("C18:max-block-not-framable", "a block of the maximal legal size does not fit in / survive one frame", {"obs": o}))
            elif c["op"] == "marshal":
                wire_marshal.append("(%d, %s, %s)" % (c["magic"], NL(c["versions"]), cb(bytes.fromhex(o["bytes"]))))
            elif c["op"] == "resp":
                wire_resp.append("((%d, %d), %s)" % (c["magic"], c["code"], cb(bytes.fromhex(o["bytes"]))))
            elif c["op"] == "readresp":
                st = bytes.fromhex(c["stream"])
                wire_rresp.append("(%s, %s)" % (cb(st), "None" if o["cls"] != 0 else "(Some ((%d, %d), %s))" % (o["magic"], o["code"], cb(bytes.fromhex(o["rest"])))))
                if (len(st) < 8) != (o["cls"] != 0):
                    pred_fail.append(("C18:wire-resp", "readWireHSResp: error iff fewer than 8 bytes violated", {"case": c, "obs": o}))
            elif c["op"] == "read":
                st = bytes.fromhex(c["stream"])
                wire_read.append("(%s, %d, %d, %s, %s)" % (cb(st), o["cls"], o["magic"], NL(o["versions"]), cb(bytes.fromhex(o["rest"]))))
                wire_src.append(dict(case=c, obs=o))
                if o["alloc"] > 4096:
                    pred_fail.append(("C18:wire-alloc", "readWireHSRequest allocated %d bytes" % o["alloc"], {"case": c, "obs": o}))
                if c.get("_kind") == "trunc" and o["cls"] == 0:
                    pred_fail.append(("C18:wire-truncated", "a truncated handshake header was accepted", {"case": c, "obs": o}))
                if c.get("_kind") == "count" and len(st) >= 8 and int.from_bytes(st[4:8], "big") not in range(1, 17) and o["cls"] != 2:
                    pred_fail.append(("C18:wire-count", "a version count outside 1..16 was not refused as such", {"case": c, "obs": o}))
                if o["cls"] == 0 and not (1 <= len(o["versions"] or []) <= 16):
                    pred_fail.append(("C18:wire-count", "a header with %d versions was accepted" % len(o["versions"] or []), {"case": c, "obs": o}))
                if c.get("_kind") == "ok":
                    n = int.from_bytes(st[4:8], "big")
                    exp = [int.from_bytes(st[8 + 4 * i:12 + 4 * i], "big") for i in range(n)]
                    if not (o["cls"] == 0 and o["magic"] == MAGIC and o["versions"] == exp and o["rest"] == hx(st[8 + 4 * n:])):
                        pred_fail.append(("C18:wire-roundtrip", "a well-formed handshake header was not read back", {"case": c, "obs": o}))
            elif c["op"] == "wireout":
                st = bytes.fromhex(c["stream"])
                wire_out.append("(%s, %s, %d, %s)" % (cb(st), cb(bytes.fromhex(o["resp"])), o["chosen"], cb(bytes.fromhex(o["rest"]))))
                wire_osrc.append(dict(case=c, obs=o))
                if o["resp"] != hx(hs_hdr(MAGIC, o["versions"] or [])):
                    pred_fail.append(("C18:wire-outbound-request", "the outbound node did not start with the main-net magic and its attempted versions", {"case": c, "obs": o}))
                should = len(st) >= 8 and int.from_bytes(st[:4], "big") == MAGIC
                if o["accepted"] != should or (should and (o["chosen"] != int.from_bytes(st[4:8], "big") or o["rest"] != hx(st[8:]))):
                    pred_fail.append(("C18:wire-outbound", "outbound wire handshake: a response %s was %s" % ("with the main-net magic" if should else "without the main-net magic / incomplete",
                                      "followed" if o["accepted"] else "refused"), {"case": c, "obs": o}))
                if o["accepted"] and o["chosen"] == 0x301 and 0x20000 in (o["versions"] or []):
                    f20["outbound_downgrade"] = (c, o)
            elif c["op"] == "wire":
                st = bytes.fromhex(c["stream"])
                wire_wire.append("(%s, %s, %d, %s)" % (cb(st), cb(bytes.fromhex(o["resp"])), o["chosen"], cb(bytes.fromhex(o["rest"]))))
                wire_wsrc.append(dict(case=c, obs=o))
                # direct predicates from the header as sent
                wellformed = len(st) >= 8 and 1 <= int.from_bytes(st[4:8], "big") <= 16 and len(st) >= 8 + 4 * int.from_bytes(st[4:8], "big")
                req = [int.from_bytes(st[8 + 4 * i:12 + 4 * i], "big") for i in range(int.from_bytes(st[4:8], "big"))] if wellformed else []
                best = next((a for a in vers["vers"] if a in req), 0)
                should = wellformed and int.from_bytes(st[:4], "big") == MAGIC and best != 0
                if o["accepted"] != should or (should and o["chosen"] != best):
                    pred_fail.append(("C18:wire-negotiation", "inbound wire handshake: accepted=%s chosen=%#x, expected accepted=%s best=%#x" % (o["accepted"], o["chosen"], should, best), {"case": c, "obs": o}))
                if should and o["resp"] != hx((MAGIC).to_bytes(4, "big") + best.to_bytes(4, "big")):
                    pred_fail.append(("C18:wire-response", "the wire handshake response does not carry the magic and the chosen version", {"case": c, "obs": o}))
                if not should and o["resp"][:8] != "00000000":
                    pred_fail.append(("C18:wire-response", "a refused wire handshake was not answered with the error magic", {"case": c, "obs": o}))
                if should and o["rest"] != hx(st[8 + 4 * len(req):]):
                    pred_fail.append(("C18:wire-rest", "bytes after the handshake header did not reach the versioned handshaker intact", {"case": c, "obs": o}))
        # ---------------- whole connections through the real version manager and versioned handshakers
        vcases = gen_vershs(ctx) + corpus.get("vershs", [])
        fin, fout = os.path.join(ctx.workdir, "vers.in"), os.path.join(ctx.workdir, "vers.out")
        with open(fin, "w") as f:
            for c in vcases:
                f.write(json.dumps(c) + "\n")
        if os.path.exists(fout):
            os.remove(fout)
        env = ctx.goenv()
        env.update({"VERIF_IN": fin, "VERIF_OUT": fout})
        rc, log = vf.sh([bp2p, "-test.run", "TestVerifC18VersHSEngine"], cwd=rundir, env=env, timeout=900)
        vobs = [json.loads(l) for l in open(fout)] if os.path.exists(fout) else []
        if rc != 0 or len(vobs) != len(vcases):
            raise RuntimeError("vershs engine failed rc=%s obs=%d/%d:\n%s" % (rc, len(vobs), len(vcases), log[-3000:]))
        for c, o in zip(vcases, vobs):
            dist["conn:%s:%s" % (c["op"], c["_mut"].split("+")[0] if c["op"] != "type" else "type")] = dist.get("conn:%s:%s" % (c["op"], c["_mut"].split("+")[0] if c["op"] != "type" else "type"), 0) + 1
            if o.get("panic"):
                pred_fail.append(("C18:connection-panic", "a whole-connection handshake panicked: " + o["panic"][:200], {"case": c, "obs": o}))
                continue
            v = c["versions"][0]
            if c["op"] == "type":
                code = TYPE_CODE.get(o["type"], 9 if o["type_err"] else 8)
                vers_kind.append("(%d, %d)" % (v, code))
                vers_ksrc.append(dict(case=c, obs=o))
                exp = TYPE_OF_VERSION.get(v)
                if (exp is None) != (o["type"] == "") or (exp is not None and o["type"] != exp):
                    pred_fail.append(("C18:version-handshaker-type", "GetVersionedHandshaker(%#x) returned %s, the handshaker of that protocol version is %s"
                                      % (v, o["type"] or "an error", exp or "none (unsupported version)"), {"case": c, "obs": o}))
                continue
            # the version this connection runs at: inbound = the real negotiation's answer, outbound = the listener's answer
            if c["op"] == "inbound":
                run_v = next((a for a in vers["vers"] if a in c["versions"]), 0)
                if run_v and o["wire_resp"] != hx(MAGIC.to_bytes(4, "big") + run_v.to_bytes(4, "big")):
                    pred_fail.append(("C18:wire-response", "inbound connection: the wire answer is not (magic, best common version)", {"case": c, "obs": o}))
            else:
                run_v = v
            same_gen = o["gen_used"] == o["local_gen"]
            same_peer = (not c["nil_sender"]) and o["peer_used"] == o["conn_peer"]
            lv = c["chain"]["v"] if run_v in (0x301, 0x302) else (c["v0"] if c["height"] < c["fork"] else c["v1"])
            sc_ = c["schain"]
            same_chain = (sc_["v"] == lv and sc_["pub"] == c["chain"]["pub"] and sc_["main"] == c["chain"]["main"] and sc_["magic"] == c["chain"]["magic"] and sc_["cons"] == c["chain"]["cons"])
            if o["accepted"]:
                if run_v not in TYPE_OF_VERSION:
                    pred_fail.append(("C18:connection-unsupported-version", "a connection completed at the unsupported version %#x" % run_v, {"case": c, "obs": o}))
                if not same_peer:
                    pred_fail.append(("C18:handshake-peer-id", "a %s connection at version %#x completed with a peer id that is not the connection's" % (c["op"], run_v), {"case": c, "obs": o}))
                if not same_chain:
                    pred_fail.append(("C18:handshake-chain-id", "a %s connection at version %#x completed with a different chain id" % (c["op"], run_v), {"case": c, "obs": o}))
                if not same_gen:
                    if run_v == 0x301:
                        f20.setdefault("v031_accepts" if c["op"] == "inbound" else "outbound_downgrade_conn", (c, o))
                    else:
                        pred_fail.append(("C18:connection-genesis-v%x" % run_v, "a %s connection negotiated at version %#x (which exchanges the genesis hash) completed with a peer of a different genesis"
                                          % (c["op"], run_v), {"case": c, "obs": o}))
                if run_v == 0x20000 and len(c["best_hash"]) != 64:
                    pred_fail.append(("C18:handshake-best-hash", "a 2.0.0 connection completed with a best block hash that is not 32 bytes", {"case": c, "obs": o}))
                if o["res_no"] != c["height"] or o["res_peer"] != o["peer_used"]:
                    pred_fail.append(("C18:handshake-result", "the connection's handshake result does not carry the accepted status' peer id / height", {"case": c, "obs": o}))
            # model item: (version run, local, status, class)
            b_ = lambda x: "true" if x else "false"
            loc = "(mk_local %s (forked_chain_id %s %d %d %d) %s %s)" % (coq_chain(c["chain"]), coq_chain(c["chain"]), c["v0"], c["v1"], c["fork"],
                                                                       cb(bytes.fromhex(o["local_gen"])), cb(bytes.fromhex(o["conn_peer"])))
            stt = "(mk_status %s %s %d %s %s %s true)" % (cb(bytes.fromhex(o["chain_id"])), cb(bytes.fromhex(c["best_hash"])), c["height"],
                                                          b_((not c["nil_sender"]) and ADDR_OK[c["addr"]]), cb(b"" if c["nil_sender"] else bytes.fromhex(o["peer_used"])), cb(bytes.fromhex(o["gen_used"])))
            cls = o["cls"]
            if cls == 23 and c["nil_sender"] and run_v != 0x20000:
                # 0.3.x receiveRemoteStatus refuses a nil Sender as "malformed status message" before any check of the status
                # (v030_receive_ok in P2P/StatusRaw.v); run_handshaker models the checks only: refusal is all that is compared here
                if o["accepted"]:
                    pred_fail.append(("C18:handshake-nil-sender", "a 0.3.x connection completed with a status without Sender", {"case": c, "obs": o}))
                continue
            vers_conn.append("(%d, %s, %s, %d)" % (run_v, loc, stt, cls))
            vers_csrc.append(dict(case=c, obs=o))
    if "outbound_downgrade_conn" in f20 and "outbound_downgrade" not in f20:
        f20["outbound_downgrade"] = f20["outbound_downgrade_conn"]
    if "outbound_downgrade" in f20:
        c_, o_ = f20["outbound_downgrade"]
        pred_fail.append(("C18:F20-outbound-listener-picks-version",
                          "an outbound node that offered 2.0.0 follows a listener answering 0.3.1 (whose handshaker has no genesis check)", {"case": c_, "obs": o_}))
    lap("block receive engine")
    # ================================================================= model evaluation
    head = ["From Coq Require Import NArith List Bool Strings.Byte.", "From Verif Require Import Common.Bytes Codec.ChainId P2P.Frame P2P.Handshake P2P.BlockId.",
            "Import ListNotations.", "Open Scope N_scope.",
            "Definition hb (l : list byte) : bytes := map Byte.to_N l.",
            "Definition dummy_msg := mk_msg 0 0 0 [] [] [].",
            "Definition alloc_ok (a obs : N) : bool := (a <=? obs) && (obs <=? a + a / 8 + 16384).",
            "Definition rd_ok (c : (N * bytes * N * msg * bytes) * N) : bool := read_case_ok (fst c).",
            "Definition rd_alloc_ok (c : (N * bytes * N * msg * bytes) * N) : bool :=",
            "  let '((mx, s, _, _, _), obs) := c in alloc_ok (read_alloc mx s) obs.",
            "Definition big_ok (c : (N * bytes * N) * (N * N * N)) : bool :=",
            "  let '((mx, hdr, avail), (cls, plen, obs)) := c in let '(mc, ma) := read_hdr_class mx hdr avail in",
            "  (mc =? cls) && (if cls =? 0 then ma =? plen else true) && alloc_ok ma obs."]
    shards = []
    SH = 600 if quick else 1200
    for k in range(0, len(ritems), SH):
        shards.append(("rd%d" % (k // SH), "rd", k, head + [
            "Definition cases : list ((N * bytes * N * msg * bytes) * N) := [%s]." % ";\n".join(ritems[k:k + SH]),
            "Definition MRA := Eval vm_compute in (mismatches_from rd_ok cases 0, mismatches_from rd_alloc_ok cases 0).",
            "Definition MR := Eval vm_compute in fst MRA.", "Print MR.",
            "Definition MA := Eval vm_compute in snd MRA.", "Print MA."]))
    vlist = "[" + ";".join(str(v) for v in vers["vers"]) + "]"
    clist = "[" + ";".join(str(v) for v in vers["consts"][:6]) + "]"
    shards.append(("misc", "misc", 0, head + [
        "Definition wcases : list (N * msg * option bytes) := [%s]." % ";\n".join(witems),
        "Definition MW := Eval vm_compute in mismatches_from write_case_ok wcases 0.", "Print MW.",
        "Definition bcases : list ((N * bytes * N) * (N * N * N)) := [%s]." % ";\n".join(bitems),
        "Definition MB := Eval vm_compute in mismatches_from big_ok bcases 0.", "Print MB.",
        "Definition kcases : list (bytes * bytes * bytes) := [%s]." % ";\n".join(kitems),
        "Definition MK := Eval vm_compute in mismatches_from blockid_case_ok kcases 0.", "Print MK.",
        "Definition MV := Eval vm_compute in mismatches_from (fun c : list N * list N => bytes_eqb (fst c) (snd c))",
        "  [(accepted_inbound_versions, %s); ([v031; v032; v033; v200; v_unknown; header_len], %s)] 0." % (vlist, clist), "Print MV."]))
    shards.append(("stream", "stream", 0, head + [
        "From Verif Require Import P2P.Stream.",
        "Definition scases : list (N * list msg * bytes * list msg) := [%s]." % ";\n".join(sitems),
        "Definition MS := Eval vm_compute in mismatches_from stream_case_ok scases 0.", "Print MS.",
        "Definition s2cases : list (N * list (msg * (N * N)) * bytes * list msg) := [%s]." % ";\n".join(s2items),
        "Definition MS2 := Eval vm_compute in mismatches_from mixed_case_ok s2cases 0.", "Print MS2."]))
    HSH = 400
    hs_def = ["Definition hs_ok (c : N * local * status * N) : bool :=",
              "  let '(v, l, st, cls) := c in",
              "  if cls =? 1000 then negb (hs_case_ok (v, l, st, 0)) else hs_case_ok c."]
    for k in range(0, len(hitems), HSH):
        shards.append(("hs%d" % (k // HSH), "hs", k, head + hs_def + [
            "Definition hcases : list (N * local * status * N) := [%s]." % ";\n".join(hitems[k:k + HSH]),
            "Definition MH := Eval vm_compute in mismatches_from hs_ok hcases 0.", "Print MH."]))
    inb_def = ["From Verif Require Import P2P.Inbound.",
               "Definition in_class (r : inbound_result) : N :=",
               "  match r with InOk _ _ _ => 0 | InRefusedStatus _ e => err_class (Some e) | InMalformedStatus => 23",
               "  | InNotStatus (RecvReadError _) => 20 | InNotStatus RecvUnexpected => 21 | InNotStatus RecvGoAway => 22",
               "  | InNotStatus (RecvStatus _ _) => 99 | InNoVersion => 98 end.",
               "Definition inb_ok (c : N * local * status * bytes * N * N) : bool :=",
               "  let '(v, l, st, s, mx, cls) := c in",
               "  let dec := if cls =? 23 then (fun _ : bytes => None) else (fun _ : bytes => Some st) in",
               "  in_class (inbound dec mx l [v] s) =? cls."]
    if fitems:
        shards.append(("inb", "inb", 0, head + inb_def + [
            "Definition fcases : list (N * local * status * bytes * N * N) := [%s]." % ";\n".join(fitems),
            "Definition MI := Eval vm_compute in mismatches_from inb_ok fcases 0.", "Print MI."]))
    if deep:
        B = lambda x: "true" if x else "false"
        citems = []
        for o in chain_obs:
            kind = {"forged": 0, "poison": 1, "control": 2}[o["scenario"]]
            citems.append("(%d, %s, %s, (%s, %s, %s), (%s, %s))" % (
                kind, cb(bytes.fromhex(o["digest"])), cb(bytes.fromhex(o["announced"])), B(o["add_err"] == ""), B(o["stored_under_announced"]),
                B(o["stored_under_digest"]), B("errored blocks cache" in o["genuine_err"]), B(o["genuine_stored"])))
        nitems = ["([%s], %d)" % (";".join(str(x) for x in c), v) for c, v in zip(neg_cases, neg_obs)]
        shards.append(("chain", "chain", 0, head + [
            "Definition present (id : bytes) (st : store) : bool := match id with [] => false | _ => match lookup id (s_blocks st) with Some _ => true | None => false end end.",
            "Definition chain_ok (c : N * bytes * bytes * (bool * bool * bool) * (bool * bool)) : bool :=",
            "  let '(kind, digest, announced, (add_ok, under_ann, under_dig), (gen_cached, gen_stored)) := c in",
            "  let H := fun _ : bytes => digest in",
            "  let valid := fun b : block => bytes_eqb (b_header b) [0] in      (* header [0] genuine, [1] altered *)",
            "  let blk := mk_block announced (if kind =? 1 then [1] else [0]) in",
            "  let '(st1, r1) := add_block H valid empty_store blk in",
            "  Bool.eqb add_ok (match r1 with Added => true | _ => false end) &&",
            "  (if kind =? 1 then true else Bool.eqb under_ann (present announced st1) && Bool.eqb under_dig (present digest st1)) &&",
            "  (if kind =? 1 then let '(st2, r2) := add_block H valid st1 (mk_block [] [0]) in",
            "     Bool.eqb gen_cached (match r2 with ErrCached => true | _ => false end) && Bool.eqb gen_stored (present digest st2)",
            "   else true).",
            "Definition ccases : list (N * bytes * bytes * (bool * bool * bool) * (bool * bool)) := [%s]." % ";\n".join(citems),
            "Definition MC := Eval vm_compute in mismatches_from chain_ok ccases 0.", "Print MC.",
            "Definition ncases : list (list N * N) := [%s]." % ";\n".join(nitems),
            "Definition MN := Eval vm_compute in mismatches_from negotiate_case_ok ncases 0.", "Print MN."]))
    RSH = 500
    for k in range(0, len(ritems_raw), RSH):
        shards.append(("raw%d" % (k // RSH), "raw", k, head + [
            "From Verif Require Import P2P.StatusRaw.",
            "(* (version, local, decoded status or None, through the 0.3.x receive fix-up, observed class) *)",
            "Definition rawf_ok (c : N * local * option raw_status * bool * N) : bool :=",
            "  let '(v, l, ors, via030, cls) := c in",
            "  match ors with",
            "  | None => cls =? 23",
            "  | Some rs => if via030 && negb (v030_receive_ok rs) then cls =? 23 else raw_case_ok (v, l, rs, cls)",
            "  end.",
            "Definition rwcases : list (N * local * option raw_status * bool * N) := [%s]." % ";\n".join(ritems_raw[k:k + RSH]),
            "Definition MRW := Eval vm_compute in mismatches_from rawf_ok rwcases 0.", "Print MRW."]))
    if wire_read or wire_wire:
        wc = wire_consts or []
        ws = wire_sizes or [0] * 8
        shards.append(("wire", "wire", 0, head + [
            "From Verif Require Import P2P.Inbound P2P.WireHS P2P.Limits.",
            "Definition wmcases : list (N * list N * bytes) := [%s]." % ";\n".join(wire_marshal),
            "Definition MWM := Eval vm_compute in mismatches_from hs_marshal_case_ok wmcases 0.", "Print MWM.",
            "Definition wrcases : list (bytes * N * N * list N * bytes) := [%s]." % ";\n".join(wire_read),
            "Definition MWR := Eval vm_compute in mismatches_from hs_read_case_ok wrcases 0.", "Print MWR.",
            "Definition wwcases : list (bytes * bytes * N * bytes) := [%s]." % ";\n".join(wire_wire),
            "Definition MWW := Eval vm_compute in mismatches_from wire_case_ok wwcases 0.", "Print MWW.",
            "Definition wocases : list (bytes * bytes * N * bytes) := [%s]." % ";\n".join(wire_out),
            "Definition MWO := Eval vm_compute in mismatches_from wire_out_case_ok wocases 0.", "Print MWO.",
            "Definition wpcases : list ((N * N) * bytes) := [%s]." % ";\n".join(wire_resp),
            "Definition MWP := Eval vm_compute in mismatches_from (fun c : (N * N) * bytes => bytes_eqb (marshal_hs_resp (mk_hs_resp (fst (fst c)) (snd (fst c)))) (snd c)) wpcases 0.", "Print MWP.",
            "Definition wqcases : list (bytes * option ((N * N) * bytes)) := [%s]." % ";\n".join(wire_rresp),
            "Definition wq_ok (c : bytes * option ((N * N) * bytes)) : bool := match read_hs_resp (fst c), snd c with",
            "  | None, None => true | Some (r, rest), Some ((m, k), rest') => (hp_magic r =? m) && (hp_code r =? k) && bytes_eqb rest rest' | _, _ => false end.",
            "Definition MWQ := Eval vm_compute in mismatches_from wq_ok wqcases 0.", "Print MWQ.",
            "Definition MWC := Eval vm_compute in mismatches_from (fun c : list N * list N => list_N_eqb (fst c) (snd c))",
            "  [([magic_main; hs_error; hs_code_wrong_req; hs_code_no_version; hs_max_version_cnt; hs_word; hs_word; hs_word], %s);" % NL(wc),
            "   ([max_block_size block_size_hard_limit; max_payload_length; block_size_hard_limit; default_max_hdr_size], %s)] 0." % NL([ws[0], ws[5], ws[6], ws[7]]), "Print MWC.",
            "Definition MWE := Eval vm_compute in mismatches_from (fun c : N * N => (fst c + envelope <=? max_payload_length) && (snd c <=? fst c + envelope)) [(%d, %d)] 0." % (ws[1], max(ws[3], ws[4])), "Print MWE."]))
    if ci_items:
        shards.append(("chainid", "chainid", 0, ["From Coq Require Import NArith List Bool.", "From Verif Require Import Common.Bytes P2P.ChainAdmit.",
                                                 "Import ListNotations.", "Open Scope N_scope.",
            "Definition cicases : list (list cblock * list (cblock * (N * N * list N * list N))) := [%s]." % ";\n".join(ci_items),
            "Definition MCI := Eval vm_compute in mismatches_from chain_script_ok cicases 0.", "Print MCI."]))
    if vers_kind or vers_conn:
        shards.append(("vers", "vers", 0, head + [
            "Definition vkcases : list (N * N) := [%s]." % ";\n".join(vers_kind),
            "Definition MVK := Eval vm_compute in mismatches_from kind_case_ok vkcases 0.", "Print MVK.",
            "Definition vccases : list (N * local * status * N) := [%s]." % ";\n".join(vers_conn),
            "Definition MVC := Eval vm_compute in mismatches_from conn_case_ok vccases 0.", "Print MVC."]))
    if recv_items or sm_items:
        shards.append(("recv", "recv", 0, head + [
            "From Verif Require Import P2P.BlockRecv.",
            "Definition rvcases : list (list bytes * list (bool * body) * list step_obs) := [%s]." % ";\n".join(recv_items),
            "Definition MRV := Eval vm_compute in mismatches_from recv_case_ok rvcases 0.", "Print MRV.",
            "Definition smcases : list (N * list sm_op * list (N * N)) := [%s]." % ";\n".join(sm_items),
            "Definition MSM := Eval vm_compute in mismatches_from sm_case_ok smcases 0.", "Print MSM."]))
    from concurrent.futures import ThreadPoolExecutor
    with ThreadPoolExecutor(max_workers=4) as ex:      # shards are independent coqc processes
        outs = list(ex.map(lambda sh_: coq_eval(ctx, sh_[0], "\n".join(sh_[3])), shards))
    for (name, kind, off, txt), (rc, out) in zip(shards, outs):
        if rc != 0:
            corr.append(("model evaluation failed (%s)" % name, out[-2000:]))
            continue
        res = parse_lists(out)
        if kind == "rd":
            if "MR" not in res or "MA" not in res:
                corr.append(("model evaluation unparsable (%s)" % name, out[-1000:]))
                continue
            if res["MR"]:
                corr.append(("ReadMsg and read_msg differ (class / decoded fields / rest)", [dict(case=rcases[off + i][0], obs=rcases[off + i][1]) for i in res["MR"][:5]]))
            if res["MA"]:
                corr.append(("measured allocation of ReadMsg outside [alloc, alloc*9/8+16K] of the model", [dict(case=rcases[off + i][0], obs=rcases[off + i][1]) for i in res["MA"][:5]]))
        elif kind == "stream":
            if "MS2" not in res:
                corr.append(("model evaluation unparsable (%s MS2)" % name, out[-1000:]))
            elif res["MS2"]:
                corr.append(("one writer with refused writes interleaved and P2P/Stream.v (write_msg_emit / write_stream_mixed) differ", [s2src[i] for i in res["MS2"][:3]]))
            if "MS" not in res:
                corr.append(("model evaluation unparsable (%s)" % name, out[-1000:]))
            elif res["MS"]:
                corr.append(("a stream of messages on one connection and P2P/Stream.v (write_stream / read_stream) differ",
                             [ssrc[i] for i in res["MS"][:3]]))
        elif kind == "inb":
            if "MI" not in res:
                corr.append(("model evaluation unparsable (%s)" % name, out[-1000:]))
            elif res["MI"]:
                corr.append(("inbound handshake over a byte stream and P2P/Inbound.v differ", [dict(case=fcases[i][0], obs=fcases[i][1]) for i in res["MI"][:5]]))
        elif kind == "chainid":
            if "MCI" not in res:
                corr.append(("model evaluation unparsable (%s)" % name, out[-1000:]))
            elif res["MCI"]:
                corr.append(("ChainService.addBlock on an arrival script and add_block (P2P/ChainAdmit.v) differ", [ci_src[i] for i in res["MCI"][:3]]))
        elif kind == "vers":
            if "MVK" not in res or "MVC" not in res:
                corr.append(("model evaluation unparsable (%s)" % name, out[-1000:]))
            else:
                if res["MVK"]:
                    corr.append(("GetVersionedHandshaker's result type and versioned_handshaker (P2P/Handshake.v) differ", [vers_ksrc[i] for i in res["MVK"][:5]]))
                if res["MVC"]:
                    corr.append(("a whole connection through the real version manager and run_handshaker differ", [vers_csrc[i] for i in res["MVC"][:5]]))
        elif kind == "raw":
            if "MRW" not in res:
                corr.append(("model evaluation unparsable (%s)" % name, out[-1000:]))
            elif res["MRW"]:
                corr.append(("status check on a decoded status and P2P/StatusRaw.v differ", [raw_src[off + i] for i in res["MRW"][:5]]))
        elif kind == "wire":
            for key in ("MWM", "MWR", "MWW", "MWO", "MWP", "MWQ", "MWC", "MWE"):
                if key not in res:
                    corr.append(("model evaluation unparsable (%s %s)" % (name, key), out[-1000:]))
            if res.get("MWM"):
                corr.append(("HSHeadReq.Marshal and marshal_hs_req differ", {"indices": res["MWM"][:5]}))
            if res.get("MWR"):
                corr.append(("readWireHSRequest and read_hs_req (P2P/WireHS.v) differ", [wire_src[i] for i in res["MWR"][:5]]))
            if res.get("MWW"):
                corr.append(("handleInboundPeer and handle_inbound_wire (P2P/WireHS.v) differ", [wire_wsrc[i] for i in res["MWW"][:5]]))
            if res.get("MWO"):
                corr.append(("handleOutboundPeer and handle_outbound_wire (P2P/WireHS.v) differ", [wire_osrc[i] for i in res["MWO"][:5]]))
            if res.get("MWP") or res.get("MWQ"):
                corr.append(("HSHeadResp.Marshal / readWireHSResp and the model differ", {"marshal": res.get("MWP"), "read": res.get("MWQ")}))
            if res.get("MWC"):
                corr.append(("wire handshake / size limit constants differ from the model", {"consts": wire_consts, "sizes": wire_sizes}))
            if res.get("MWE"):
                corr.append(("the measured protobuf envelope of a maximal block exceeds the allowance of P2P/Limits.v", {"sizes": wire_sizes}))
        elif kind == "recv":
            if "MRV" not in res or "MSM" not in res:
                corr.append(("model evaluation unparsable (%s)" % name, out[-1000:]))
            else:
                if res["MRV"]:
                    corr.append(("BlocksChunkReceiver.ReceiveResp and receive_resp (P2P/BlockRecv.v) differ", [recv_src[i] for i in res["MRV"][:3]]))
                if res["MSM"]:
                    corr.append(("syncManager notice handlers and P2P/BlockRecv.v differ", [sm_src[i] for i in res["MSM"][:3]]))
        elif kind == "chain":
            if "MC" not in res or "MN" not in res:
                corr.append(("model evaluation unparsable (%s)" % name, out[-1000:]))
            else:
                if res["MC"]:
                    corr.append(("ChainService.addBlock and add_block differ", [chain_obs[i] for i in res["MC"][:5]]))
                if res["MN"]:
                    corr.append(("FindBestP2PVersion and find_best_version differ", [dict(requested=neg_cases[i], chosen=neg_obs[i]) for i in res["MN"][:5]]))
        elif kind == "misc":
            for key in ("MW", "MB", "MK", "MV"):
                if key not in res:
                    corr.append(("model evaluation unparsable (%s %s)" % (name, key), out[-1000:]))
            if res.get("MW"):
                corr.append(("WriteMsg and write_msg differ (bytes or error)", [dict(case=W[i], obs=WO[i]) for i in res["MW"][:5]]))
            if res.get("MB"):
                corr.append(("ReadMsg and the model differ at the real limit", [dict(case=bcases[i][0], obs=bcases[i][1]) for i in res["MB"][:5]]))
            if res.get("MK"):
                corr.append(("Block.BlockHash and block_hash differ", [dict(case=BC[i], obs=BO2[i]) for i in res["MK"][:5]]))
            if res.get("MV"):
                corr.append(("AcceptedInboundVersions / version constants differ from the model", {"observed": vers}))
        else:
            if "MH" not in res:
                corr.append(("model evaluation unparsable (%s)" % name, out[-1000:]))
            elif res["MH"]:
                corr.append(("checkRemoteStatus and the model differ", [dict(case=mcases[off + i][0], obs=mcases[off + i][1]) for i in res["MH"][:5]]))

    lap("model evaluation")
    ctx.cov["timing_s"] = tm
    # ================================================================= evidence
    evals = len(W) + len(R) + len(ST) + len(ST2) + len(HS) + len(BC) + len(chain_obs) + len(neg_cases)
    evals += len(recv_items) + len(sm_items) + len(wire_marshal) + len(wire_resp) + len(wire_rresp) + len(wire_read) + len(wire_wire) + len(wire_out) + len(vers_kind) + len(vers_conn) + sum(len(x["case"]["steps"]) for x in ci_src)
    ctx.cov["evaluations"] = evals
    ctx.cov["traces_validated_against_impl"] = evals
    nontriv = set()
    for (c, kind, wi), o in zip(R, RO):
        nontriv.add(("read", kind, o["cls"], min(o["paylen"], 64) if o["cls"] == 0 else len(c["stream"]) // 2 if kind == "trunc" else 0, c.get("chunk", 0) > 0))
    for c, o in zip(W, WO):
        nontriv.add(("write", o["cls"], c["max"], min(len(c["payload"]) // 2, 64), c["proto"] if c["proto"] in PROTOS else -1))
    for c, o in hcases:
        nontriv.add(("hs", c["hs"], c["mode"], c["_mut"] if "_mut" in c else "corpus", o["cls"]))
    for c, o in zip(BC, BO2):
        nontriv.add(("blk", c["hash_field"][:4], c["alter_hdr"], c["wire"], o["block_hash"] == o["digest"]))
    for x in recv_src:
        nontriv.add(("recv", x["case"].get("_tag", "corpus"), len(x["case"]["hashes"]), tuple((so["status"], (so["tells"] or [{"err": -1}])[0]["err"]) for so in x["obs"]["steps"])))
    for x in ci_src:
        nontriv.add(("chainid", x["case"].get("_tag"), tuple((so["label"], so["cls"], so["best"]) for so in x["obs"]["steps"])))
    for x in vers_ksrc + vers_csrc:
        nontriv.add(("conn", x["case"]["op"], tuple(x["case"]["versions"]), x["case"]["_mut"], x["obs"]["cls"], x["obs"]["type"]))
    for x in wire_src + wire_wsrc + wire_osrc:
        nontriv.add(("wire", x["case"]["op"], x["case"].get("_kind"), x["obs"]["cls"], x["obs"]["chosen"], min(len(x["case"]["stream"]) // 2, 24)))
    for x in sm_src:
        nontriv.add(("sm", x["case"].get("_tag", "corpus"), tuple(so["code"] for so in x["obs"]["ops"][:12])))
    ctx.cov["distinct_nontrivial"] = len(nontriv)
    ctx.cov["rule"] = ("distinct (operation, case kind, outcome class, size bucket) tuples: reads by (kind in rt/trunc/flip/oversize/rnd/real, "
                       "class, payload length capped at 64 or truncation offset, chunked reader), writes by (class, limit, payload length "
                       "capped at 64, sub-protocol id), handshakes by (handshaker, mode, mutated field(s), error class), blocks by "
                       "(hash field kind, header altered, through protobuf, consistent), block-receiver scripts by (scenario, request length, per-step "
                       "(status, told error)), syncManager scripts by (scenario, per-op decision)")
    ctx.cov["input_distribution"] = dict(sorted(dist.items()))
    ctx.cov["limits"] = {"lowered_max_payload": LIM, "real_max_payload": real_max, "accepted_inbound_versions": vers["vers"]}
    for x in (dict(write=W[0], obs=WO[0]), dict(read=R[0][0], obs=RO[0]), dict(handshake={k: v for k, v in hcases[0][0].items()}, obs=hcases[0][1]),
              dict(block=BC[2], obs=BO2[2])):
        ctx.sample(x)

    # ================================================================= decide
    new_fail = False
    seen = set()
    for key, what, replay in pred_fail:
        if key in seen:
            continue
        seen.add(key)
        if ctx.finding(key, what, replay):
            new_fail = True
    if (corr or not pr["ok"]) and not new_fail:
        # directed search for a failing input before reporting a correspondence / proof break without one: more streams of
        # the framing kinds (the bulk of the input space), direct predicates only
        class _T:
            pass
        t = _T()
        t.rng, t.tier = rng, "thorough"
        extra = gen_reads(t, W, WO)
        rc, log, XO = run_engine(ctx, b030, "TestVerifC18FrameEngine", [r[0] for r in extra], "frame_search")
        found = []
        for (c, kind, wi), o in zip(extra, XO):
            found += read_predicates(c, kind, wi, o, W, WO)
        ctx.notes.append("search after correspondence/proof break: %d extra streams, %d predicate failures" % (len(XO), len(found)))
        seen2 = set()
        for key, what, replay in found:
            if key not in seen2:
                seen2.add(key)
                if ctx.finding(key, what, replay):
                    new_fail = True
    if not pr["ok"] and not new_fail:
        ctx.violation("proof obligation no longer checks: %s" % pr["broken"], {"theorem_or_file": pr["broken"], "log": pr["log"][-3000:]}, no_input=True)
    if corr and not new_fail:
        ctx.violation("correspondence broken: " + corr[0][0], {"correspondence": [c[0] for c in corr], "cases": corr[0][1]}, no_input=True)


def read_predicates(c, kind, wi, o, W, WO):
    """Direct predicates on one ReadMsg observation (independent of the model)."""
    pred_fail = []
    mx = o["max"]
    if o["cls"] == 4:
        pred_fail.append(("C18:read-panic", "ReadMsg panicked on a byte stream", {"case": c, "obs": o}))
    if o["alloc"] > alloc_cap(mx):
        pred_fail.append(("C18:read-alloc", "ReadMsg allocated %d bytes with MaxPayloadLength=%d" % (o["alloc"], mx), {"case": c, "obs": o}))
    if kind == "oversize" and o["cls"] != 2:
        pred_fail.append(("C18:read-oversize", "header announcing more than the maximum was not refused as too big", {"case": c, "obs": o}))
    if kind == "trunc" and o["cls"] not in (1, 3):
        pred_fail.append(("C18:read-truncated", "a strict prefix of a written frame did not fail with a header/payload error", {"case": c, "obs": o}))
    if kind == "rt":
        wc = W[wi]
        fb = bytes.fromhex(WO[wi]["bytes"])
        st = bytes.fromhex(c["stream"])
        ok = (o["cls"] == 0 and o["proto"] == wc["proto"] and o["ts"] == wc["ts"] and o["id"] == wc["id"] and o["orig"] == wc["orig"]
              and o["payload"] == wc["payload"] and o["len"] == len(wc["payload"]) // 2 and o["rest"] == hx(st[len(fb):]))
        if not ok:
            pred_fail.append(("C18:roundtrip", "a message written by WriteMsg was not read back identically by ReadMsg", {"written": wc, "frame": WO[wi]["bytes"], "case": c, "obs": o}))
    if o["cls"] == 0 and "_exp" in c:
        e = c["_exp"]
        if not (o["proto"] == e["proto"] and o["len"] == e["len"] and o["ts"] == e["ts"] and o["id"] == e["id"] and o["orig"] == e["orig"]):
            pred_fail.append(("C18:wire-format", "ReadMsg decoded header fields differently from the wire format "
                              "(BE uint32 sub-protocol, BE uint32 length, BE int64 timestamp, id, original id)", {"case": c, "obs": o}))
    if o["cls"] == 0 and o["paylen"] > mx:
        pred_fail.append(("C18:read-big-accepted", "ReadMsg returned a payload above MaxPayloadLength", {"case": c, "obs": o}))
    return pred_fail


def alloc_cap(mx):
    """Direct bound on the measured heap delta of one ReadMsg: the configured maximum plus
    size-class rounding (<= 1/8) and 16 KiB for the message value, error strings and runtime noise."""
    return mx + mx // 8 + 16384


def chain_raw_equiv(raw_hex, lc, lv):
    """Does a raw chain id byte string denote the local chain id (version, flags != 0, magic/consensus)?  Independent of the model."""
    b = bytes.fromhex(raw_hex)
    if len(b) < 6:
        return False
    v = int.from_bytes(b[:4], "little", signed=True)
    parts = b[6:].split(b"/")
    return (len(parts) == 2 and v == lv and (b[4] != 0) == lc["pub"] and (b[5] != 0) == lc["main"]
            and parts[0] == lc["magic"].encode() and parts[1] == lc["cons"].encode())


def load_corpus(ctx):
    d = os.path.join(ctx.verif, "corpus", "C18")
    res = {}
    if os.path.isdir(d):
        for f in sorted(os.listdir(d)):
            if f.endswith(".json"):
                j = json.load(open(os.path.join(d, f)))
                for k, v in j.items():
                    if isinstance(v, list):
                        res.setdefault(k, []).extend(v)
    return res

"""C19 Canonical, binding encodings of blocks, transactions, receipts, chain id, hardfork versions.
Proof: coq/Properties/C19.v over coq/Codec/*.v (+ coq/Gen/FieldLists.v regenerated from the tree
under test by gen/gen_fieldlists.go on every run).
Correspondence: in-package engines of `types`, `account/key`, `internal/merkle`, `config` vs the
Gallina encoders evaluated by vm_compute on the same cases (byte-exact preimages and encodings)."""
import json
import os
import sys
import time

import vf

sys.path.insert(0, os.path.join(vf.VERIF, "lib"))
import g2codec as G  # noqa: E402

META = {
    "text": "Theorems (Coq, no axioms): for the block identifier input (12 fields), the signed header input (11), the transaction "
            "identifier input (10) and the signed transaction input (9), changing any single field changes the byte string (hence the "
            "identifier unless the hash collides) and the signed inputs omit exactly Sign; with equal field lengths the inputs are "
            "injective (without: refuted, no length prefixes are written); merkle / transaction / receipts root binding for lists of "
            "equal length (or a collision), the list length NOT bound (F5, refuted for every hash); receipt store round trips V1/V2 "
            "and receipt-list round trips with/without bloom under a stated well-formedness predicate; the merkle leaf input of each "
            "format version determines every field that version commits to (V1 has no GasUsed/FeeDelegation: F17 refuted witnesses); "
            "chain id round trip when magic/consensus contain no '/' (F6 refuted otherwise); hardfork version monotone in the height, "
            "CheckCompatibility => same versions up to the checked height, Version consistent with IsVnFork for validated configs. "
            "The field lists the encoders are defined over are proved equal (vm_compute) to the lists extracted from the Go structs and "
            "writer functions on every run; the encoders/decoders are compared byte-exactly with the real functions on corpus, random, "
            "single-field-mutated and ill-formed inputs on every run, together with direct predicates on the implementation.",
    "note": "Trusted: Coq kernel/vm_compute; gen_fieldlists (go/parser) translator; Go engines and case generator; SHA-256 is a Section "
            "variable in the theorems (collision disjunct) and an executable Gallina SHA-256 in the correspondence; bloom filter, "
            "protobuf and gob are opaque bytes (genesis info round trip is observed on the implementation only); the level-list merkle "
            "model is proved equal to the literal array algorithm of merkle.go (merkle_root_array_eq) and both are compared with Go "
            "each run; CumulativeFeeUsed (never set by the node) must be empty for the receipt round trips (refuted otherwise, latent); "
            "known findings F5, F6, F17 are reproduced on the real code each run.",
    "technique": "Coq proofs over Gallina codec models + go/parser field-list translator + vm_compute byte-exact correspondence",
}


def run(ctx):
    quick = ctx.tier == "quick"
    ctx.cov["trusted_base"] = [
        "Coq 8.16.1 kernel + vm_compute", "Go toolchain (native build of types, account/key, internal/merkle, config)",
        "gen/gen_fieldlists.go (go/parser)", "case generator lib/g2codec.py + checks/C19.py",
        "Gallina SHA-256 (Common/Sha256.v), compared with Go's sha256 on every run",
    ]
    ctx.assumptions = [
        "hash function is a parameter of every binding theorem; conclusions carry the disjunct `collision H`",
        "integers are within their Go types (uint64 < 2^64, int64/int32 ranges); byte strings are arbitrary",
        "receipt round trips assume the stated wf predicate (33-byte addresses, 32-byte tx hash, status in the four-element enum, "
        "CumulativeFeeUsed empty, bloom empty or 256 bytes, event address first byte non-zero or equal to the receipt's)",
    ]
    # ---- translator: field lists of the tree under test -> coq/Gen/FieldLists.v
    gen_out = os.path.join(vf.COQ, "Gen", "FieldLists.v")
    rc, log = vf.sh(["go", "run", os.path.join(vf.VERIF, "gen", "gen_fieldlists.go"), ctx.repo, gen_out],
                    cwd=ctx.repo, env=ctx.goenv(), timeout=300)
    if rc != 0:
        raise RuntimeError("gen_fieldlists failed:\n" + log[-3000:])
    t0 = time.time()
    pr = ctx.prove(extra_targets=G.EXTRA_TARGETS)
    ctx.notes.append("timing: translator %.1fs, proof build (incl. waiting for the shared coq lock) %.1fs" % (t0 - ctx.t0, time.time() - t0))

    if ctx.tier == "thorough" and pr["ok"]:
        # independent re-check of the compiled property file and its dependency cone
        with vf.Lock("coq"):
            rc, out = vf.sh(["coqchk", "-silent", "-o", "-Q", vf.COQ, "Verif", "Verif.Properties.C19"], cwd=vf.COQ, timeout=1500)
        if rc != 0 or "Axioms: <none>" not in " ".join(out.split()):
            pr["ok"], pr["broken"] = False, "coqchk"
            pr["log"] += out[-2000:]
        else:
            ctx.notes.append("coqchk -silent -o Verif.Properties.C19: no axioms, no assumed positivity/guard/type-in-type")
    st = G.State(ctx)
    G.run_types_engine(ctx, st)
    for fam in G.EXTRA_FAMILIES:
        t1 = time.time()
        fam(ctx, st)
        ctx.notes.append("timing: %s %.1fs" % (fam.__name__, time.time() - t1))
    t1 = time.time()
    G.evaluate_model(ctx, st)
    ctx.notes.append("timing: model evaluation %.1fs" % (time.time() - t1))

    ctx.cov["evaluations"] = st.evals
    ctx.cov["traces_validated_against_impl"] = st.evals
    ctx.cov["distinct_nontrivial"] = len(st.nontrivial)
    ctx.cov["rule"] = st.rule()
    ctx.cov["input_distribution"] = st.dist
    # refuted statements: each witness is reproduced on the real code (findings F5/F6/F17/getReceipt come through ctx.finding)
    for key, name in (("C19:F5-merkle-length-not-bound", "C19_merkle_length_not_bound_refuted"), ("C19:F6-chainid-slash", "C19_chain_id_slash_refuted"),
                      ("C19:F17-v1-receipt-drops-feedelegation-gasused", "C19_receipt_v1_drops_feedelegation_refuted / C19_receipt_merkle_v1_misses_feedelegation_refuted"),
                      ("C19:getreceipt-index-equal-length-panics", "C19_get_receipt_total_refuted")):
        st.witnesses[name] = (any(f[0] == key for f in st.findings), "reported as KNOWN-FINDING " + key)
    if st.getreceipt_repaired and not st.witnesses["C19_get_receipt_total_refuted"][0]:
        st.witnesses["C19_get_receipt_total_refuted"] = (True, "REPAIRED in the tree under test (getReceipt(len) returns an error): the code now follows "
                                                               "get_receipt_fixed / C19_get_receipt_fixed_total")
    ctx.cov["refuted_statements_reproduced"] = {k: {"reproduced": bool(v[0]), "how": v[1]} for k, v in sorted(st.witnesses.items())}
    lost = [k for k, v in st.witnesses.items() if not v[0]]
    if lost and ctx.repo == "/repo":
        st.corr_broken.append(("witness of a refuted statement no longer reproduces on the real code (the model must follow): %s" % lost,
                               [st.witnesses[k][1] for k in lost]))
    if st.aliasing_notes:
        ctx.notes.append("aliasing observed (by design, informational): " + "; ".join(sorted(st.aliasing_notes)))

    # ---- decide (direct-predicate failures first; one report per failing class)
    seen = set()
    for key, what, case in st.findings:
        if key in seen:
            continue
        seen.add(key)
        if len(seen) <= 12:
            ctx.finding(key, what, case)
    real_fail = [f for f in st.findings if ctx.known_match(f[0]) is None]
    if not pr["ok"] and not real_fail:
        ctx.violation("proof obligation no longer checks: %s" % pr["broken"],
                      {"theorem_or_file": pr["broken"], "log": pr["log"][-3000:]}, no_input=True)
    if st.corr_broken and not real_fail:
        what, cases = st.corr_broken[0]
        ctx.violation("correspondence broken: " + what, {"correspondence": what, "cases": cases,
                                                         "all": [w for w, _ in st.corr_broken]}, no_input=True)

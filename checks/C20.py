"""C20 Contract queries and view functions cannot change state.
The LuaJIT VM cannot be built or run here: the tie to the source is a translator.  gen/gen_vmguard
(go/parser) turns every exported host callback of contract/vm_callback.go and everything it calls
inside package contract into a term of coq/VmGuard/Lang.v (coq/Gen/Callbacks.v, regenerated on
every run); Properties/C20.v proves `check program callbacks = true` by vm_compute and concludes by
the analyser's soundness theorem.  A Python scanner covers the C side (which callbacks the
Lua-registered C functions call, luaCheckView guards before SQL writes)."""
import os
import re
import vf

META = {
    "text": "Theorem analysis_sound (Coq, no axioms): for every program of the callback language, if the abstract interpreter "
            "accepts, no trace of any exported callback started in a read-only context (isQuery or nestedView>0; amounts "
            "non-negative unless fork version >= 5) performs a state mutator, including everything contract code called from "
            "the callback does through further callbacks (RunLua = any finite sequence of exported callbacks, Q unchanged, V only "
            "able to become true).  The obligation `check Gen.callbacks = true` over the term translated from the current "
            "contract/*.go source is closed by vm_compute on every run.  F13 (negative amount, fork version 4) is outside the "
            "hypothesis and reported as a known finding from the translated term.",
    "note": "No implementation run is possible (LuaJIT sources absent).  Trusted: the translator gen_vmguard (no type information: "
            "method calls resolved by name and arity to every candidate), its reviewed lists of mutators / restore operations and "
            "the RunLua abstraction of executor.call, the C-side scanner, read-only SQLite connections for queries, Coq kernel/vm_compute.",
    "technique": "verified abstract interpreter (proof by reflection) over a source-to-Gallina translation of the host API",
}

C_FILES = ["vm.c", "db_module.c", "contract_module.c", "system_module.c", "state_module.c", "crypto_module.c", "name_module.c", "util.c"]
FUEL = 7


def gen_callbacks(ctx):
    src = os.path.join(ctx.verif, "gen", "gen_vmguard")
    binp = os.path.join(ctx.workdir, "gen_vmguard")
    env = ctx.goenv()
    env["GO111MODULE"] = "off"
    rc, out = vf.sh(["go", "build", "-o", binp, "."], cwd=src, env=env, timeout=600)
    if rc != 0:
        raise RuntimeError("gen_vmguard build failed:\n" + out[-2000:])
    os.makedirs(os.path.join(vf.COQ, "Gen"), exist_ok=True)
    outp = os.path.join(vf.COQ, "Gen", "Callbacks.v")
    rc, out = vf.sh([binp, ctx.repo, outp], timeout=120)
    if rc != 0:
        raise RuntimeError("gen_vmguard failed:\n" + out[-2000:])
    txt = open(outp).read()
    cbs = re.findall(r'^  "([^"]+)";?$', txt.split("Definition callbacks")[1].split("Definition translator_mutators")[0], re.M)
    funcs = re.findall(r"^Definition f_(\w+) : stmt", txt, re.M)
    muts = re.findall(r'\(Mut "([^"]+)" (K\w+)\)', txt)
    return cbs, funcs, muts, txt


def gen_c(ctx, callbacks):
    """C side: lib/g6_cscan.py -> coq/Gen/CCallbacks.v"""
    import importlib.util
    spec = importlib.util.spec_from_file_location("g6_cscan", os.path.join(ctx.verif, "lib", "g6_cscan.py"))
    mod = importlib.util.module_from_spec(spec)
    spec.loader.exec_module(mod)
    res = mod.scan(ctx.repo, callbacks)
    vf.write_if_changed(os.path.join(vf.COQ, "Gen", "CCallbacks.v"), res["coq"])
    return res


def c_unreviewed(ctx):
    txt = ["From Coq Require Import String List Bool.", "From Verif Require Import VmGuard.CSide Gen.CCallbacks.",
           "Definition U := Eval vm_compute in map (fun x => fst (fst x)) (c_unreviewed c_inventory).", "Print U."]
    rc, out = ctx.coq_eval("c_unreviewed", "\n".join(txt))
    if rc != 0:
        return None
    flat = " ".join(out.split())
    names = re.findall(r'"([^"]+)"', flat.split(":")[0])
    m = re.search(r"U\s*=\s*(.*?)\s*:\s*list", flat)
    if m and m.group(1).strip() not in ("[]", "nil") and not names:
        return None
    return names


def unclassified_callees(ctx):
    txt = ["From Coq Require Import String List Bool.", "From Verif Require Import VmGuard.Reviewed Gen.Callbacks.",
           "Definition U := Eval vm_compute in (unclassified verb_callees, classification_ok verb_callees translator_mutators translator_restore).",
           "Print U."]
    ctx.coq_make(["VmGuard/Reviewed.vo"])
    rc, out = ctx.coq_eval("unclassified", "\n".join(txt))
    if rc != 0:
        return None
    flat = " ".join(out.split())
    m = re.search(r"U\s*=\s*\((.*),\s*(true|false)\)\s*:", flat)
    if not m:
        return None
    names = re.findall(r'"([^"]+)"', m.group(1))
    if m.group(2) == "false" and not names:
        names = ["<classification disagrees with the translator lists>"]
    return names


def coq_paths(ctx, which):
    """offending (callback, context, mutator) paths computed by the model on the generated term"""
    flt = "filter (fun e => eQ e || eV e) all_envs"
    txt = ["From Coq Require Import String List Bool.", "From Verif Require Import VmGuard.Lang VmGuard.Analysis Gen.Callbacks.",
           "Import ListNotations.",
           "From Verif Require Import Gen.CCallbacks.",
           "Definition P := Eval vm_compute in offending (program ++ c_program)%%list (callbacks ++ c_entries)%%list %d (%s)." % (FUEL, flt), "Print P."]
    rc, out = ctx.coq_eval("paths_" + which, "\n".join(txt))
    if rc != 0:
        return None, out
    flat = " ".join(out.split())
    paths = []
    for m in re.finditer(r'\("([^"]+)",\s*\{\|\s*eQ := (\w+); eV := (\w+); eP := (\w+); eZ := (\w+); eF := (\w+)\s*\|\},\s*"([^"]+)"\)', flat):
        cb, q, v, p, z, f5, mut = m.groups()
        paths.append({"callback": cb, "mutator": mut,
                      "context": {"isQuery": q == "true", "nestedView>0": v == "true", "amount>0": p == "true",
                                  "amount==0": z == "true", "forkVersion>=5": f5 == "true"}})
    # guard against a silent parse failure: a non-empty list must yield parsed items
    m = re.search(r"P\s*=\s*(.*?)\s*:\s*list", flat)
    body = m.group(1).strip() if m else None
    if body is None or (body not in ("[]", "nil") and not paths):
        return None, "could not parse the printed path list:\n" + out[-1500:]
    return paths, out


def run(ctx):
    cbs, funcs, muts, txt = gen_callbacks(ctx)
    pr = ctx.prove()
    ctx.cov["trusted_base"] = ["Coq 8.16.1 kernel + vm_compute", "gen/gen_vmguard translator and its reviewed mutator / restore lists",
                               "RunLua abstraction of executor.call", "Python scanner of the C modules", "read-only SQLite connection for queries"]
    ctx.assumptions = ["amounts are non-negative or fork version >= 5 (F13 otherwise)",
                       "contract code reaches the state only through the exported callbacks (LuaJIT sandbox)",
                       "Q is not modified during an execution; nestedView is only changed by luaViewStart/luaViewEnd around view functions"]
    cres = gen_c(ctx, cbs)
    ctx.coq_make(["Gen/CCallbacks.vo", "VmGuard/CSide.vo"])
    # ---- paths
    # one evaluation over every read-only context; split by the amount hypothesis afterwards
    allp, out1 = coq_paths(ctx, "readonly")
    out2 = out1
    if allp is None:
        bad, f13 = None, None
    else:
        isgood = lambda c: c["forkVersion>=5"] or c["amount>0"] or c["amount==0"]
        bad = [p for p in allp if isgood(p["context"])]
        f13 = [p for p in allp if not isgood(p["context"])]
    if bad is None:
        ctx.violation("could not evaluate the analysis on the translated callbacks", {"log": out1[-2000:]}, no_input=True)
        bad = []
    c_fail = []
    unrev = c_unreviewed(ctx)
    if unrev is None:
        c_fail.append(("the C inventory could not be evaluated", []))
    elif unrev:
        c_fail.append(("C functions reachable from Lua that are registered or call Go callbacks but are not in the reviewed "
                       "inventory VmGuard/CSide.v (new Lua-registered function, or new call of a Go callback from C)", unrev))
    uncl = unclassified_callees(ctx)
    if uncl is None:
        c_fail.append(("the callee classification could not be evaluated", []))
    elif uncl:
        c_fail.append(("verb-named external callees in the reachable Go functions that are not classified in VmGuard/Reviewed.v "
                       "(or the classification disagrees with the translator's mutator list)", uncl))
    if cres["registered_not_found"]:
        c_fail.append(("functions named in a luaL_Reg table whose definition the scanner did not find", cres["registered_not_found"]))

    ctx.cov["evaluations"] = (len(cbs) + len(cres["entries"])) * 32
    ctx.cov["distinct_nontrivial"] = len([1 for f in funcs])
    ctx.cov["exhaustive"] = True
    ctx.cov["rule"] = ("evaluations = exported callbacks x all 32 valuations of the context atoms (enumerated completely by check); "
                       "distinct = functions of package contract translated (exported callbacks and everything they call)")
    ctx.cov["traces_validated_against_impl"] = 0
    ctx.cov["input_distribution"] = {"exported_callbacks": len(cbs), "translated_functions": len(funcs),
                                     "mutator_sites": len(muts), "mutator_names": sorted({m for m, _ in muts}),
                                     "c_files_translated": cres["files"], "c_lua_registered_entries": len(cres["entries"]),
                                     "c_functions_translated": len(cres["reachable"]), "c_sql_exec_sites": cres["sql_sites"],
                                     "go_callbacks_called_from_c": len({c for v in cres["inventory"].values() for c in v})}
    ctx.sample({"callbacks": cbs[:8]})
    m = re.search(r"Definition f_luaSetDB : stmt :=\n\s*(.*)\n", txt)
    if m:
        ctx.sample({"luaSetDB": m.group(1)[:400]})
    ctx.notes.append("no implementation run: the LuaJIT VM cannot be built here; the translated term is the object of the proof")

    # ---- decide
    nopro = "No contract program can be executed in this environment (LuaJIT sources absent): the failing input is the path through the host callback."
    badset = set()
    if bad:
        for pth in bad:
            key = "C20:path:%s:%s" % (pth["callback"], pth["mutator"])
            if key in badset:
                continue
            badset.add(key)
            if len(badset) > 5:
                break
            ctx.finding(key, "exported callback %s reaches mutator %s in a read-only context" % (pth["callback"], pth["mutator"]),
                        {"path": pth, "all_contexts": [p["context"] for p in bad if p["callback"] == pth["callback"] and p["mutator"] == pth["mutator"]],
                         "note": nopro})
    elif not pr["ok"]:
        ctx.violation("proof obligation no longer checks: %s" % pr["broken"],
                      {"theorem_or_file": pr["broken"], "log": pr["log"][-3000:], "note": nopro}, no_input=True)
    # F13: paths that exist only outside the hypothesis (negative amount, fork version < 5)
    if f13 is None:
        ctx.violation("could not evaluate the analysis on the translated callbacks", {"log": out2[-2000:]}, no_input=True)
    else:
        seen = set()
        for pth in f13:
            key = "C20:F13:%s:%s" % (pth["callback"], pth["mutator"])
            if key in seen or "C20:path:%s:%s" % (pth["callback"], pth["mutator"]) in badset:
                continue
            seen.add(key)
            ctx.finding(key, "read-only context reaches %s in %s with a negative amount (fork < 5)" % (pth["mutator"], pth["callback"]),
                        {"path": pth, "note": nopro})
    for what, items in c_fail:
        if not bad:
            ctx.violation("C-side obligation failed: " + what, {"items": items, "note": nopro}, no_input=True)

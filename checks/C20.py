"""C20 Contract queries and view functions cannot change state.
The LuaJIT VM cannot be built or run here: the tie to the source is a translator.  gen/gen_vmguard
(go/parser) turns every exported host callback of contract/vm_callback.go and everything it calls
inside package contract into a term of coq/VmGuard/Lang.v (coq/Gen/Callbacks.v, regenerated on
every run); Properties/C20.v proves `check program callbacks = true` by vm_compute and concludes by
the analyser's soundness theorem.  A Python scanner covers the C side (which callbacks the
Lua-registered C functions call, luaCheckView guards before SQL writes)."""
import json
import os
import re
import vf

META = {
    "text": "18 theorems (Coq, no axioms).  FULL for every program of the callback language: if `check` accepts, no trace of an "
            "entry point started in a read-only context performs a forbidden mutator, contract code called back included "
            "(C20_analysis_sound); if `counter_ok` accepts, every path through every function restores ctx.nestedView and keeps "
            "it positive while a view function body runs (C20_counter_analysis_sound); for every worker count and history of "
            "slot allocations / releases / transaction stores a query never gets a transaction slot and its slot holds its own "
            "context (C20_alloc_never_returns_reserved_slot, C20_distinct_live_contexts_distinct_slots, "
            "C20_callbacks_see_own_context); C20_view_function_readonly composes them ('isQuery or nestedView>0' derived for view functions); an "
            "amount-carrying recovery point stays linked only where the transfer was reached, never in a read-only context "
            "(C20_recpoint_matches_effect, C20_refusal_leaves_no_recovery_point).  PARTIAL: the read-only theorems assume amount >= 0 or fork version >= 5; without it F13 "
            "(luaSendAmount reaches SendBalance with a negative amount, version 4) is recomputed from the translated source each "
            "run: known keys C20:F13:*.  Tie, every run (no VM can be built here): gen_vmguard translates all 255 Go functions "
            "of package contract, lib/g6_cscan the Lua-registered C functions; obligations closed by vm_compute: check, "
            "counter_ok, recpoints_ok, reviewed C inventory / callees / context-flag uses / context-table uses; gen_vmguard_slots extracts the real allocContextSlot / "
            "freeContextSlot text, runs it natively on ~64 000 histories with direct predicates and compares with the model.",
    "note": "Trusted: Coq kernel + vm_compute (no axioms); the translators gen_vmguard (go/parser, no types: calls resolved by name "
            "and arity to every candidate), lib/g6_cscan (structural C parse, textual guard recognition) and gen_vmguard_slots; "
            "the reviewed tables VmGuard/Reviewed.v (mutators, restore operations, pure callees, flag uses, Lua-running cgo entry "
            "points, slot sites) and VmGuard/CSide.v; LuaJIT: contract code reaches state only through the exported callbacks, "
            "luaViewStart / luaViewEnd are called in pairs, a state passes its own service number; read-only SQLite connection "
            "for queries; a transaction's service is BlockFactory or ChainService; NumWorkers >= 1; querySync serialises the "
            "allocator.  Not verified: the Lua VM itself, sqlite binding, gas / timeouts.  No implementation run of contracts "
            "is possible; the failing input of a violation is the path / history through the translated or extracted source.",
    "technique": "verified abstract interpreters (proof by reflection) over a source-to-Gallina translation + executable slot-allocator model compared with the natively executed source",
}

C_FILES = ["vm.c", "db_module.c", "contract_module.c", "system_module.c", "state_module.c", "crypto_module.c", "name_module.c", "util.c"]
FUEL = 7


def gen_callbacks(ctx):
    src = os.path.join(ctx.verif, "gen", "gen_vmguard")
    binp = os.path.join(ctx.workdir, "gen_vmguard")
    env = ctx.goenv()
    env["GO111MODULE"] = "off"
    rc, out = vf.sh(["go", "build", "-o", binp, "."], cwd=src, env=env, timeout=600)
    if rc != 0:
        raise RuntimeError("gen_vmguard build failed:\n" + out[-2000:])
    os.makedirs(os.path.join(vf.COQ, "Gen"), exist_ok=True)
    outp = os.path.join(vf.COQ, "Gen", "Callbacks.v")
    rc, out = vf.sh([binp, ctx.repo, outp], timeout=120)
    if rc != 0:
        raise RuntimeError("gen_vmguard failed:\n" + out[-2000:])
    txt = open(outp).read()
    cbs = re.findall(r'^  "([^"]+)";?$', txt.split("Definition callbacks")[1].split("Definition translator_mutators")[0], re.M)
    funcs = re.findall(r"^Definition f_(\w+) : stmt", txt, re.M)
    muts = re.findall(r'\(Mut "([^"]+)" (K\w+)\)', txt)
    return cbs, funcs, muts, txt


def gen_c(ctx, callbacks):
    """C side: lib/g6_cscan.py -> coq/Gen/CCallbacks.v"""
    import importlib.util
    spec = importlib.util.spec_from_file_location("g6_cscan", os.path.join(ctx.verif, "lib", "g6_cscan.py"))
    mod = importlib.util.module_from_spec(spec)
    spec.loader.exec_module(mod)
    res = mod.scan(ctx.repo, callbacks)
    vf.write_if_changed(os.path.join(vf.COQ, "Gen", "CCallbacks.v"), res["coq"])
    return res


def c_unreviewed(ctx):
    txt = ["From Coq Require Import String List Bool.", "From Verif Require Import VmGuard.CSide Gen.CCallbacks.",
           "Definition U := Eval vm_compute in map (fun x => fst (fst x)) (c_unreviewed c_inventory).", "Print U."]
    rc, out = ctx.coq_eval("c_unreviewed", "\n".join(txt))
    if rc != 0:
        return None
    flat = " ".join(out.split())
    names = re.findall(r'"([^"]+)"', flat.split(":")[0])
    m = re.search(r"U\s*=\s*(.*?)\s*:\s*list", flat)
    if m and m.group(1).strip() not in ("[]", "nil") and not names:
        return None
    return names


def unclassified_callees(ctx):
    txt = ["From Coq Require Import String List Bool.", "From Verif Require Import VmGuard.Reviewed Gen.Callbacks.",
           "Definition U := Eval vm_compute in (unclassified verb_callees, classification_ok verb_callees translator_mutators translator_restore).",
           "Print U."]
    ctx.coq_make(["VmGuard/Reviewed.vo"])
    rc, out = ctx.coq_eval("unclassified", "\n".join(txt))
    if rc != 0:
        return None
    flat = " ".join(out.split())
    m = re.search(r"U\s*=\s*\((.*),\s*(true|false)\)\s*:", flat)
    if not m:
        return None
    names = re.findall(r'"([^"]+)"', m.group(1))
    if m.group(2) == "false" and not names:
        names = ["<classification disagrees with the translator lists>"]
    return names


def coq_paths(ctx, which):
    """offending (callback, context, mutator) paths computed by the model on the generated term"""
    flt = "filter (fun e => eQ e || eV e) all_envs"
    txt = ["From Coq Require Import String List Bool.", "From Verif Require Import VmGuard.Lang VmGuard.Analysis Gen.Callbacks.",
           "Import ListNotations.",
           "From Verif Require Import Gen.CCallbacks.",
           "Definition P := Eval vm_compute in offending (program ++ c_program)%%list (callbacks ++ c_entries)%%list %d (%s)." % (FUEL, flt), "Print P."]
    rc, out = ctx.coq_eval("paths_" + which, "\n".join(txt))
    if rc != 0:
        return None, out
    flat = " ".join(out.split())
    paths = []
    for m in re.finditer(r'\(\s*"([^"]+)",\s*\{\|\s*eQ := (\w+); eV := (\w+); eP := (\w+); eZ := (\w+); eF := (\w+)\s*\|\},\s*"([^"]+)"\)', flat):
        cb, q, v, p, z, f5, mut = m.groups()
        paths.append({"callback": cb, "mutator": mut,
                      "context": {"isQuery": q == "true", "nestedView>0": v == "true", "amount>0": p == "true",
                                  "amount==0": z == "true", "forkVersion>=5": f5 == "true"}})
    # guard against a silent parse failure: a non-empty list must yield parsed items
    m = re.search(r"P\s*=\s*(.*?)\s*:\s*list", flat)
    body = m.group(1).strip() if m else None
    if body is None or (body not in ("[]", "nil") and not paths):
        return None, "could not parse the printed path list:\n" + out[-1500:]
    return paths, out


def gen_slots(ctx):
    """gen/gen_vmguard_slots -> coq/Gen/Slots.v and the native harness of the slot allocator; runs the harness"""
    src = os.path.join(ctx.verif, "gen", "gen_vmguard_slots")
    binp = os.path.join(ctx.workdir, "gen_vmguard_slots")
    env = ctx.goenv()
    env["GO111MODULE"] = "off"
    rc, out = vf.sh(["go", "build", "-o", binp, "."], cwd=src, env=env, timeout=600)
    if rc != 0:
        raise RuntimeError("gen_vmguard_slots build failed:\n" + out[-2000:])
    hdir = os.path.join(ctx.workdir, "slotharness")
    rc, out = vf.sh([binp, ctx.repo, os.path.join(vf.COQ, "Gen", "Slots.v"), hdir], timeout=120)
    if rc != 0:
        raise RuntimeError("gen_vmguard_slots failed:\n" + out[-2000:])
    hbin = os.path.join(hdir, "slotharness.bin")
    rc, out = vf.sh(["go", "build", "-o", hbin, "."], cwd=hdir, env=env, timeout=600)
    if rc != 0:
        return {"build_error": out[-2500:]}
    big = (3, 7, 7) if ctx.tier == "quick" else (3, 9, 9)
    rc, out = vf.sh([hbin] + [str(x) for x in big], timeout=900)
    recs, hang = [], None
    for l in out.splitlines():
        try:
            r = json.loads(l)
        except ValueError:
            continue
        if "hang" in r:
            hang = r["hang"]
        else:
            recs.append(r)
    if rc != 0 and hang is None:
        return {"build_error": "the harness of the slot allocator failed (rc=%d):\n%s" % (rc, out[-1500:])}
    return {"recs": recs, "hang": hang}


def slot_model_compare(ctx, recs):
    """the Coq model VmGuard/Slots.v evaluated on the histories the real allocator was run on"""
    lmax = 5 if ctx.tier == "quick" else 7
    sel = [r for r in recs if r["m"] <= 5 and len(r["ops"]) == lmax]
    def opc(o):
        return "OA" if o == "A" else ("OF %s" % o[1:] if o[0] == "F" else "OT %s" % o[1:])
    nl = lambda l: "[" + "; ".join(str(x) for x in l) + "]"
    lines = ["From Coq Require Import List Arith.", "From Verif Require Import VmGuard.Slots.", "Import ListNotations.",
             "Definition cases : list (nat * list op * (list nat * list nat * nat)) := ["]
    lines.append(";\n".join("  (%d, [%s], (%s, %s, %d))" % (r["m"], "; ".join(opc(o) for o in r["ops"]), nl(r["res"]), nl(r["final"]), r["last"])
                            for r in sel))
    lines += ["].",
              "Definition same (a b : list nat * list nat * nat) : bool :=",
              "  let '(r1, f1, l1) := a in let '(r2, f2, l2) := b in",
              "  (if list_eq_dec Nat.eq_dec r1 r2 then true else false) && (if list_eq_dec Nat.eq_dec f1 f2 then true else false) && Nat.eqb l1 l2.",
              "Fixpoint mism (i : nat) (l : list (nat * list op * (list nat * list nat * nat))) : list nat :=",
              "  match l with [] => [] | (m, h, o) :: r => if same (observe (mkCfg m 2) h) o then mism (S i) r else i :: mism (S i) r end.",
              "Definition M := Eval vm_compute in mism 0 cases.", "Print M."]
    ctx.coq_make(["VmGuard/Slots.vo"])
    ok, idx, out = ctx.coq_eval_mismatches("slots_cases", "\n".join(lines))
    if not ok:
        return None, out, len(sel)
    return [sel[i] for i in idx if i < len(sel)], out, len(sel)


def coq_slot_sites(ctx):
    txt = ["From Coq Require Import String List Bool.", "From Verif Require Import VmGuard.Reviewed Gen.Slots.",
           "Definition RES_A := Eval vm_compute in sites_diff slot_sites reviewed_slot_sites.", "Print RES_A.",
           "Definition RES_B := Eval vm_compute in sites_diff reviewed_slot_sites slot_sites.", "Print RES_B.",
           "Definition RES_C := Eval vm_compute in sites_diff slot_constant_uses reviewed_slot_constant_uses.", "Print RES_C.",
           "Definition RES_D := Eval vm_compute in sites_diff reviewed_slot_constant_uses slot_constant_uses.", "Print RES_D.",
           "Definition RES_E := Eval vm_compute in slots_config_ok slot_constants init_last_query_index init_context_arg tx_store_stmt init_context_base slot_loads_by_service.",
           "Print RES_E.", "Definition RES_END := tt.", "Print RES_END."]
    ctx.coq_make(["VmGuard/Reviewed.vo", "Gen/Slots.vo"])
    rc, out = ctx.coq_eval("slot_sites", "\n".join(txt))
    if rc != 0:
        return None, out
    flat = " ".join(out.split())
    names = ["RES_A", "RES_B", "RES_C", "RES_D", "RES_E", "RES_END"]
    res = {}
    for i, n in enumerate(names[:-1]):
        m = re.search(r"\b%s = (.*?) \b%s = " % (n, names[i + 1]), flat)
        if not m:
            return None, "could not find %s in:\n%s" % (n, out[-1500:])
        t = m.group(1).rsplit(" : ", 1)[0].strip()
        if n == "RES_E":
            res[n] = t == "true"
            if t not in ("true", "false"):
                return None, "could not parse RES_E:\n" + out[-1500:]
            continue
        items = re.findall(r'\(\s*"((?:[^"]|"")*)",\s*"((?:[^"]|"")*)",\s*"((?:[^"]|"")*)"\)', t)
        if t not in ("[]", "nil") and not items:
            return None, "could not parse %s:\n%s" % (n, out[-1500:])
        res[n] = [{"where": a, "kind": b, "what": c.replace('""', '"')} for a, b, c in items]
    return res, out


def coq_recpoints(ctx):
    """the recovery-point analysis on the generated term: (function, context, reason, witness path) rows"""
    txt = ["From Coq Require Import String List Bool.", "From Verif Require Import VmGuard.Lang VmGuard.RecPoint Gen.Callbacks.",
           "Import ListNotations.",
           "Definition flat (l : list (string * env * string * list (string * bool))) := map (fun x => (fst (fst (fst x)), eQ (snd (fst (fst x))), eV (snd (fst (fst x))), eF (snd (fst (fst x))), snd (fst x), snd x)) l.",
           "Definition RES_REC := Eval vm_compute in flat (rec_offending all_functions ++ rec_ro_offending all_functions)%list.", "Print RES_REC.",
           "Definition RES_END := tt.", "Print RES_END."]
    ctx.coq_make(["VmGuard/RecPoint.vo", "Gen/Callbacks.vo"])
    rc, out = ctx.coq_eval("recpoints", "\n".join(txt))
    if rc != 0:
        return None, out
    flat = " ".join(out.split())
    m = re.search(r"\bRES_REC = (.*?) \bRES_END = ", flat)
    if not m:
        return None, "could not find RES_REC in:\n" + out[-1500:]
    r = m.group(1).rsplit(" : ", 1)[0].strip()
    rows = []
    for mm in re.finditer(r'\(\s*"([^"]+)",\s*(true|false),\s*(true|false),\s*(true|false),\s*"([^"]+)",\s*(\[.*?\]|nil)\)(?=;|\s*\]|\s*$)', r):
        fn, q, v, f5, reason, w = mm.groups()
        steps = [{"at": a.replace('""', '"'), "taken": b == "true"} for a, b in re.findall(r'\(\s*"((?:[^"]|"")*)",\s*(true|false)\)', w)]
        rows.append({"function": fn, "context": {"isQuery": q == "true", "nestedView>0": v == "true", "amount>0": True, "forkVersion>=5": f5 == "true"},
                     "reason": reason, "path": steps})
    if r not in ("[]", "nil") and not rows:
        return None, "could not parse the printed recovery-point rows:\n" + out[-1500:]
    return rows, out


def coq_counter(ctx):
    """the view-counter analysis on the generated term: failing functions with a witness path, and the
    differences between the generated and the reviewed flag uses"""
    txt = ["From Coq Require Import String List Bool ZArith.",
           "From Verif Require Import VmGuard.Lang VmGuard.Balance VmGuard.Reviewed Gen.Callbacks Gen.CCallbacks.",
           "Import ListNotations.", "Open Scope Z_scope.",
           # the definitions of Properties/C20.v (which may not compile when this is needed)
           'Definition bracket (f : string) : bool := String.eqb f "luaViewStart" || String.eqb f "luaViewEnd".',
           "Definition counter_program : prog := (Gen.Callbacks.all_functions ++ Gen.CCallbacks.c_program)%list.",
           "Definition counter_callbacks : list string := (filter (fun f => negb (bracket f)) Gen.Callbacks.callbacks ++ Gen.CCallbacks.c_entries)%list.",
           "Definition lua_runners : list string := lua_iter 12 counter_program [].",
           "Definition RES_PATHS := Eval vm_compute in flat_map (fun x => map (fun v => (fst (fst x), snd (fst x), fst v, a_d (snd v), a_p (snd v), a_w (snd v))) (snd x)) "
           "(counter_offending bracket lua_runners counter_program).", "Print RES_PATHS.",
           "Definition RES_CLOSED := Eval vm_compute in lua_closed counter_program lua_runners.", "Print RES_CLOSED.",
           "Definition RES_NEW := Eval vm_compute in flag_sites_new flag_sites.", "Print RES_NEW.",
           "Definition RES_GONE := Eval vm_compute in flag_sites_gone flag_sites.", "Print RES_GONE.",
           "Definition RES_LUA := Eval vm_compute in (lua_running_c, lua_library_c, lua_running_ok lua_running_c lua_library_c).", "Print RES_LUA.",
           "Definition RES_END := tt.", "Print RES_END."]
    rc, out = ctx.coq_eval("counter", "\n".join(txt))
    if rc != 0:
        return None, out
    flat = " ".join(out.split())
    names = ["RES_PATHS", "RES_CLOSED", "RES_NEW", "RES_GONE", "RES_LUA", "RES_END"]
    sec = {}
    for i, n in enumerate(names[:-1]):
        m = re.search(r"\b%s = (.*?) \b%s = " % (n, names[i + 1]), flat)
        if not m:
            return None, "could not find %s in:\n%s" % (n, out[-1500:])
        # drop the trailing ': type'
        sec[n] = m.group(1).rsplit(" : ", 1)[0].strip()
    res = {"paths": [], "new": [], "gone": []}
    r = sec["RES_PATHS"]
    for m in re.finditer(r'\(\s*"([^"]+)",\s*(true|false),\s*"([^"]+)",\s*(-?\d+),\s*(-?\d+),\s*(\[.*?\]|nil)\)(?=;|\s*\]|\s*$)', r):
        fn, v, reason, d, p, w = m.groups()
        steps = [{"at": a.replace('""', '"'), "taken": b == "true"} for a, b in re.findall(r'\(\s*"((?:[^"]|"")*)",\s*(true|false)\)', w)]
        res["paths"].append({"function": fn, "isView": v == "true", "reason": reason, "counter_delta_at_exit": int(d),
                             "pending_deferred_effect": int(p), "net_effect_on_nestedView": int(d) + int(p), "path": steps})
    if r not in ("[]", "nil") and not res["paths"]:
        return None, "could not parse the printed counter paths:\n" + out[-1500:]
    for n, key in (("RES_NEW", "new"), ("RES_GONE", "gone")):
        t = sec[n]
        items = re.findall(r'\(\s*"((?:[^"]|"")*)",\s*"((?:[^"]|"")*)",\s*"((?:[^"]|"")*)"\)', t)
        if t not in ("[]", "nil") and not items:
            return None, "could not parse %s:\n%s" % (n, out[-1500:])
        res[key] = [{"function": a, "field": b, "what": c.replace('""', '"')} for a, b, c in items]
    if sec["RES_CLOSED"] not in ("true", "false"):
        return None, "could not parse RES_CLOSED:\n" + out[-1500:]
    res["lua_closed"] = sec["RES_CLOSED"] == "true"
    m = re.search(r'\((.*),\s*(true|false)\)$', sec["RES_LUA"])
    if not m:
        return None, "could not parse RES_LUA:\n" + out[-1500:]
    res["lua_running_ok"] = m.group(2) == "true"
    res["lua_running"] = re.findall(r'"([^"]+)"', m.group(1))
    return res, out


def run(ctx):
    cbs, funcs, muts, txt = gen_callbacks(ctx)
    cres = gen_c(ctx, cbs)          # both generated files before the proofs are built
    slots = gen_slots(ctx)
    pr = ctx.prove()
    ctx.cov["trusted_base"] = ["Coq 8.16.1 kernel + vm_compute", "gen/gen_vmguard, gen/gen_vmguard_slots translators and the reviewed tables of VmGuard/Reviewed.v, CSide.v",
                               "Python scanner of the C modules", "read-only SQLite connection for queries", "LuaJIT (not in /repo)"]
    ctx.assumptions = ["amounts are non-negative or fork version >= 5 (F13 otherwise)",
                       "contract code reaches the state only through the exported callbacks (LuaJIT sandbox)",
                       "the VM calls luaViewStart / luaViewEnd in matched pairs (the only counter operations outside executor.call)",
                       "a transaction's ctx.service is BlockFactory or ChainService; NumWorkers >= 1; querySync serialises the slot allocator"]
    ctx.coq_make(["Gen/CCallbacks.vo", "VmGuard/CSide.vo"])
    # ---- paths
    # one evaluation over every read-only context; split by the amount hypothesis afterwards
    allp, out1 = coq_paths(ctx, "readonly")
    out2 = out1
    if allp is None:
        bad, f13 = None, None
    else:
        isgood = lambda c: c["forkVersion>=5"] or c["amount>0"] or c["amount==0"]
        bad = [p for p in allp if isgood(p["context"])]
        f13 = [p for p in allp if not isgood(p["context"])]
    if bad is None:
        ctx.violation("could not evaluate the analysis on the translated callbacks", {"log": out1[-2000:]}, no_input=True)
        bad = []
    c_fail = []
    # ---- the view counter and the other context flags
    ctx.coq_make(["VmGuard/Balance.vo", "VmGuard/Reviewed.vo", "Gen/Callbacks.vo"])
    cnt, outc = coq_counter(ctx)
    if cnt is None:
        ctx.violation("could not evaluate the view-counter analysis on the translated functions", {"log": outc[-2000:]}, no_input=True)
        cnt = {"paths": [], "new": [], "gone": [], "lua_closed": True, "lua_running_ok": True, "lua_running": []}
    # ---- the context-slot allocator: real code run natively, compared with the model
    slot_find = []
    nslot_hist = nslot_cmp = 0
    how_slots = ("allocContextSlot / freeContextSlot and the store statement of contract.Call, extracted unmodified from contract/vm.go (C.int( -> int() "
                 "by gen/gen_vmguard_slots and executed in a generated stand-alone Go program; A = allocContextSlot for a new query, F<k> = "
                 "freeContextSlot of query k, T<s> = a transaction's context stored in service slot s; res = slot + 1 given to the query")
    if "build_error" in slots:
        ctx.violation("the slot allocator extracted from contract/vm.go could not be compiled / run in the native harness",
                      {"log": slots["build_error"]}, no_input=True)
    else:
        nslot_hist = len(slots["recs"])
        if slots["hang"]:
            slot_find.append(("C20:slots:hang", "allocContextSlot does not terminate although a query slot is free: history " + slots["hang"],
                              {"history": slots["hang"], "how": how_slots}))
        viol = sorted([r for r in slots["recs"] if r["viol"]], key=lambda r: (len(r["ops"]), r["m"]))
        kinds = {}
        for r in viol:
            for v in r["viol"]:
                k = re.sub(r"\d+", "N", re.sub(r"^step \d+: ", "", v))[:60]
                kinds.setdefault(k, (r, v))
        for k, (r, v) in list(kinds.items())[:4]:
            slot_find.append(("C20:slots:" + k, "context slots, maxContext=%d (NumWorkers=%d), history %s: %s" % (r["m"], r["m"] - 2, " ".join(r["ops"]), v),
                              {"maxContext": r["m"], "history": r["ops"], "results": r["res"], "contexts_after": r["final"], "lastQueryIndex": r["last"],
                               "violations": r["viol"], "violating_histories_in_all": len(viol), "how": how_slots}))
        mm, outm, nslot_cmp = slot_model_compare(ctx, slots["recs"])
        if mm is None:
            ctx.violation("could not evaluate the slot model on the observed histories", {"log": outm[-2000:]}, no_input=True)
        elif mm and not viol:
            r = sorted(mm, key=lambda r: (r["m"], r["ops"]))[0]
            slot_find.append(("C20:slots:model", "the real allocator and the model VmGuard/Slots.v differ: maxContext=%d, history %s, real results %s final %s last %d"
                              % (r["m"], " ".join(r["ops"]), r["res"], r["final"], r["last"]),
                              {"maxContext": r["m"], "history": r["ops"], "real": {"res": r["res"], "final": r["final"], "last": r["last"]},
                               "differing_histories": len(mm), "how": how_slots}))
    # ---- recovery points
    rec_rows, outr = coq_recpoints(ctx)
    if rec_rows is None:
        ctx.violation("could not evaluate the recovery-point analysis on the translated functions", {"log": outr[-2000:]}, no_input=True)
    else:
        rg = {}
        for row in rec_rows:
            rg.setdefault((row["function"], row["reason"]), []).append(row)
        ops = ("RecPush:amount", "RecPush:zero", "RecPop", "sendBalance", "SendBalance", "ExecuteSystemTx", "return")
        for (fn, reason), rl in list(rg.items())[:4]:
            rl.sort(key=lambda x: (not (x["context"]["isQuery"] or x["context"]["nestedView>0"]), len(x["path"])))
            row = rl[0]
            steps = "; ".join(st["at"] if st["at"] in ops else "%s -> %s" % (st["at"], "taken" if st["taken"] else "not taken")
                              for st in row["path"] if st["at"]) or "(see reason)"
            slot_find.append(("C20:recpoint:%s:%s" % (fn, reason[:40]),
                              "%s, context isQuery=%s nestedView>0=%s amount>0: %s; path: %s" % (fn, str(row["context"]["isQuery"]).lower(),
                                                                                       str(row["context"]["nestedView>0"]).lower(), reason, steps),
                              {"path": row, "contexts": [x["context"] for x in rl][:8],
                               "meaning": "clearRecoveryPoint / revertState of an enclosing recovery point moves the recorded amount back from the callee to the "
                                          "caller without a balance check: a recovery point describing a transfer that never happened moves funds"}))
    ss, outs = coq_slot_sites(ctx)
    if ss is None:
        ctx.violation("could not evaluate the slot-site inventory", {"log": outs[-2000:]}, no_input=True)
    else:
        for st in ss["RES_A"] + ss["RES_C"]:
            slot_find.append(("C20:slots:site:new:%s:%s" % (st["where"], st["what"][:50]),
                              "use of the context table / service constants that is not in the reviewed list: %s in %s: %s" % (st["kind"], st["where"], st["what"]), {"site": st}))
        for st in ss["RES_B"] + ss["RES_D"]:
            slot_find.append(("C20:slots:site:gone:%s:%s" % (st["where"], st["what"][:50]),
                              "reviewed use of the context table / service constants no longer occurs: %s in %s: %s" % (st["kind"], st["where"], st["what"]), {"site": st}))
        if not ss["RES_E"]:
            slot_find.append(("C20:slots:config", "the service constants / lastQueryIndex initialisation / InitContext argument / store statement of contract.Call differ from "
                              "the configuration the slot model is instantiated with (BlockFactory=0, ChainService=1, MaxVmService=2, lastQueryIndex=ChainService, "
                              "NumWorkers + 2, contexts[ctx.service] = ctx)", {"generated": open(os.path.join(vf.COQ, "Gen", "Slots.v")).read()[:1500]}))
    unrev = c_unreviewed(ctx)
    if unrev is None:
        c_fail.append(("the C inventory could not be evaluated", []))
    elif unrev:
        c_fail.append(("C functions reachable from Lua that are registered or call Go callbacks but are not in the reviewed "
                       "inventory VmGuard/CSide.v (new Lua-registered function, or new call of a Go callback from C)", unrev))
    uncl = unclassified_callees(ctx)
    if uncl is None:
        c_fail.append(("the callee classification could not be evaluated", []))
    elif uncl:
        c_fail.append(("verb-named external callees in the reachable Go functions that are not classified in VmGuard/Reviewed.v "
                       "(or the classification disagrees with the translator's mutator list)", uncl))
    if cres["registered_not_found"]:
        c_fail.append(("functions named in a luaL_Reg table whose definition the scanner did not find", cres["registered_not_found"]))

    ctx.cov["evaluations"] = (len(cbs) + len(cres["entries"])) * 32
    ctx.cov["distinct_nontrivial"] = len([1 for f in funcs])
    ctx.cov["exhaustive"] = True
    ctx.cov["rule"] = ("evaluations = exported callbacks x all 32 valuations of the context atoms (enumerated completely by check); "
                       "distinct = functions of package contract translated (exported callbacks and everything they call)")
    ctx.cov["traces_validated_against_impl"] = 0
    ctx.cov["input_distribution"] = {"exported_callbacks": len(cbs), "translated_functions": len(funcs),
                                     "mutator_sites": len(muts), "mutator_names": sorted({m for m, _ in muts}),
                                     "c_files_translated": cres["files"], "c_lua_registered_entries": len(cres["entries"]),
                                     "c_functions_translated": len(cres["reachable"]), "c_sql_exec_sites": cres["sql_sites"],
                                     "go_callbacks_called_from_c": len({c for v in cres["inventory"].values() for c in v})}
    ctx.sample({"callbacks": cbs[:8]})
    m = re.search(r"Definition f_luaSetDB : stmt :=\n\s*(.*)\n", txt)
    if m:
        ctx.sample({"luaSetDB": m.group(1)[:400]})
    ctx.notes.append("no implementation run: the LuaJIT VM cannot be built here; the translated term is the object of the proof")

    ctx.cov["input_distribution"].update({"functions_in_counter_analysis": len(set(re.findall(r"^Definition f_(\w+) : stmt", txt, re.M))) + len(cres["reachable"]),
                                          "flag_uses_reviewed": len(re.findall(r"^  \(", txt.split("Definition flag_sites")[1].split("].")[0], re.M)),
                                          "lua_running_cgo_entry_points": cnt["lua_running"],
                                          "slot_allocator_histories_run_natively": nslot_hist, "slot_histories_compared_with_model": nslot_cmp})
    # ---- decide
    nopro = "No contract program can be executed in this environment (LuaJIT sources absent): the failing input is the path through the host callback."
    badset = set()
    if bad:
        for pth in bad:
            key = "C20:path:%s:%s" % (pth["callback"], pth["mutator"])
            if key in badset:
                continue
            badset.add(key)
            if len(badset) > 5:
                break
            ctx.finding(key, "exported callback %s reaches mutator %s in a read-only context" % (pth["callback"], pth["mutator"]),
                        {"path": pth, "all_contexts": [p["context"] for p in bad if p["callback"] == pth["callback"] and p["mutator"] == pth["mutator"]],
                         "note": nopro})
    groups = {}
    for pth in cnt["paths"]:
        groups.setdefault((pth["function"], pth["reason"]), []).append(pth)
    fmt_steps = lambda pth: "; ".join(
        (st["at"] if st["at"] in ("return",) or st["at"].startswith("panic in") or st["at"] == "contract code fails"
         else "%s -> %s" % (st["at"], "taken" if st["taken"] else "not taken")) for st in pth["path"]) or "(straight line to the end of the body)"
    for (fn, reason), plist in list(groups.items())[:6]:
        # prefer an exit by return over an exit by a panic of a callee
        plist.sort(key=lambda p: (0 if p["path"] and p["path"][-1]["at"] == "return" else 1, len(p["path"])))
        pth = plist[0]
        key = "C20:counter:%s:%s" % (fn, reason)
        if reason.startswith("exit leaves"):
            title = ("%s (isView=%s): an exit leaves ctx.nestedView changed by %+d, i.e. at %d in a fresh context (counter delta at the exit %d, "
                     "deferred statements %+d); path: %s"
                     % (fn, str(pth["isView"]).lower(), pth["net_effect_on_nestedView"], pth["net_effect_on_nestedView"],
                        pth["counter_delta_at_exit"], pth["pending_deferred_effect"], fmt_steps(pth)))
        else:
            title = "%s (isView=%s): %s (counter delta %d); path: %s" % (fn, str(pth["isView"]).lower(), reason,
                                                                        pth["counter_delta_at_exit"], fmt_steps(pth))
        if len(plist) > 1:
            title += " [%d failing exits in all; the others: %s]" % (len(plist), " | ".join(fmt_steps(p) for p in plist[1:4]))
        ctx.finding(key, title, {"path": pth, "all_paths": plist[:8], "note": nopro})
    for st in cnt["new"]:
        ctx.finding("C20:flaguse:new:%s:%s:%s" % (st["function"], st["field"], st["what"]),
                    "use of context flag %s in %s that is not in the reviewed list: %s" % (st["field"], st["function"], st["what"]),
                    {"site": st, "note": nopro})
    for st in cnt["gone"]:
        ctx.finding("C20:flaguse:gone:%s:%s:%s" % (st["function"], st["field"], st["what"]),
                    "reviewed use of context flag %s in %s no longer occurs (initialiser or constructor call removed / changed): %s"
                    % (st["field"], st["function"], st["what"]), {"site": st, "note": nopro})
    if not cnt["lua_closed"]:
        ctx.violation("the set of functions that may run contract code is not closed (increase the iteration bound of lua_iter)", {}, no_input=True)
    if not cnt["lua_running_ok"]:
        ctx.violation("cgo entry points that run Lua code differ from the reviewed classification in VmGuard/Reviewed.v",
                      {"generated": cnt["lua_running"], "note": nopro}, no_input=True)
    for key, what, rep_ in slot_find[:8]:
        ctx.finding(key, what, dict(rep_, note=nopro))
    flagbad = bool(slot_find) or bool(cnt["paths"] or cnt["new"] or cnt["gone"] or not cnt["lua_closed"] or not cnt["lua_running_ok"])
    if bad or flagbad:
        pass
    elif not pr["ok"]:
        ctx.violation("proof obligation no longer checks: %s" % pr["broken"],
                      {"theorem_or_file": pr["broken"], "log": pr["log"][-3000:], "note": nopro}, no_input=True)
    # F13: paths that exist only outside the hypothesis (negative amount, fork version < 5)
    if f13 is None:
        ctx.violation("could not evaluate the analysis on the translated callbacks", {"log": out2[-2000:]}, no_input=True)
    else:
        seen = set()
        for pth in f13:
            key = "C20:F13:%s:%s" % (pth["callback"], pth["mutator"])
            if key in seen or "C20:path:%s:%s" % (pth["callback"], pth["mutator"]) in badset:
                continue
            seen.add(key)
            ctx.finding(key, "read-only context reaches %s in %s with a negative amount (fork < 5)" % (pth["mutator"], pth["callback"]),
                        {"path": pth, "note": nopro})
    for what, items in c_fail:
        if not bad:
            ctx.violation("C-side obligation failed: " + what, {"items": items, "note": nopro}, no_input=True)

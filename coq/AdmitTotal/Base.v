(** C14 admission totality — basic definitions of the model: Go strings as byte lists,
    decoded JSON values, outcomes with an explicit [Panic] constructor carrying the source
    site (function, kind, expression text) in the vocabulary of the generated inventory
    [Gen/PanicSites.v].  No proofs in this file. *)
From Coq Require Import ZArith NArith List Bool String Ascii.
Import ListNotations.

Definition str := list N.

Fixpoint str_eqb (a b : str) : bool :=
  match a, b with
  | [], [] => true
  | x :: a', y :: b' => N.eqb x y && str_eqb a' b'
  | _, _ => false
  end.

(** Coq string literal -> byte list (ASCII constants of the Go source). *)
Definition s (x : string) : str := List.map N_of_ascii (list_ascii_of_string x).

(** hexadecimal string literal -> byte list (how the correspondence check writes observed bytes) *)
Definition hexval (a : ascii) : N :=
  let n := N_of_ascii a in if N.leb n 57 then (n - 48)%N else (n - 87)%N.
Fixpoint hx (x : string) : str :=
  match x with
  | String a x' => match x' with String b r => (16 * hexval a + hexval b)%N :: hx r | EmptyString => [] end
  | EmptyString => []
  end.

Fixpoint mem_str (x : str) (l : list str) : bool :=
  match l with [] => false | y :: l' => str_eqb x y || mem_str x l' end.

Fixpoint assoc {A : Type} (k : str) (l : list (str * A)) : option A :=
  match l with
  | [] => None
  | (k', v) :: l' => if str_eqb k k' then Some v else assoc k l'
  end.

(** what encoding/json produces in an [interface{}] *)
Inductive json :=
| JNull | JBool (b : bool) | JNum | JStr (x : str) | JArr (l : list json) | JObj (l : list (str * json)).

Record callinfo := mkCI { ci_name : str; ci_args : list json }.

Definition site := (string * string * string)%type.

Inductive err :=
(* types.Tx.Validate *)
| ETxFormat | EChainId | ESize | EHash | EAmount | EPrice | EAccount | ERecipient | EType | EPrivOnly
| EInvalidPayload | EArgsLess1
| ENameArgs | ENameTooLong | ENameNotSupported | ENameChar | ENameReceiver | ENameOwner
(* system *)
| EInsufficient | ELessTime | ETooSmall | EMustStakeVote | EMustStakeUnstake | EExceed
| ENotSupportedOp | EArgsLess2 | EInvalidId | ETooManyCand | ECandChar | ECandNumber | ECandRange
(* name *)
| EJson | EOccupied | EOwnerNotMatched | EOwnerSet | EUnknownCmd | ENotCreated
(* enterprise *)
| EEntArgs | EEntArg0 | EAdminExist | EAdminNotExist | EAdminInWhite | EAdminNotSet | EAdminNotMatched
| EAdminGet | ENotAllowedKey | ENotString | EBackslash | EDup | EP2P | EAccountWhite | ERpc | ERpcCert
| EConfExist | EConfNotExist | EConfWritePerm | EConfAdminAddr | ENotBool | ENotSupportedMethod | ECC
| EUnsupportedCall | ECCAlready.

Inductive out (A : Type) :=
| Ok (a : A) | Err (e : err) | Panic (p : site).
Arguments Ok {A} a. Arguments Err {A} e. Arguments Panic {A} p.

Definition bind {A B : Type} (x : out A) (k : A -> out B) : out B :=
  match x with Ok a => k a | Err e => Err e | Panic p => Panic p end.
Notation "x <- e ;; k" := (bind e (fun x => k)) (at level 61, e at next level, right associativity).

Definition is_panic {A : Type} (x : out A) : bool := match x with Panic _ => true | _ => false end.

(** Go index / slice / single-value assertion, each with its site. *)
Definition index {A : Type} (p : site) (l : list A) (i : nat) : out A :=
  match nth_error l i with Some x => Ok x | None => Panic p end.

Definition slice_from {A : Type} (p : site) (l : list A) (i : nat) : out (list A) :=
  if Nat.leb i (List.length l) then Ok (skipn i l) else Panic p.

Definition assert_str (p : site) (j : json) : out str :=
  match j with JStr x => Ok x | _ => Panic p end.

Definition as_str (j : json) : option str := match j with JStr x => Some x | _ => None end.

(** little-endian uint64 and big-endian unsigned integers of stored records *)
Fixpoint le_val (l : str) : N := match l with [] => 0%N | x :: l' => (x + 256 * le_val l')%N end.
Definition be_val (l : str) : Z := Z.of_N (le_val (rev l)).

Definition mismatches_from {A : Type} (ok : A -> bool) :=
  fix go (l : list A) (i : nat) : list nat :=
    match l with [] => [] | c :: l' => if ok c then go l' (S i) else i :: go l' (S i) end.

(** C14: evaluation of the model on observed cases (correspondence check).  The string oracles
    are instantiated by a table of the values the real Go functions returned for the strings of
    the case.  No proofs. *)
From Coq Require Import ZArith NArith List Bool String.
From Verif Require Import AdmitTotal.Base AdmitTotal.Model AdmitTotal.State.
Import ListNotations.

Record orow := mkRow {
  o_b58dec : str;
  o_upper : str; o_addr : option str; o_b58 : option (nat * bool); o_big : option Z;
  o_allowed : bool; o_list : bool; o_rpcn : nat; o_b64 : bool; o_w : bool;
  o_ccp : bool; o_cca : bool; o_cch : bool }.

Definition default_row (x : str) : orow :=
  mkRow [] x None None None false false 1 false false false false false.

Definition look (tbl : list (str * orow)) (x : str) : orow :=
  match assoc x tbl with Some r => r | None => default_row x end.

Scheme Equality for err.

Inductive cls := COk | CErr (e : err) | COther | CPanic | CSkip.

Definition cls_match {A : Type} (x : out A) (c : cls) : bool :=
  match c, x with
  | CSkip, _ => true
  | COk, Ok _ => true
  | COther, Ok _ => true          (* failure in a part the model does not cover *)
  | CErr e, Err e' => err_beq e e'
  | CPanic, Panic _ => true
  | _, _ => false
  end.

(** enterprise post-state: every stored raw conf record is the serialisation (serializeConf) of the
    model's conf under that key, and the model has no other conf *)
Definition confs_match (model : list (str * (bool * list str))) (raws : list (str * str)) : bool :=
  forallb (fun kr => match assoc (fst kr) model with
                     | Some c => str_eqb (ser_conf c) (snd kr)
                     | None => false
                     end) raws
  && forallb (fun kc => match assoc (fst kc) raws with Some _ => true | None => false end) model.

(** observation of a successfully executed aergo.system transaction *)
Record runobs := mkRunObs {
  ro_results : list (str * str);            (* vote-result lists before *)
  ro_jmarshal : str;                        (* json.Marshal(Args[1:]) *)
  ro_junm : list (str * list str);          (* json.Unmarshal of the candidate bytes seen *)
  ro_post_staking : str;
  ro_post_votes : list (str * str);         (* issue key -> sender's raw vote after *)
  ro_post_results : list (str * str) }.     (* issue key -> vote-result list after *)

(** the stored list is sorted by Go (map iteration + sort): compare entries as a set *)
Definition same_entries (a b : str) : bool :=
  match de_list (List.length a) a, de_list (List.length b) b with
  | Ok ea, Ok eb => Nat.eqb (List.length ea) (List.length eb) && forallb (fun e => mem_str e eb) ea
  | _, _ => false
  end.

Definition lookup_s (k : str) (l : list (str * str)) : str := match assoc k l with Some r => r | None => [] end.

Definition run_ok (up : str -> str) (pb : str -> option Z) (b58d : str -> str) (t : tx) (sv : sysview) (ro : runobs) : bool :=
  match tx_ci t with
  | Some ci =>
      match system_validate up pb (Some ci) (tx_amount t) sv with
      | Ok cx =>
          match system_run up b58d (fun _ => ro_jmarshal ro) (fun c => assoc c (ro_junm ro)) ci cx (tx_amount t) sv
                           (mkRun (ro_results ro)) with
          | Ok u =>
              (match u_staking u with Some r => str_eqb r (ro_post_staking ro) | None => true end)
              && forallb (fun kv => str_eqb (snd kv) (lookup_s (fst kv) (ro_post_votes ro))) (u_votes u)
              && forallb (fun kv => same_entries (snd kv) (lookup_s (fst kv) (ro_post_results ro))) (u_results u)
          | _ => false
          end
      | _ => false
      end
  | None => false
  end.

Record ccase := mkCase {
  c_env : env; c_tx : tx; c_state : state;
  c_tbl : list (str * orow); c_enc : list (str * str);
  c_vtypes : cls; c_vstate : cls; c_exec : cls;
  c_post : option (str * list (str * str));                  (* enterprise admins / raw conf records after exec *)
  c_run : option runobs }.                                   (* system: records before / after cmd.run *)

Definition case_results (c : ccase) :=
  let t := c_tbl c in
  let up x := o_upper (look t x) in
  let da x := o_addr (look t x) in
  let ea x := match assoc x (c_enc c) with Some e => e | None => x end in
  let b58 x := o_b58 (look t x) in
  let pb x := o_big (look t x) in
  let al x := o_allowed (look t x) in
  let le x := o_list (look t x) in
  let rn x := o_rpcn (look t x) in
  let rb x := o_b64 (look t x) in
  let rw x := o_w (look t x) in
  let cp x := o_ccp (look t x) in
  let ca x := o_cca (look t x) in
  let ch x := o_cch (look t x) in
  (tx_validate da b58 al (c_env c) (c_tx c),
   stateful_validate up da ea pb le rn rb rw cp ca ch (c_env c) (c_tx c) (c_state c),
   exec_gov up da ea b58 pb al le rn rb rw cp ca ch (c_env c) (c_tx c) (c_state c),
   ent_exec up da ea le rn rb rw cp ca ch (c_env c) (tx_ci (c_tx c)) (st_ent (c_state c)),
   state_wf rn (c_state c)).

Definition case_ok (c : ccase) : bool :=
  let '(vt, vs, ex, ee, wf) := case_results c in
  wf && cls_match vt (c_vtypes c) && cls_match vs (c_vstate c) && cls_match ex (c_exec c)
  && match c_run c with
     | Some ro => run_ok (fun x => o_upper (look (c_tbl c) x)) (fun x => o_big (look (c_tbl c) x))
                         (fun x => o_b58dec (look (c_tbl c) x)) (c_tx c) (st_sys (c_state c)) ro
     | None => true
     end
  && match c_post c, ee with
     | Some (admins, confs), Ok ev' =>
         str_eqb admins (ev_admins ev') && confs_match (ev_confs ev') confs
     | Some _, _ => false
     | None, _ => true
     end.

Definition mismatches (l : list ccase) : list nat := mismatches_from case_ok l 0.

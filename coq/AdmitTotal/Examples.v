(** C14: the hypotheses of the theorems are satisfiable by non-trivial states and transactions,
    and the repaired validators reject the inputs that used to panic (F3, F4, F15, F21). *)
From Coq Require Import ZArith NArith List Bool String.
From Verif Require Import AdmitTotal.Base AdmitTotal.Model.
Import ListNotations.
Open Scope string_scope.

(* concrete oracles: identity upper-casing on already upper-case ids, addresses "A.." of 33 bytes *)
Definition ex_upper (x : str) : str := x.
Definition ex_addr33 : str := repeat 7%N 33.
Definition ex_decode (x : str) : option str :=
  if str_eqb x (s "Am33") then Some ex_addr33 else if str_eqb x (s "abc") then Some (s "abc") else None.
Definition ex_b58 (x : str) : option (nat * bool) :=
  if str_eqb x (s "peer39") then Some (39%nat, true) else if str_eqb x (s "peer32") then Some (32%nat, true) else None.
Definition ex_big (x : str) : option Z := if str_eqb x (s "13") then Some 13%Z else None.
Definition ex_true (_ : str) := true.
Definition ex_parts (_ : str) := 2%nat.

Definition ex_env := mkEnv false true false.

(* a staking record (when = 1, amount = 0x0100) and a DAO vote with an 4-byte candidate *)
Definition ex_staking : str := [1;0;0;0;0;0;0;0; 1;0]%N.
Definition ex_vote_dao : str := [4;0;0;0;0;0;0;0; 91;49;51;93; 1;0]%N.
Definition ex_sys := mkSys 3 100000 1000 ex_staking [] [(c_bpcount, ex_vote_dao)] 10.
(* a name map entry: version 1, owner of 2 bytes, destination of 1 byte *)
Definition ex_name_entry : str := ([1; 2;0;0;0;0;0;0;0; 9;9; 1;0;0;0;0;0;0;0; 8])%N.
Definition ex_name := mkName 1000 1 [(s "abcdefghijkl", ex_name_entry)] [].
Definition ex_ent := mkEnt ex_addr33 ex_addr33 [(c_rpc, (true, [s "dGVzdA==:RW"]))] false.
Definition ex_state := mkState ex_sys ex_name ex_ent.

Example ex_state_wf : state_wf ex_parts ex_state = true.
Proof. vm_compute. reflexivity. Qed.

Definition gov_tx (rcpt : str) (ci : callinfo) (amount : Z) : tx :=
  mkTx false true true false true true true 33 (List.length rcpt) TGov 1 (Z.eqb amount 0) rcpt (Some ci) amount ex_addr33.

Definition run_admission t :=
  admission ex_upper ex_decode (fun x => x) ex_b58 ex_big ex_true ex_true ex_parts ex_true ex_true ex_true ex_true ex_true ex_env t ex_state.
Definition run_exec t :=
  exec_gov ex_upper ex_decode (fun x => x) ex_b58 ex_big ex_true ex_true ex_parts ex_true ex_true ex_true ex_true ex_true ex_env t ex_state.

(** admitted and executed: a DAO vote, a BP vote for a 39-byte peer id, an admin append *)
Example ex_votedao_admitted :
  run_admission (gov_tx c_aergo_system (mkCI (s "v1voteDAO") [JStr c_bpcount; JStr (s "13")]) 0) = Ok tt.
Proof. vm_compute. reflexivity. Qed.
Example ex_votebp_executes :
  run_exec (gov_tx c_aergo_system (mkCI (s "v1voteBP") [JStr (s "peer39")]) 0) = Ok tt.
Proof. vm_compute. reflexivity. Qed.
Example ex_append_admin_existing_rejected :
  run_exec (gov_tx c_aergo_enterprise (mkCI (s "appendAdmin") [JStr (s "Am33")]) 0) = Err EAdminExist.
Proof. vm_compute. reflexivity. Qed.

(** the former panics are specific rejections now *)
Example ex_F3_update_name_non_string :
  run_admission (gov_tx c_aergo_name (mkCI (s "v1updateName") [JStr (s "abcdefghijkl"); JNum]) 1) = Err ENameArgs.
Proof. vm_compute. reflexivity. Qed.
Example ex_F3_set_owner_no_args :
  run_admission (gov_tx c_aergo_name (mkCI (s "v1setOwner") []) 0) = Err ENameArgs.
Proof. vm_compute. reflexivity. Qed.
Example ex_F4_votedao_one_arg :
  run_exec (gov_tx c_aergo_system (mkCI (s "v1voteDAO") [JStr c_bpcount]) 0) = Err EArgsLess2.
Proof. vm_compute. reflexivity. Qed.
Example ex_F15_short_admin :
  run_exec (gov_tx c_aergo_enterprise (mkCI (s "appendAdmin") [JStr (s "abc")]) 0) = Err EEntArg0.
Proof. vm_compute. reflexivity. Qed.
Example ex_F21_short_peer_id :
  run_admission (gov_tx c_aergo_system (mkCI (s "v1voteBP") [JStr (s "peer32")]) 0) = Err EInvalidPayload.
Proof. vm_compute. reflexivity. Qed.

(** what the model of the execution path says about a 32-byte candidate had it been admitted
    (the site that F21 reached): the slice in VoteResult.AddVote *)
Example ex_F21_site : vote_slices "system.VoteResult.AddVote" 32 =
  Panic ("system.VoteResult.AddVote", "slice", "vote.Candidate[offset : offset+PeerIDLength]").
Proof. reflexivity. Qed.

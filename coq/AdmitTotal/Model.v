(** C14 admission totality — executable model of the validators and of the governance
    execution paths of /repo *after* the repairs fixes/F3, F4, F15, F21 (BUILDING.md: model the
    repaired behaviour).  Every index expression, slice expression, single-value type
    assertion and explicit panic of the modelled Go functions is a [Panic site] outcome here;
    the theorems of Proofs.v show they are unreachable.

    Mirrors: types/transaction.go (Validate, validate, ValidateSystemTx, validateNameTx,
    _validateNameTx), contract/system/{validation.go, execute.go:newSysCmd, vote.go:newVoteCmd,
    deserializeVote(Ex), staking.go:getStaking/deserializeStaking, voteresult.go:AddVote/SubVote
    slicing}, contract/name/{execute.go, name.go:deserializeNameMap/UpdateName/GetAddress},
    contract/enterprise/{validate.go, execute.go, admin.go, config.go:Validate, changecluster.go},
    the dispatch of mempool.validateTx and chain.executeTx/executeGovernanceTx.

    String functions whose result is data dependent (base58check address decoding, base58 +
    libp2p peer id parsing, big.Int.SetString, strings.ToUpper, ...) are Section variables:
    the theorems hold for every such function, the correspondence check instantiates them with
    the values the real Go functions returned.  No proofs in this file. *)
From Coq Require Import ZArith NArith List Bool String.
From Verif Require Import AdmitTotal.Base.
Import ListNotations.
Open Scope string_scope.

(* ------------------------------------------------------------------ constants *)
Definition c_aergo_system := s "aergo.system".
Definition c_aergo_name := s "aergo.name".
Definition c_aergo_enterprise := s "aergo.enterprise".
Definition c_aergo_vault := s "aergo.vault".
Definition special_accounts := [c_aergo_system; c_aergo_name; c_aergo_enterprise; c_aergo_vault].

Definition NameLength := 12%nat.
Definition AddressLength := 33%nat.
Definition PeerIDLength := 39%nat.
Definition MaxCandidates := 30%nat.
Definition StakingDelay := 86400%Z.
Definition VotingDelay := 86400%Z.
Definition MaxAER := 500000000000000000000000000%Z.

Inductive sysop := OpVoteBP | OpVoteDAO | OpStake | OpUnstake.

(** types.GetOpSysTx: [cmdToOp[name]]; a missing key yields the zero value OpvoteBP. *)
Definition op_of (name : str) : sysop :=
  if str_eqb name (s "v1voteDAO") then OpVoteDAO
  else if str_eqb name (s "v1stake") then OpStake
  else if str_eqb name (s "v1unstake") then OpUnstake
  else OpVoteBP.

Definition c_bpcount := s "BPCOUNT".
Definition c_stakingmin := s "STAKINGMIN".
Definition c_gasprice := s "GASPRICE".
Definition c_nameprice := s "NAMEPRICE".
Definition sys_param_ids := [c_bpcount; c_stakingmin; c_gasprice; c_nameprice].

Definition c_rpc := s "RPCPERMISSIONS".
Definition c_p2pwhite := s "P2PWHITE".
Definition c_p2pblack := s "P2PBLACK".
Definition c_accountwhite := s "ACCOUNTWHITE".
Definition enterprise_keys := [c_rpc; c_p2pwhite; c_p2pblack; c_accountwhite].

Inductive txtype := TNormal | TGov | TRedeploy | TFeeDeleg | TTransfer | TCall | TDeploy | TMulticall | TOther.

(** What Tx.Validate looks at. *)
Record tx := mkTx {
  tx_body_nil : bool; tx_chain_ok : bool; tx_size_ok : bool; tx_account_nil : bool; tx_hash_ok : bool;
  tx_amount_ok : bool; tx_price_ok : bool; tx_account_len : nat; tx_recipient_len : nat;
  tx_type : txtype; tx_payload_len : nat; tx_amount_zero : bool;
  tx_recipient : str;                (* Body.Recipient; nil iff empty *)
  tx_ci : option callinfo;           (* json.Unmarshal(payload, &ci): None = error *)
  tx_amount : Z;
  tx_account : str }.

Record env := mkEnv { is_public : bool; use_dpos : bool; use_raft : bool }.

(* ------------------------------------------------------------------ state views *)
(** contract/system: what ValidateSystemTx and the commands read. *)
Record sysview := mkSys {
  sv_fork : Z; sv_block : Z; sv_balance : Z;
  sv_staking_raw : str;                    (* SystemStaking(sender) *)
  sv_vote_bp_raw : str;                    (* SystemVote("voteBP", sender) *)
  sv_votes_dao : list (str * str);         (* SystemVote(ID, sender) for the parameter ids *)
  sv_staking_min : Z }.

(** contract/name *)
Record nameview := mkName {
  nv_balance : Z; nv_price : Z;
  nv_names : list (str * str);             (* raw name maps by name (current data); absent = no entry *)
  nv_names0 : list (str * str) }.          (* the same at the start of the block (GetInitialData) *)

(** contract/enterprise; conf records are kept deserialised (on, values) *)
Record entview := mkEnt {
  ev_sender : str;
  ev_admins : str;                          (* raw EnterpriseAdmins data; empty = not set *)
  ev_confs : list (str * (bool * list str));   (* by upper-case key *)
  ev_cc_set : bool }.

Record state := mkState { st_sys : sysview; st_name : nameview; st_ent : entview }.

Section Model.
  (* ---------------------------------------------------------------- oracles *)
  Variable to_upper : str -> str.                       (* strings.ToUpper *)
  Variable decode_address : str -> option str.          (* types.DecodeAddress *)
  Variable encode_address : str -> str.                 (* types.EncodeAddress *)
  Variable b58 : str -> option (nat * bool).            (* base58.Decode: length, IDFromBytes ok *)
  Variable parse_big : str -> option Z.                 (* big.Int.SetString(s, 10) *)
  Variable allowed_name : str -> bool.                  (* validateAllowedChar *)
  Variable list_entry_ok : str -> bool.                 (* types.ParseListEntry *)
  Variable rpc_parts : str -> nat.                      (* len(strings.Split(v, ":")) *)
  Variable rpc_b64_ok : str -> bool.
  Variable rpc_has_w : str -> bool.                     (* "W" in upper(second part) *)
  Variable cc_peer_ok : str -> bool.                    (* types.IDB58Decode *)
  Variable cc_addr_ok : str -> bool.                    (* types.ParseMultiaddr *)
  Variable cc_hex_ok : str -> bool.                     (* strconv.ParseUint(s, 16, 64) *)

  (* ================================================================ package types *)

  Fixpoint vote_bp_args (args : list json) (i : nat) (seen : list str) : out unit :=
    match args with
    | [] => Ok tt
    | v :: rest =>
        if Nat.leb MaxCandidates i then Err EInvalidPayload else
        match as_str v with
        | None => Err EInvalidPayload
        | Some enc =>
            if mem_str enc seen then Err EInvalidPayload else
            match b58 enc with
            | Some (n, true) =>
                if Nat.eqb n PeerIDLength then vote_bp_args rest (S i) (enc :: seen)
                else Err EInvalidPayload                   (* fixes/F21 *)
            | _ => Err EInvalidPayload
            end
        end
    end.

  Fixpoint vote_dao_args (args : list json) (seen : list str) : out unit :=
    match args with
    | [] => Ok tt
    | v :: rest =>
        match as_str v with
        | None => Err EInvalidPayload
        | Some enc => if mem_str enc seen then Err EInvalidPayload else vote_dao_args rest (enc :: seen)
        end
    end.

  (** types.ValidateSystemTx *)
  Definition types_validate_system (oci : option callinfo) : out unit :=
    match oci with
    | None => Err EInvalidPayload
    | Some ci =>
        match op_of (ci_name ci) with
        | OpStake | OpUnstake => Ok tt
        | OpVoteBP => vote_bp_args (ci_args ci) 0 []
        | OpVoteDAO =>
            if Nat.ltb (List.length (ci_args ci)) 1 then Err EArgsLess1
            else vote_dao_args (ci_args ci) []
        end
    end.

  (** types._validateNameTx *)
  Definition types_validate_name_ (ci : callinfo) : out unit :=
    if Nat.ltb (List.length (ci_args ci)) 1 then Err ENameArgs else
    a0 <- index ("types._validateNameTx", "index", "ci.Args[0]") (ci_args ci) 0 ;;
    match as_str a0 with
    | None => Err ENameArgs
    | Some name =>
        if Nat.ltb NameLength (List.length name) then Err ENameTooLong
        else if negb (Nat.eqb (List.length name) NameLength) then Err ENameNotSupported
        else if negb (allowed_name name) then Err ENameChar
        else Ok tt
    end.

  (** types.validateNameTx (with fixes/F3) *)
  Definition types_validate_name (oci : option callinfo) : out unit :=
    match oci with
    | None => Err EInvalidPayload
    | Some ci =>
        if str_eqb (ci_name ci) (s "v1createName") then
          _ <- types_validate_name_ ci ;;
          if negb (Nat.eqb (List.length (ci_args ci)) 1) then Err ENameArgs else Ok tt
        else if str_eqb (ci_name ci) (s "v1updateName") then
          _ <- types_validate_name_ ci ;;
          if negb (Nat.eqb (List.length (ci_args ci)) 2) then Err ENameArgs else
          a1 <- index ("types.validateNameTx", "index", "ci.Args[1]") (ci_args ci) 1 ;;
          match as_str a1 with
          | None => Err ENameArgs
          | Some to =>
              match decode_address to with
              | None => Err ENameReceiver
              | Some a => if Nat.ltb AddressLength (List.length a) then Err ENameTooLong else Ok tt
              end
          end
        else if str_eqb (ci_name ci) (s "v1setOwner") then
          if Nat.ltb (List.length (ci_args ci)) 1 then Err ENameArgs else
          a0 <- index ("types.validateNameTx", "index", "ci.Args[0]") (ci_args ci) 0 ;;
          match as_str a0 with
          | None => Err ENameArgs
          | Some owner => match decode_address owner with None => Err ENameOwner | Some _ => Ok tt end
          end
        else Err EInvalidPayload
    end.

  (** types.validate: govValidators[recipient] *)
  Definition types_validate_gov (e : env) (t : tx) : out unit :=
    if str_eqb (tx_recipient t) c_aergo_system then
      (if use_dpos e then types_validate_system (tx_ci t) else Err EType)
    else if str_eqb (tx_recipient t) c_aergo_name then types_validate_name (tx_ci t)
    else if str_eqb (tx_recipient t) c_aergo_enterprise then
      (if is_public e then Err EPrivOnly else Ok tt)
    else Err ERecipient.

  Definition recipient_nil (t : tx) : bool := match tx_recipient t with [] => true | _ => false end.

  (** types.transaction.Validate *)
  Definition tx_validate (e : env) (t : tx) : out unit :=
    if tx_body_nil t then Err ETxFormat
    else if negb (tx_chain_ok t) then Err EChainId
    else if negb (tx_size_ok t) then Err ESize
    else if tx_account_nil t then Err ETxFormat
    else if negb (tx_hash_ok t) then Err EHash
    else if negb (tx_amount_ok t) then Err EAmount
    else if negb (tx_price_ok t) then Err EPrice
    else if Nat.ltb AddressLength (tx_account_len t) then Err EAccount
    else if Nat.ltb AddressLength (tx_recipient_len t) then Err ERecipient
    else
      let normal := if recipient_nil t && Nat.eqb (tx_payload_len t) 0 then Err ERecipient else Ok tt in
      match tx_type t with
      | TRedeploy => if is_public e then Err EType else if recipient_nil t then Err ERecipient else normal
      | TNormal => normal
      | TGov => if Nat.eqb (tx_payload_len t) 0 then Err ETxFormat else types_validate_gov e t
      | TFeeDeleg => if recipient_nil t then Err ERecipient
                     else if Nat.eqb (tx_payload_len t) 0 then Err ETxFormat else Ok tt
      | TTransfer | TCall => if recipient_nil t then Err ERecipient else Ok tt
      | TDeploy => if negb (recipient_nil t) then Err ERecipient
                   else if Nat.eqb (tx_payload_len t) 0 then Err ETxFormat else Ok tt
      | TMulticall => if negb (recipient_nil t) then Err ERecipient
                      else if Nat.eqb (tx_payload_len t) 0 then Err ETxFormat
                      else if negb (tx_amount_zero t) then Err EAmount else Ok tt
      | TOther => Err EType
      end.

  (* ================================================================ contract/system *)

  (** deserializeStaking: (when, amount); getStaking returns the zero record for no data *)
  Definition get_staking (raw : str) : out (Z * bool * Z) :=     (* when, amount != nil, amount *)
    match raw with
    | [] => Ok (0%Z, false, 0%Z)
    | _ =>
        if Nat.ltb (List.length raw) 8 then Panic ("system.deserializeStaking", "slice", "data[:8]")
        else Ok (Z.of_N (le_val (firstn 8 raw)), true, be_val (skipn 8 raw))
    end.

  (** deserializeVote: candidate bytes length (a multiple of 39 by construction, else the
      explicit panic), amount *)
  Definition deserialize_vote (data : str) : out (nat * Z) :=
    let pos := Nat.modulo (List.length data) PeerIDLength in
    let clen := (List.length data - pos)%nat in
    if negb (Nat.eqb (Nat.modulo clen PeerIDLength) 0)
    then Panic ("system.deserializeVote", "panic", "panic(""voting data corruption"")")
    else Ok (clen, be_val (skipn clen data)).

  (** deserializeVoteEx: 8-byte little-endian candidate size, candidate, amount *)
  Definition deserialize_vote_ex (data : str) : out (nat * Z) :=
    if Nat.ltb (List.length data) 8 then Panic ("system.deserializeVoteEx", "slice", "data[:8]") else
    let size := N.to_nat (le_val (firstn 8 data)) in
    if Nat.ltb (List.length data) (8 + size) then Panic ("system.deserializeVoteEx", "slice", "data[8 : 8+size]")
    else Ok (size, be_val (skipn (8 + size) data)).

  (** getVote: (vote present, candidate length, amount) *)
  Definition get_vote (ex : bool) (raw : str) : out (bool * nat * Z) :=
    match raw with
    | [] => Ok (false, 0%nat, 0%Z)
    | _ => v <- (if ex then deserialize_vote_ex raw else deserialize_vote raw) ;;
           Ok (true, fst v, snd v)
    end.

  Definition dao_vote_raw (sv : sysview) (id : str) : str :=
    match assoc id (sv_votes_dao sv) with Some r => r | None => [] end.

  Definition validate_for_staking (sv : sysview) (amount : Z) : out unit :=
    st <- get_staking (sv_staking_raw sv) ;;
    let '(when, present, staked) := st in
    if present && Z.ltb (sv_block sv) (when + StakingDelay) then Err ELessTime
    else if Z.ltb (staked + amount) (sv_staking_min sv) then Err ETooSmall
    else Ok tt.

  (** validateForVote: returns the candidate length of the previous vote *)
  Definition validate_for_vote (sv : sysview) (ex : bool) (vote_raw : str) : out nat :=
    st <- get_staking (sv_staking_raw sv) ;;
    let '(when, present, staked) := st in
    if Z.eqb staked 0 then Err EMustStakeVote else
    v <- get_vote ex vote_raw ;;
    let '(vpresent, clen, _) := v in
    if vpresent && Z.ltb (sv_block sv) (when + VotingDelay) then Err ELessTime
    else Ok clen.

  Definition validate_for_unstaking (sv : sysview) (amount : Z) : out unit :=
    st <- get_staking (sv_staking_raw sv) ;;
    let '(when, present, staked) := st in
    if Z.eqb staked 0 then Err EMustStakeUnstake
    else if Z.ltb staked amount then Err EExceed
    else if Z.ltb (sv_block sv) (when + StakingDelay) then Err ELessTime
    else if negb (Z.eqb (staked - amount) 0) && Z.ltb (staked - amount) (sv_staking_min sv) then Err ETooSmall
    else Ok tt.

  (** parseIDForProposal *)
  Definition parse_id_for_proposal (ci : callinfo) : out str :=
    a0 <- index ("system.parseIDForProposal", "index", "ci.Args[0]") (ci_args ci) 0 ;;
    match as_str a0 with
    | None => Err EInvalidId
    | Some id =>
        if Nat.ltb (List.length id) 1 || negb (mem_str (to_upper id) sys_param_ids) then Err EInvalidId
        else Ok (to_upper id)
    end.

  (** validateById (with fixes/F29: a candidate value must be positive) *)
  Definition validate_by_id (id : str) (n : Z) : bool :=
    if Z.leb n 0 then false
    else if str_eqb id c_bpcount then negb (Z.ltb 100 n)
    else if str_eqb id c_stakingmin || str_eqb id c_gasprice || str_eqb id c_nameprice then negb (Z.ltb MaxAER n)
    else true.

  Fixpoint dao_candidates (id : str) (candis : list json) : out unit :=
    match candis with
    | [] => Ok tt
    | c :: rest =>
        match as_str c with
        | None => Err ECandChar
        | Some cand =>
            match parse_big cand with
            | None => Err ECandNumber
            | Some n => if validate_by_id id n then dao_candidates id rest else Err ECandRange
            end
        end
    end.

  (** what ValidateSystemTx hands to the command constructors *)
  Record sysctx := mkCtx { cx_op : sysop; cx_proposal : bool; cx_old_clen : nat }.

  (** system.ValidateSystemTx (with fixes/F4) *)
  Definition system_validate (oci : option callinfo) (amount : Z) (sv : sysview) : out sysctx :=
    match oci with
    | None => Err EInvalidPayload
    | Some ci =>
        match op_of (ci_name ci) with
        | OpStake =>
            if Z.ltb (sv_balance sv) amount then Err EInsufficient else
            _ <- validate_for_staking sv amount ;; Ok (mkCtx OpStake false 0)
        | OpVoteBP =>
            n <- validate_for_vote sv false (sv_vote_bp_raw sv) ;; Ok (mkCtx OpVoteBP false n)
        | OpUnstake =>
            _ <- validate_for_unstaking sv amount ;; Ok (mkCtx OpUnstake false 0)
        | OpVoteDAO =>
            if Z.ltb (sv_fork sv) 2 then Err ENotSupportedOp
            else if Nat.ltb (List.length (ci_args ci)) 2 then Err EArgsLess2 else
            id <- parse_id_for_proposal ci ;;
            (* the four SystemProposal entries: Blockfrom = Blockto = 0, MultipleChoice = 1, no candidate list *)
            candis <- slice_from ("system.ValidateSystemTx", "slice", "ci.Args[1:]") (ci_args ci) 1 ;;
            if Nat.ltb 1 (List.length candis) then Err ETooManyCand else
            _ <- dao_candidates id candis ;;
            n <- validate_for_vote sv true (dao_vote_raw sv id) ;;
            Ok (mkCtx OpVoteDAO true n)
        end
    end.

  (** candidate bytes of a voteBP command: concatenation of base58.Decode results (nil on error) *)
  Fixpoint bp_candidate_len (args : list json) : out nat :=
    match args with
    | [] => Ok 0%nat
    | v :: rest =>
        match as_str v with
        | None => Err EInvalidPayload
        | Some enc =>
            n <- bp_candidate_len rest ;;
            Ok ((match b58 enc with Some (k, _) => k | None => 0 end) + n)%nat
        end
    end.

  (** VoteResult.AddVote / SubVote, BP election: [vote.Candidate[offset : offset+39]] for
      offset = 0, 39, ... < len.  Go checks a slice bound against the capacity, which depends on
      the allocator; the model panics whenever the bound exceeds the length. *)
  Definition vote_slices (fn : string) (clen : nat) : out unit :=
    if Nat.eqb (Nat.modulo clen PeerIDLength) 0 then Ok tt
    else Panic (fn, "slice", "vote.Candidate[offset : offset+PeerIDLength]").

  (** newVoteCmd followed by voteCmd.run's SubVote(old) / AddVote(new) *)
  Definition new_vote_cmd (ci : callinfo) (cx : sysctx) : out unit :=
    if cx_proposal cx then
      _ <- slice_from ("system.newVoteCmd", "slice", "ctx.Call.Args[1:]") (ci_args ci) 1 ;;
      a0 <- index ("system.newVoteCmd", "index", "ctx.Call.Args[0]") (ci_args ci) 0 ;;
      _ <- assert_str ("system.newVoteCmd", "assert", "ctx.Call.Args[0].(string)") a0 ;;
      a1 <- index ("system.newVoteCmd", "index", "ctx.Call.Args[1]") (ci_args ci) 1 ;;
      _ <- assert_str ("system.newVoteCmd", "assert", "ctx.Call.Args[1].(string)") a1 ;;
      Ok tt
    else
      n <- bp_candidate_len (ci_args ci) ;;
      _ <- vote_slices "system.VoteResult.SubVote" (cx_old_clen cx) ;;
      vote_slices "system.VoteResult.AddVote" n.

  (** refreshAllVote (unstake): reads the sender's vote on every issue of the catalog *)
  Fixpoint refresh_votes (sv : sysview) (ids : list str) : out unit :=
    match ids with
    | [] => Ok tt
    | id :: rest => _ <- get_vote true (dao_vote_raw sv id) ;; refresh_votes sv rest
    end.

  (** system.ExecuteSystemTx = newSysCmd (newSystemContext = ValidateSystemTx) + cmd.run *)
  Definition system_exec (oci : option callinfo) (amount : Z) (sv : sysview) : out unit :=
    cx <- system_validate oci amount sv ;;
    match oci with
    | None => Err EInvalidPayload
    | Some ci =>
        match cx_op cx with
        | OpVoteBP | OpVoteDAO => new_vote_cmd ci cx
        | OpStake => Ok tt
        | OpUnstake =>
            v <- get_vote false (sv_vote_bp_raw sv) ;;
            _ <- vote_slices "system.VoteResult.SubVote" (snd (fst v)) ;;
            refresh_votes sv sys_param_ids
        end
    end.

  (* ================================================================ contract/name *)

  (** deserializeNameMap: Some (owner, destination) / None for nil data *)
  Definition deserialize_name_map (odata : option str) : out (option (str * str)) :=
    match odata with
    | None => Ok None
    | Some data =>
        v <- index ("name.deserializeNameMap", "index", "data[0]") data 0 ;;
        if negb (N.eqb v 1) then Panic ("name.deserializeNameMap", "panic", "panic(""could not deserializeOwner, not supported version"")") else
        if Nat.ltb (List.length data) 9 then Panic ("name.deserializeNameMap", "slice", "data[offset:next]") else
        let so := N.to_nat (le_val (firstn 8 (skipn 1 data))) in
        if Nat.ltb (List.length data) (9 + so) then Panic ("name.deserializeNameMap", "slice", "data[offset:next]") else
        let owner := firstn so (skipn 9 data) in
        if Nat.ltb (List.length data) (17 + so) then Panic ("name.deserializeNameMap", "slice", "data[offset:next]") else
        let sd := N.to_nat (le_val (firstn 8 (skipn (9 + so) data))) in
        if Nat.ltb (List.length data) (17 + so + sd) then Panic ("name.deserializeNameMap", "slice", "data[offset:next]") else
        Ok (Some (owner, firstn sd (skipn (17 + so) data)))
    end.

  Definition get_name_map (nv : nameview) (name : str) := deserialize_name_map (assoc name (nv_names nv)).
  (** getNameMap(scs, name, useInitial = true): UpdateName / GetAddress read the block's initial data *)
  Definition get_name_map0 (nv : nameview) (name : str) := deserialize_name_map (assoc name (nv_names0 nv)).

  Definition is_special (a : str) : bool := mem_str a special_accounts.

  (** name.ValidateNameTx (with fixes/F4) *)
  Definition name_validate (t : tx) (nv : nameview) : out callinfo :=
    if Z.ltb (nv_balance nv) (tx_amount t) then Err EInsufficient else
    match tx_ci t with
    | None => Err EJson
    | Some ci =>
        if Nat.ltb (List.length (ci_args ci)) 1 then Err ENameArgs else
        a0 <- index ("name.ValidateNameTx", "index", "ci.Args[0]") (ci_args ci) 0 ;;
        match as_str a0 with
        | None => Err ENameArgs
        | Some nameArg =>
            if str_eqb (ci_name ci) (s "v1createName") then
              if Z.ltb (tx_amount t) (nv_price nv) then Err ETooSmall else
              m <- get_name_map nv nameArg ;;
              match m with Some _ => Err EOccupied | None => Ok ci end
            else if str_eqb (ci_name ci) (s "v1updateName") then
              if Nat.ltb (List.length (ci_args ci)) 2 then Err ENameArgs else
              a1 <- index ("name.ValidateNameTx", "index", "ci.Args[1]") (ci_args ci) 1 ;;
              match as_str a1 with
              | None => Err ENameArgs
              | Some _ =>
                  if Z.ltb (tx_amount t) (nv_price nv) then Err ETooSmall else
                  if str_eqb (tx_account t) nameArg then Ok ci else
                  m <- get_name_map nv nameArg ;;
                  let owner := match m with Some (o, _) => o | None => [] end in
                  if str_eqb (tx_account t) owner then Ok ci else Err EOwnerNotMatched
              end
            else if str_eqb (ci_name ci) (s "v1setOwner") then
              m <- get_name_map nv c_aergo_name ;;
              match m with Some _ => Err EOwnerSet | None => Ok ci end
            else Err EUnknownCmd
        end
    end.

  (** name.ExecuteNameTx (argument handling, name-map reads of UpdateName/GetAddress) *)
  Definition name_exec (t : tx) (nv : nameview) : out unit :=
    ci <- name_validate t nv ;;
    _ <- get_name_map nv c_aergo_name ;;
    if str_eqb (ci_name ci) (s "v1createName") then
      a0 <- index ("name.ExecuteNameTx", "index", "ci.Args[0]") (ci_args ci) 0 ;;
      _ <- assert_str ("name.ExecuteNameTx", "assert", "ci.Args[0].(string)") a0 ;;
      Ok tt
    else if str_eqb (ci_name ci) (s "v1updateName") then
      a0 <- index ("name.ExecuteNameTx", "index", "ci.Args[0]") (ci_args ci) 0 ;;
      nameArg <- assert_str ("name.ExecuteNameTx", "assert", "ci.Args[0].(string)") a0 ;;
      a1 <- index ("name.ExecuteNameTx", "index", "ci.Args[1]") (ci_args ci) 1 ;;
      toArg <- assert_str ("name.ExecuteNameTx", "assert", "ci.Args[1].(string)") a1 ;;
      m <- get_name_map0 nv nameArg ;;
      let dest := match m with Some (_, d) => d | None => [] end in
      if Nat.leb (List.length dest) NameLength then Err ENotCreated else
      let d := match decode_address toArg with Some a => a | None => [] end in
      if Nat.eqb (List.length d) AddressLength || is_special d then Ok tt
      else _ <- get_name_map0 nv d ;; Ok tt
    else if str_eqb (ci_name ci) (s "v1setOwner") then
      a0 <- index ("name.ExecuteNameTx", "index", "ci.Args[0]") (ci_args ci) 0 ;;
      ownerArg <- assert_str ("name.ExecuteNameTx", "assert", "ci.Args[0].(string)") a0 ;;
      match decode_address ownerArg with None => Err ENameOwner | Some _ => Ok tt end
    else Ok tt.

  (* ================================================================ contract/enterprise *)

  Fixpoint chunks (fuel : nat) (data : str) : list str :=
    match fuel with
    | O => []
    | S f => match data with [] => [] | _ => firstn AddressLength data :: chunks f (skipn AddressLength data) end
    end.

  (** getAdmins (with fixes/F15: a length that is not a multiple of 33 is an error) *)
  Definition get_admins (data : str) : out (list str) :=
    if negb (Nat.eqb (Nat.modulo (List.length data) AddressLength) 0) then Err EAdminGet
    else Ok (chunks (List.length data) data).

  Fixpoint is_prefix (a b : str) : bool :=
    match a, b with
    | [], _ => true
    | x :: a', y :: b' => N.eqb x y && is_prefix a' b'
    | _, [] => false
    end.
  Fixpoint is_infix (a b : str) : bool :=
    is_prefix a b || match b with [] => false | _ :: b' => is_infix a b' end.

  (** checkAdmin *)
  Definition check_admin (ev : entview) : out (list str) :=
    admins <- get_admins (ev_admins ev) ;;
    match admins with
    | [] => Err EAdminNotSet
    | _ => if is_infix (ev_sender ev) (List.concat admins) then Ok admins else Err EAdminNotMatched
    end.

  Definition conf := (bool * list str)%type.
  Definition get_conf (ev : entview) (key : str) : option conf := assoc (to_upper key) (ev_confs ev).

  Fixpoint remove_first (v : str) (l : list str) : list str :=
    match l with [] => [] | x :: l' => if str_eqb x v then l' else x :: remove_first v l' end.

  (** Conf.Validate(key, context) for receiver conf [c], context.Conf = [ctxconf] *)
  Fixpoint rpc_validate (vals : list str) : out unit :=
    match vals with
    | [] => Err EConfWritePerm
    | v :: rest =>
        if Nat.ltb (rpc_parts v) 2 then Panic ("enterprise.Conf.Validate", "index", "strings.Split(v, "":"")[1]")
        else if rpc_has_w v then Ok tt else rpc_validate rest
    end.

  Definition conf_validate (c : conf) (key : str) (ctxconf : option conf) (admins : list str) : out unit :=
    if negb (fst c) then Ok tt
    else if str_eqb (to_upper key) c_rpc then rpc_validate (snd c)
    else if str_eqb (to_upper key) c_accountwhite then
      let vals := match ctxconf with Some cc => snd cc | None => [] end in
      if existsb (fun a => mem_str (encode_address a) vals) admins then Ok tt else Err EConfAdminAddr
    else Ok tt.

  Definition check_op (key arg : str) : out unit :=
    if str_eqb key c_p2pwhite || str_eqb key c_p2pblack then
      (if list_entry_ok arg then Ok tt else Err EP2P)
    else if str_eqb key c_accountwhite then
      (match decode_address arg with Some _ => Ok tt | None => Err EAccountWhite end)
    else if str_eqb key c_rpc then
      (if negb (Nat.eqb (rpc_parts arg) 2) then Err ERpc else if rpc_b64_ok arg then Ok tt else Err ERpcCert)
    else Ok tt.

  Fixpoint check_args_loop (key : str) (args : list json) (i : nat) (seen : list str) : out (list str) :=
    match args with
    | [] => Ok []
    | v :: rest =>
        match as_str v with
        | None => Err ENotString
        | Some arg =>
            if existsb (N.eqb 92) arg then Err EBackslash
            else if mem_str arg seen then Err EDup
            else
              _ <- (match i with O => Ok tt | _ => check_op key arg end) ;;
              l <- check_args_loop key rest (S i) (arg :: seen) ;;
              Ok (arg :: l)
        end
    end.

  (** checkArgs (with fixes/F4): returns context.Args *)
  Definition check_args (ci : callinfo) : out (list str) :=
    if Nat.ltb (List.length (ci_args ci)) 1 then Err EEntArgs else
    a0 <- index ("enterprise.checkArgs", "index", "ci.Args[0]") (ci_args ci) 0 ;;
    match as_str a0 with
    | None => Err ENotString
    | Some arg0 =>
        let key := to_upper arg0 in
        if negb (mem_str key enterprise_keys) then Err ENotAllowedKey
        else check_args_loop key (ci_args ci) 0 []
    end.

  Definition obj_str (o : list (str * json)) (k : string) : out str :=
    match assoc (s k) o with
    | Some (JStr x) => Ok x
    | _ => Err ECC
    end.

  (** ValidateChangeCluster + CcArgument.parse *)
  Definition validate_change_cluster (ci : callinfo) : out unit :=
    if negb (Nat.eqb (List.length (ci_args ci)) 1) then Err ECC else
    a0 <- index ("enterprise.ValidateChangeCluster", "index", "ci.Args[0]") (ci_args ci) 0 ;;
    match a0 with
    | JObj o =>
        cmd <- obj_str o "command" ;;
        if str_eqb cmd (s "add") then
          _ <- obj_str o "name" ;;
          addr <- obj_str o "address" ;;
          pid <- obj_str o "peerid" ;;
          if negb (cc_peer_ok pid) then Err ECC else if negb (cc_addr_ok addr) then Err ECC else Ok tt
        else if str_eqb cmd (s "remove") then
          id <- obj_str o "id" ;;
          if cc_hex_ok id then Ok tt else Err ECC
        else Err ECC
    | _ => Err ECC
    end.

  (** what ValidateEnterpriseTx leaves in the EnterpriseContext *)
  Record entctx := mkECtx { ec_args : list str; ec_admins : list str; ec_conf : option conf }.

  Definition conf_values (oc : option conf) : list str := match oc with Some c => snd c | None => [] end.

  (** enterprise.ValidateEnterpriseTx (with fixes/F4, F15), one definition per case of the switch *)
  Definition ent_validate_admin (ci : callinfo) (ev : entview) : out entctx :=
    let nm := ci_name ci in
    if negb (Nat.eqb (List.length (ci_args ci)) 1) then Err EEntArgs else
    a0 <- index ("enterprise.ValidateEnterpriseTx", "index", "ci.Args[0]") (ci_args ci) 0 ;;
    match as_str a0 with
    | None => Err EEntArg0
    | Some arg =>
        let address := match decode_address arg with Some a => a | None => [] end in
        if negb (Nat.eqb (List.length address) AddressLength) then Err EEntArg0 else
        admins <- (match check_admin ev with
                   | Err EAdminNotSet => Ok []
                   | r => r end) ;;
        if str_eqb nm (s "appendAdmin") then
          if mem_str address admins then Err EAdminExist else Ok (mkECtx [arg] admins None)
        else
          if negb (mem_str address admins) then Err EAdminNotExist else
          match get_conf ev c_accountwhite with
          | Some (true, vals) => if mem_str arg vals then Err EAdminInWhite else Ok (mkECtx [arg] admins None)
          | _ => Ok (mkECtx [arg] admins None)
          end
    end.

  Definition ent_validate_setconf (ci : callinfo) (ev : entview) : out entctx :=
    if Nat.leb (List.length (ci_args ci)) 1 then Err EEntArgs else
    args <- check_args ci ;;
    key <- index ("enterprise.ValidateEnterpriseTx", "index", "context.Args[0]") args 0 ;;
    admins <- check_admin ev ;;
    vals <- slice_from ("enterprise.ValidateEnterpriseTx", "slice", "context.Args[1:]") args 1 ;;
    let newconf := (match get_conf ev key with Some c => fst c | None => false end, vals) in
    _ <- (match get_conf ev key with
          | Some c => conf_validate c key (Some newconf) admins
          | None => Ok tt end) ;;
    Ok (mkECtx args admins (Some newconf)).

  Definition ent_validate_appendremove (ci : callinfo) (ev : entview) : out entctx :=
    let nm := ci_name ci in
    if negb (Nat.eqb (List.length (ci_args ci)) 2) then Err EEntArgs else
    args <- check_args ci ;;
    admins <- check_admin ev ;;
    key <- index ("enterprise.ValidateEnterpriseTx", "index", "context.Args[0]") args 0 ;;
    v <- index ("enterprise.ValidateEnterpriseTx", "index", "context.Args[1]") args 1 ;;
    let c := match get_conf ev key with Some c => c | None => (false, []) end in
    if str_eqb nm (s "appendConf") then
      if mem_str v (snd c) then Err EConfExist else
      let c' := (fst c, (snd c ++ [v])%list) in
      _ <- conf_validate c' key (Some c') admins ;; Ok (mkECtx args admins (Some c'))
    else
      if negb (mem_str v (snd c)) then Err EConfNotExist else
      let c' := (fst c, remove_first v (snd c)) in
      _ <- conf_validate c' key (Some c') admins ;; Ok (mkECtx args admins (Some c')).

  Definition ent_validate_enable (ci : callinfo) (ev : entview) : out entctx :=
    if negb (Nat.eqb (List.length (ci_args ci)) 2) then Err EEntArgs else
    a0 <- index ("enterprise.ValidateEnterpriseTx", "index", "ci.Args[0]") (ci_args ci) 0 ;;
    match as_str a0 with
    | None => Err ENotString
    | Some arg0 =>
        _ <- assert_str ("enterprise.ValidateEnterpriseTx", "assert", "ci.Args[0].(string)") a0 ;;
        if negb (mem_str (to_upper arg0) enterprise_keys) then Err ENotAllowedKey else
        a1 <- index ("enterprise.ValidateEnterpriseTx", "index", "ci.Args[1]") (ci_args ci) 1 ;;
        match a1 with
        | JBool value =>
            admins <- check_admin ev ;;
            let c := (value, conf_values (get_conf ev arg0)) in
            _ <- conf_validate c arg0 (Some c) admins ;;
            Ok (mkECtx [arg0] admins (Some c))
        | _ => Err ENotBool
        end
    end.

  Definition ent_validate_cc (e : env) (ci : callinfo) (ev : entview) : out entctx :=
    if negb (use_raft e) then Err ENotSupportedMethod else
    _ <- validate_change_cluster ci ;;
    admins <- check_admin ev ;;
    Ok (mkECtx [] admins None).

  Definition ent_validate (e : env) (oci : option callinfo) (ev : entview) : out entctx :=
    match oci with
    | None => Err EJson
    | Some ci =>
        let nm := ci_name ci in
        if str_eqb nm (s "appendAdmin") || str_eqb nm (s "removeAdmin") then ent_validate_admin ci ev
        else if str_eqb nm (s "setConf") then ent_validate_setconf ci ev
        else if str_eqb nm (s "appendConf") || str_eqb nm (s "removeConf") then ent_validate_appendremove ci ev
        else if str_eqb nm (s "enableConf") then ent_validate_enable ci ev
        else if str_eqb nm (s "changeCluster") then ent_validate_cc e ci ev
        else Err EUnsupportedCall
    end.

  Fixpoint set_assoc {A : Type} (k : str) (v : A) (l : list (str * A)) : list (str * A) :=
    match l with
    | [] => [(k, v)]
    | (k', v') :: l' => if str_eqb k k' then (k, v) :: l' else (k', v') :: set_assoc k v l'
    end.

  (** enterprise.ExecuteEnterpriseTx: new enterprise state *)
  Definition ent_exec (e : env) (oci : option callinfo) (ev : entview) : out entview :=
    cx <- ent_validate e oci ev ;;
    match oci with
    | None => Err EJson
    | Some ci =>
        let nm := ci_name ci in
        if str_eqb nm (s "appendAdmin") then
          a <- index ("enterprise.ExecuteEnterpriseTx", "index", "context.Args[0]") (ec_args cx) 0 ;;
          let addr := match decode_address a with Some x => x | None => [] end in
          Ok (mkEnt (ev_sender ev) (List.concat ((ec_admins cx ++ [addr])%list)) (ev_confs ev) (ev_cc_set ev))
        else if str_eqb nm (s "removeAdmin") then
          a <- index ("enterprise.ExecuteEnterpriseTx", "index", "context.Args[0]") (ec_args cx) 0 ;;
          let addr := match decode_address a with Some x => x | None => [] end in
          Ok (mkEnt (ev_sender ev) (List.concat (remove_first addr (ec_admins cx))) (ev_confs ev) (ev_cc_set ev))
        else if str_eqb nm (s "setConf") || str_eqb nm (s "appendConf") || str_eqb nm (s "removeConf")
                || str_eqb nm (s "enableConf") then
          key <- index ("enterprise.ExecuteEnterpriseTx", "index", "context.Args[0]") (ec_args cx) 0 ;;
          _ <- (if str_eqb nm (s "enableConf")
                then _ <- index ("enterprise.ExecuteEnterpriseTx", "index", "context.Call.Args[1]") (ci_args ci) 1 ;; Ok tt
                else Ok tt) ;;
          match ec_conf cx with
          | Some c => Ok (mkEnt (ev_sender ev) (ev_admins ev) (set_assoc (to_upper key) c (ev_confs ev)) (ev_cc_set ev))
          | None => Ok ev
          end
        else if str_eqb nm (s "changeCluster") then
          if ev_cc_set ev then Err ECCAlready
          else Ok (mkEnt (ev_sender ev) (ev_admins ev) (ev_confs ev) true)
        else Err EUnsupportedCall
    end.

  (* ================================================================ admission and execution *)

  (** mempool.validateTx's governance dispatch after verifyTx (= Tx.Validate) *)
  Definition stateful_validate (e : env) (t : tx) (st : state) : out unit :=
    match tx_type t with
    | TGov =>
        if str_eqb (tx_recipient t) c_aergo_system then
          _ <- system_validate (tx_ci t) (tx_amount t) (st_sys st) ;; Ok tt
        else if str_eqb (tx_recipient t) c_aergo_name then
          _ <- name_validate t (st_name st) ;; Ok tt
        else if str_eqb (tx_recipient t) c_aergo_enterprise then
          _ <- ent_validate e (tx_ci t) (st_ent st) ;; Ok tt
        else Err ERecipient      (* ValidateWithSenderState: default case of the governance recipient switch *)
    | _ => Ok tt
    end.

  (** pool admission: verifyTx then validateTx *)
  Definition admission (e : env) (t : tx) (st : state) : out unit :=
    _ <- tx_validate e t ;; stateful_validate e t st.

  (** chain.executeTx / executeGovernanceTx for a governance transaction *)
  Definition exec_gov (e : env) (t : tx) (st : state) : out unit :=
    _ <- tx_validate e t ;;
    match tx_type t with
    | TGov =>
        if str_eqb (tx_recipient t) c_aergo_system then system_exec (tx_ci t) (tx_amount t) (st_sys st)
        else if str_eqb (tx_recipient t) c_aergo_name then name_exec t (st_name st)
        else if str_eqb (tx_recipient t) c_aergo_enterprise then
          _ <- ent_exec e (tx_ci t) (st_ent st) ;; Ok tt
        else Err ERecipient
    (* contract.Execute with the VM as an oracle (C01-C04, C20); fee delegation likewise *)
    | TNormal | TTransfer | TCall | TMulticall | TDeploy | TRedeploy | TFeeDeleg => Ok tt
    (* no case of executeTx's `switch txBody.Type`: txFee stays nil and
       bs.BpReward.Add(&bs.BpReward, txFee) dereferences it *)
    | TOther => Panic ("chain.executeTx", "nilptr", "bs.BpReward.Add(&bs.BpReward, txFee)")
    end.

  (** the transaction types with a case in executeTx's dispatch (compared with the generated list) *)
  Definition exec_dispatch_types : list string :=
    ["TxType_NORMAL"; "TxType_TRANSFER"; "TxType_CALL"; "TxType_MULTICALL"; "TxType_DEPLOY"; "TxType_REDEPLOY";
     "TxType_GOVERNANCE"; "TxType_FEEDELEGATION"].
  (** the transaction types Tx.Validate admits *)
  Definition validate_types : list string :=
    ["TxType_REDEPLOY"; "TxType_NORMAL"; "TxType_GOVERNANCE"; "TxType_FEEDELEGATION"; "TxType_TRANSFER"; "TxType_CALL";
     "TxType_DEPLOY"; "TxType_MULTICALL"].

  (* ---------------------------------------------------------------- stored-data well-formedness *)
  Definition staking_wf (raw : str) : bool := match raw with [] => true | _ => Nat.leb 8 (List.length raw) end.
  Definition vote_ex_wf (raw : str) : bool :=
    match raw with
    | [] => true
    | _ => Nat.leb 8 (List.length raw) && Nat.leb (8 + N.to_nat (le_val (firstn 8 raw))) (List.length raw)
    end.
  Definition name_map_wf (data : str) : bool :=
    negb (is_panic (deserialize_name_map (Some data))).

  Definition sys_wf (sv : sysview) : bool :=
    staking_wf (sv_staking_raw sv) && forallb (fun kv => vote_ex_wf (snd kv)) (sv_votes_dao sv).
  Definition name_wf (nv : nameview) : bool :=
    forallb (fun kv => name_map_wf (snd kv)) (nv_names nv) && forallb (fun kv => name_map_wf (snd kv)) (nv_names0 nv).
  Definition conf_wf (kc : str * conf) : bool :=
    if str_eqb (fst kc) c_rpc then forallb (fun v => Nat.leb 2 (rpc_parts v)) (snd (snd kc)) else true.
  Definition ent_wf (ev : entview) : bool := forallb conf_wf (ev_confs ev).
  Definition state_wf (st : state) : bool := sys_wf (st_sys st) && name_wf (st_name st) && ent_wf (st_ent st).

End Model.

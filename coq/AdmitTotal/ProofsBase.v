(** C14: no-panic predicate [np], bind/index lemmas, totality of types.Tx.Validate. *)
From Coq Require Import ZArith NArith List Bool String Lia.
From Verif Require Import AdmitTotal.Base AdmitTotal.Model.
Import ListNotations.

Definition np {A : Type} (x : out A) : Prop := is_panic x = false.

Lemma np_ok : forall A (a : A), np (Ok a). Proof. reflexivity. Qed.
Lemma np_err : forall A e, np (@Err A e). Proof. reflexivity. Qed.
#[export] Hint Resolve np_ok np_err : np.

Lemma np_bind : forall A B (x : out A) (k : A -> out B),
  np x -> (forall a, x = Ok a -> np (k a)) -> np (bind x k).
Proof. intros A B [a|e|p] k H1 H2; simpl; [auto | reflexivity | discriminate H1]. Qed.

Lemma np_not_panic : forall A (x : out A), np x <-> (forall p, x <> Panic p).
Proof.
  intros A [a|e|p]; unfold np; simpl; split; intros; try congruence; try reflexivity.
  exfalso. apply (H p). reflexivity.
Qed.

Lemma index_ok : forall A p (l : list A) i, (i < List.length l)%nat -> exists x, index p l i = Ok x.
Proof.
  intros A p l i H. unfold index. destruct (nth_error l i) eqn:E; eauto.
  apply nth_error_None in E. lia.
Qed.

Lemma np_index : forall A p (l : list A) i, (i < List.length l)%nat -> np (index p l i).
Proof. intros. destruct (index_ok A p l i H) as [x ->]. reflexivity. Qed.

Lemma np_slice_from : forall A p (l : list A) i, (i <= List.length l)%nat -> np (slice_from p l i).
Proof. intros. unfold slice_from. apply Nat.leb_le in H. rewrite H. reflexivity. Qed.

Lemma index_0_inv : forall A p (l : list A) x, index p l 0 = Ok x -> exists r, l = x :: r.
Proof. intros A p [|y r] x H; unfold index in H; simpl in H; inversion H; eauto. Qed.

Lemma index_1_inv : forall A p (l : list A) x, index p l 1 = Ok x -> exists y r, l = y :: x :: r.
Proof. intros A p [|y [|z r]] x H; unfold index in H; simpl in H; inversion H; eauto. Qed.

Ltac ifs :=
  repeat match goal with
  | |- np (Err _) => apply np_err
  | |- np (Ok _) => apply np_ok
  | |- np (match ?c with _ => _ end) => destruct c eqn:?
  end.

Section Proofs.
  Variable to_upper : str -> str.
  Variable decode_address : str -> option str.
  Variable encode_address : str -> str.
  Variable b58 : str -> option (nat * bool).
  Variable parse_big : str -> option Z.
  Variable allowed_name : str -> bool.
  Variable list_entry_ok : str -> bool.
  Variable rpc_parts : str -> nat.
  Variable rpc_b64_ok : str -> bool.
  Variable rpc_has_w : str -> bool.
  Variable cc_peer_ok : str -> bool.
  Variable cc_addr_ok : str -> bool.
  Variable cc_hex_ok : str -> bool.

  Notation tx_validate := (tx_validate decode_address b58 allowed_name).
  Notation types_validate_system := (types_validate_system b58).
  Notation types_validate_name := (types_validate_name decode_address allowed_name).

  Lemma np_vote_bp_args : forall args i seen, np (vote_bp_args b58 args i seen).
  Proof.
    induction args as [|v rest IH]; intros; simpl; ifs.
    apply IH.
  Qed.

  Lemma np_vote_dao_args : forall args seen, np (vote_dao_args args seen).
  Proof.
    induction args as [|v rest IH]; intros; simpl; ifs.
    apply IH.
  Qed.

  Lemma np_types_validate_system : forall oci, np (types_validate_system oci).
  Proof.
    intros [ci|]; simpl; [|apply np_err]. destruct (op_of (ci_name ci)); ifs;
      auto using np_vote_bp_args, np_vote_dao_args.
  Qed.

  Lemma np_types_validate_name_ : forall ci, np (types_validate_name_ allowed_name ci).
  Proof.
    intros ci. unfold types_validate_name_. ifs.
    apply Nat.ltb_ge in Heqb.
    destruct (index_ok _ ("types._validateNameTx", "index", "ci.Args[0]")%string (ci_args ci) 0) as [x ->]; [lia|].
    simpl. ifs.
  Qed.

  Lemma types_validate_name__ok : forall ci u, types_validate_name_ allowed_name ci = Ok u ->
    exists n r, ci_args ci = JStr n :: r.
  Proof.
    intros ci u. unfold types_validate_name_.
    destruct (Nat.ltb _ 1); [discriminate|].
    destruct (ci_args ci) as [|a r]; simpl; [discriminate|].
    destruct a; simpl; try discriminate. eauto.
  Qed.

  Lemma np_types_validate_name : forall oci, np (types_validate_name oci).
  Proof.
    intros [ci|]; simpl; ifs.
    - apply np_bind; [apply np_types_validate_name_|]. intros; ifs.
    - apply np_bind; [apply np_types_validate_name_|]. intros; ifs.
      apply Bool.negb_false_iff, Nat.eqb_eq in Heqb1.
      apply np_bind; [apply np_index; lia|]. intros x _.
      ifs.
    - apply Nat.ltb_ge in Heqb2.
      apply np_bind; [apply np_index; lia|]. intros x _.
      ifs.
  Qed.

  Theorem tx_validate_total : forall e t, np (tx_validate e t).
  Proof.
    intros e t. unfold tx_validate. ifs.
    destruct (tx_type t); ifs; unfold types_validate_gov; ifs;
      auto using np_types_validate_system, np_types_validate_name.
  Qed.
End Proofs.

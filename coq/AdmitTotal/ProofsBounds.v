(** C14: the size premises of the step relation follow from numeric bounds on the amounts:
    an amount below 256^38 (= 2^304; the total supply is 5*10^26 < 2^89) is written in at most 38
    bytes, so a staking record is shorter than 47 bytes and a BP tally entry shorter than 78. *)
From Coq Require Import ZArith NArith List Bool String Lia.
From Verif Require Import AdmitTotal.Base AdmitTotal.Model AdmitTotal.State AdmitTotal.ProofsState1.
Import ListNotations.
Open Scope list_scope.

Lemma le_bytes_fuel_length : forall fuel n k, (n < 256 ^ N.of_nat k)%N -> (List.length (le_bytes_fuel fuel n) <= k)%nat.
Proof.
  induction fuel as [|f IH]; intros n k H; [simpl; lia|].
  simpl. destruct (N.eqb n 0) eqn:E; [simpl; lia|]. apply N.eqb_neq in E.
  destruct k as [|k].
  - simpl in H. lia.
  - simpl List.length. apply le_n_S. apply IH.
    rewrite Nat2N.inj_succ, N.pow_succ_r' in H. apply N.div_lt_upper_bound; lia.
Qed.

Theorem be_bytes_length : forall z k, (Z.abs z < 256 ^ Z.of_nat k)%Z -> (List.length (be_bytes z) <= k)%nat.
Proof.
  intros z k H. unfold be_bytes. rewrite rev_length. apply le_bytes_fuel_length.
  assert (Hn : (Z.to_N (Z.abs z) < 256 ^ N.of_nat k)%N).
  { apply N2Z.inj_lt. rewrite Z2N.id by lia. rewrite N2Z.inj_pow. rewrite nat_N_Z. exact H. }
  exact Hn.
Qed.

(** a staking record written for an amount below 2^304 is shorter than 47 bytes *)
Theorem staking_record_short : forall w amount, (Z.abs amount < 256 ^ 38)%Z ->
  (List.length (ser_staking w (be_bytes amount)) < 47)%nat.
Proof.
  intros w amount H. unfold ser_staking. rewrite app_length, le64_length.
  pose proof (be_bytes_length amount 38 H). lia.
Qed.

(** a BP tally entry (39-byte peer id + amount below 2^304) is shorter than 78 bytes *)
Theorem bp_entry_short : forall k v, List.length k = 39%nat -> (Z.abs v < 256 ^ 38)%Z ->
  (List.length (ser_vote false k (be_bytes v)) < 78)%nat.
Proof.
  intros k v Hk H. unfold ser_vote, ser_vote_bp. rewrite app_length, Hk.
  pose proof (be_bytes_length v 38 H). lia.
Qed.

(** C14: enterprise conf records — serializeConf / deserializeConf round trip holds exactly for
    values free of the separator byte '\'; checkArgs rejects values containing it, so every conf
    ExecuteEnterpriseTx stores reads back as the same values (what Conf.Validate's
    strings.Split(v, ":")[1] relies on). *)
From Coq Require Import ZArith NArith List Bool String Lia.
From Verif Require Import AdmitTotal.Base AdmitTotal.Model AdmitTotal.ProofsBase AdmitTotal.ProofsSystem AdmitTotal.ProofsName
  AdmitTotal.ProofsEntValidate AdmitTotal.ProofsEntExec AdmitTotal.State.
Import ListNotations.
Open Scope list_scope.

Lemma split92_nonempty : forall d, split92 d <> [].
Proof.
  induction d as [|x r IH]; simpl; [discriminate|].
  destruct (N.eqb x 92); [discriminate|]. destruct (split92 r); [contradiction | discriminate].
Qed.

Lemma split92_sepfree_one : forall v, sepfree v = true -> split92 v = [v].
Proof.
  induction v as [|x r IH]; intros H; [reflexivity|]. unfold sepfree in H. cbn [existsb] in H. rewrite (N.eqb_sym 92 x) in H.
  destruct (N.eqb x 92) eqn:E; simpl in H; [discriminate H|]. simpl. rewrite E, IH; [reflexivity | exact H].
Qed.

Lemma split92_app : forall v rest, sepfree v = true -> split92 (v ++ 92%N :: rest) = v :: split92 rest.
Proof.
  induction v as [|x r IH]; intros rest H; [reflexivity|]. unfold sepfree in H. cbn [existsb] in H. rewrite (N.eqb_sym 92 x) in H.
  destruct (N.eqb x 92) eqn:E; simpl in H; [discriminate H|]. simpl. rewrite E, (IH rest); [reflexivity | exact H].
Qed.

Lemma split92_values : forall vs v, sepfree v = true -> forallb sepfree vs = true ->
  split92 (v ++ flat_map (fun w => 92%N :: w) vs) = v :: vs.
Proof.
  induction vs as [|w vs IH]; intros v Hv Hvs; simpl.
  - rewrite app_nil_r. apply split92_sepfree_one. exact Hv.
  - simpl in Hvs. apply andb_true_iff in Hvs. destruct Hvs as [Hw Hvs].
    rewrite (split92_app v _ Hv). rewrite (IH w Hw Hvs). reflexivity.
Qed.

(** deserializeConf (serializeConf c) = c when no value contains the separator *)
Theorem de_ser_conf : forall c, conf_sepfree c = true -> de_conf (ser_conf c) = c.
Proof.
  intros [on vals] H. unfold conf_sepfree in H. simpl in H. unfold de_conf, ser_conf. cbn [fst snd].
  assert (Hs : split92 (flat_map (fun w => 92%N :: w) vals) = [] :: vals).
  { exact (split92_values vals [] eq_refl H). }
  destruct on; simpl; rewrite Hs; reflexivity.
Qed.

(** without the check the round trip fails: a value with a separator is read back as two values *)
Example de_ser_conf_separator : de_conf (ser_conf (true, [s "a\b"])) = (true, [s "a"; s "b"]).
Proof. vm_compute. reflexivity. Qed.

Lemma split92_pieces_sepfree : forall d, forallb sepfree (split92 d) = true.
Proof.
  induction d as [|x r IH]; [reflexivity|]. simpl. destruct (N.eqb x 92) eqn:E; [simpl; exact IH|].
  destruct (split92 r) as [|h t]; [unfold sepfree; cbn [forallb existsb]; rewrite (N.eqb_sym 92 x), E; reflexivity|].
  cbn [forallb] in *. apply andb_true_iff in IH. destruct IH as [Hh Ht]. rewrite Ht, andb_true_r.
  unfold sepfree in *. cbn [existsb]. rewrite (N.eqb_sym 92 x), E. exact Hh.
Qed.

Lemma de_conf_sepfree : forall d, conf_sepfree (de_conf d) = true.
Proof.
  intros d. unfold conf_sepfree, de_conf. cbn [snd]. pose proof (split92_pieces_sepfree d) as H.
  destruct (split92 d) as [|h t]; [reflexivity|]. simpl in *. apply andb_true_iff in H. tauto.
Qed.

(** what is read from raw records is separator free *)
Lemma ent_of_raw_sepfree : forall sender admins raws cc, ent_sepfree (ent_of_raw sender admins raws cc) = true.
Proof.
  intros. unfold ent_sepfree, ent_of_raw. cbn [ev_confs]. induction raws as [|[k r] l IH]; [reflexivity|].
  simpl. rewrite de_conf_sepfree, IH. reflexivity.
Qed.

Section P.
  Variable to_upper : str -> str.
  Variable decode_address : str -> option str.
  Variable encode_address : str -> str.
  Variable list_entry_ok : str -> bool.
  Variable rpc_parts : str -> nat.
  Variable rpc_b64_ok : str -> bool.
  Variable rpc_has_w : str -> bool.
  Variable cc_peer_ok : str -> bool.
  Variable cc_addr_ok : str -> bool.
  Variable cc_hex_ok : str -> bool.

  Notation ent_validate := (ent_validate to_upper decode_address encode_address list_entry_ok rpc_parts rpc_b64_ok rpc_has_w cc_peer_ok cc_addr_ok cc_hex_ok).
  Notation ent_exec := (ent_exec to_upper decode_address encode_address list_entry_ok rpc_parts rpc_b64_ok rpc_has_w cc_peer_ok cc_addr_ok cc_hex_ok).
  Notation check_args := (check_args to_upper decode_address list_entry_ok rpc_parts rpc_b64_ok).
  Notation check_args_loop := (check_args_loop decode_address list_entry_ok rpc_parts rpc_b64_ok).

  (** checkArgs: every accepted argument is free of the separator *)
  Lemma check_args_loop_sepfree : forall key args i seen l, check_args_loop key args i seen = Ok l -> forallb sepfree l = true.
  Proof.
    induction args as [|v rest IH]; intros i seen l; simpl.
    - intros E. inversion E. reflexivity.
    - destruct (as_str v) as [arg|]; [|intro X; discriminate X].
      destruct (existsb (N.eqb 92) arg) eqn:Eb; [intro X; discriminate X|].
      destruct (mem_str arg seen); [intro X; discriminate X|].
      intros E. apply bind_ok in E. destruct E as (u & _ & E). apply bind_ok in E. destruct E as (l' & E2 & E).
      inversion E; subst. simpl. rewrite (IH _ _ _ E2), andb_true_r. unfold sepfree. rewrite Eb. reflexivity.
  Qed.

  Lemma check_args_sepfree : forall ci l, check_args ci = Ok l -> forallb sepfree l = true.
  Proof.
    intros ci l. unfold Model.check_args.
    destruct (Nat.ltb _ 1); [intro X; discriminate X|].
    destruct (index _ (ci_args ci) 0) as [a0|e|p]; cbn [bind]; try (intro X; discriminate X).
    destruct (as_str a0); [|intro X; discriminate X].
    destruct (negb _); [intro X; discriminate X|]. apply check_args_loop_sepfree.
  Qed.

  Lemma get_conf_sepfree : forall ev key c, ent_sepfree ev = true -> get_conf to_upper ev key = Some c -> conf_sepfree c = true.
  Proof.
    intros ev key c H E. unfold get_conf in E. apply assoc_key in E. unfold ent_sepfree in H.
    rewrite forallb_forall in H. exact (H _ E).
  Qed.

  Lemma forallb_skipn : forall (f : str -> bool) n l, forallb f l = true -> forallb f (skipn n l) = true.
  Proof.
    induction n; intros l H; [exact H|]. destruct l; [reflexivity|]. simpl in *. apply andb_true_iff in H. apply IHn. tauto.
  Qed.

  Lemma forallb_remove_first : forall (f : str -> bool) v l, forallb f l = true -> forallb f (remove_first v l) = true.
  Proof.
    induction l as [|x l IH]; intros H; [reflexivity|]. simpl in *. apply andb_true_iff in H. destruct H as [H1 H2].
    destruct (str_eqb x v); [exact H2|]. simpl. rewrite H1, (IH H2). reflexivity.
  Qed.

  Lemma forallb_nth : forall (f : str -> bool) p l i x, forallb f l = true -> index p l i = Ok x -> f x = true.
  Proof.
    intros f p l i x H E. unfold index in E. destruct (nth_error l i) eqn:En; [|discriminate]. inversion E; subst.
    rewrite forallb_forall in H. apply H. eapply nth_error_In; eauto.
  Qed.

  (** the conf ValidateEnterpriseTx hands to ExecuteEnterpriseTx is separator free *)
  Lemma ent_validate_sepfree : forall e ci ev cx c, ent_sepfree ev = true ->
    ent_validate e (Some ci) ev = Ok cx -> ec_conf cx = Some c -> conf_sepfree c = true.
  Proof.
    intros e ci ev cx c Hev. unfold Model.ent_validate. cbv zeta.
    destruct (str_eqb (ci_name ci) (s "appendAdmin") || str_eqb (ci_name ci) (s "removeAdmin")).
    { unfold ent_validate_admin. cbv zeta. intros E Hc.
      repeat match type of E with
      | (if ?b then _ else _) = _ => destruct b; try discriminate E
      | bind ?x _ = Ok _ => apply bind_ok in E; destruct E as (? & ? & E)
      | match ?x with _ => _ end = Ok _ => destruct x eqn:?; try discriminate E
      end; try (inversion E; subst; simpl in Hc; discriminate Hc). }
    destruct (str_eqb (ci_name ci) (s "setConf")).
    { unfold ent_validate_setconf. intros E Hc.
      destruct (Nat.leb _ 1); [discriminate E|].
      apply bind_ok in E. destruct E as (args & Ea & E). apply bind_ok in E. destruct E as (key & Ek & E).
      apply bind_ok in E. destruct E as (admins & _ & E). apply bind_ok in E. destruct E as (vals & Ev & E).
      assert (Hvals : forallb sepfree vals = true).
      { unfold slice_from in Ev. destruct (Nat.leb 1 _); [|discriminate Ev].
        assert (Hx : vals = skipn 1 args) by congruence. rewrite Hx. apply forallb_skipn. eapply check_args_sepfree; eauto. }
      cbv zeta in E. apply bind_ok in E. destruct E as (u & _ & E).
      assert (Hcx : ec_conf cx = Some (match get_conf to_upper ev key with Some c0 => fst c0 | None => false end, vals)).
      { injection E as <-. reflexivity. }
      rewrite Hcx in Hc. injection Hc as <-. exact Hvals. }
    destruct (str_eqb (ci_name ci) (s "appendConf") || str_eqb (ci_name ci) (s "removeConf")).
    { unfold ent_validate_appendremove. cbv zeta. intros E Hc.
      destruct (negb _); [discriminate E|].
      apply bind_ok in E. destruct E as (args & Ea & E). apply bind_ok in E. destruct E as (admins & _ & E).
      apply bind_ok in E. destruct E as (key & Ek & E). apply bind_ok in E. destruct E as (v & Ev & E).
      pose proof (check_args_sepfree _ _ Ea) as Hargs. pose proof (forallb_nth sepfree _ _ _ _ Hargs Ev) as Hv.
      assert (Hold : forallb sepfree (snd (match get_conf to_upper ev key with Some c0 => c0 | None => (false, []) end)) = true).
      { destruct (get_conf to_upper ev key) eqn:Eg; [exact (get_conf_sepfree _ _ _ Hev Eg) | reflexivity]. }
      set (c0 := match get_conf to_upper ev key with Some c0 => c0 | None => (false, []) end) in *.
      destruct (str_eqb (ci_name ci) (s "appendConf")).
      - destruct (mem_str v _); [discriminate E|]. apply bind_ok in E. destruct E as (u & _ & E).
        assert (Hcx : ec_conf cx = Some (fst c0, snd c0 ++ [v])) by (injection E as <-; reflexivity).
        rewrite Hcx in Hc. injection Hc as <-. unfold conf_sepfree. cbn [snd]. rewrite forallb_app. apply andb_true_iff. split; [exact Hold|].
        cbn [forallb]. rewrite Hv. reflexivity.
      - destruct (negb _); [discriminate E|]. apply bind_ok in E. destruct E as (u & _ & E).
        assert (Hcx : ec_conf cx = Some (fst c0, remove_first v (snd c0))) by (injection E as <-; reflexivity).
        rewrite Hcx in Hc. injection Hc as <-. unfold conf_sepfree. cbn [snd]. apply forallb_remove_first. exact Hold. }
    destruct (str_eqb (ci_name ci) (s "enableConf")).
    { unfold ent_validate_enable. intros E Hc.
      destruct (negb _); [discriminate E|].
      apply bind_ok in E. destruct E as (a0 & _ & E). destruct (as_str a0) as [arg0|]; [|discriminate E].
      apply bind_ok in E. destruct E as (? & _ & E). destruct (negb _); [discriminate E|].
      apply bind_ok in E. destruct E as (a1 & _ & E). destruct a1; try discriminate E.
      apply bind_ok in E. destruct E as (admins & _ & E). cbv zeta in E. apply bind_ok in E. destruct E as (u & _ & E).
      assert (Hcx : ec_conf cx = Some (b, conf_values (get_conf to_upper ev arg0))) by (injection E as <-; reflexivity).
      rewrite Hcx in Hc. injection Hc as <-. unfold conf_sepfree, conf_values. cbn [snd].
      destruct (get_conf to_upper ev arg0) eqn:Eg; [exact (get_conf_sepfree _ _ _ Hev Eg) | reflexivity]. }
    destruct (str_eqb (ci_name ci) (s "changeCluster")); [|intro X; discriminate X].
    unfold ent_validate_cc. intros E Hc. destruct (negb _); [discriminate E|].
    apply bind_ok in E. destruct E as (? & _ & E). apply bind_ok in E. destruct E as (? & _ & E).
    inversion E; subst. simpl in Hc. discriminate Hc.
  Qed.

  Lemma set_assoc_forallb2 : forall (f : str * conf -> bool) k v l,
    f (k, v) = true -> forallb f l = true -> forallb f (set_assoc k v l) = true.
  Proof.
    induction l as [|[k' v'] l IH]; simpl; intros Hf H.
    - rewrite Hf. reflexivity.
    - apply andb_true_iff in H. destruct H as [H1 H2].
      destruct (str_eqb k k'); simpl; [rewrite Hf, H2; reflexivity | rewrite H1, IH; auto].
  Qed.

  (** ExecuteEnterpriseTx keeps every conf free of the separator ... *)
  Theorem ent_exec_sepfree : forall e oci ev ev', ent_sepfree ev = true -> ent_exec e oci ev = Ok ev' -> ent_sepfree ev' = true.
  Proof.
    intros e [ci|] ev ev' Hev; [|intro X; discriminate X]. unfold Model.ent_exec. intros E.
    apply bind_ok in E. destruct E as (cx & Ecx & E). cbv zeta in E.
    destruct (str_eqb (ci_name ci) (s "appendAdmin")).
    { apply bind_ok in E. destruct E as (? & _ & E). inversion E; subst. exact Hev. }
    destruct (str_eqb (ci_name ci) (s "removeAdmin")).
    { apply bind_ok in E. destruct E as (? & _ & E). inversion E; subst. exact Hev. }
    destruct (_ || _).
    { apply bind_ok in E. destruct E as (key & _ & E). apply bind_ok in E. destruct E as (? & _ & E).
      destruct (ec_conf cx) as [c|] eqn:Ec; [|inversion E; subst; exact Hev].
      inversion E; subst. unfold ent_sepfree. cbn [ev_confs]. apply set_assoc_forallb2; [|exact Hev].
      cbn [snd]. eapply ent_validate_sepfree; eauto. }
    destruct (str_eqb (ci_name ci) (s "changeCluster")); [|discriminate E].
    destruct (ev_cc_set ev); [discriminate E|]. inversion E; subst. exact Hev.
  Qed.

  (** ... so every stored conf record reads back as the values that were written *)
  Theorem ent_exec_conf_roundtrip : forall e oci ev ev' k c, ent_sepfree ev = true -> ent_exec e oci ev = Ok ev' ->
    In (k, c) (ev_confs ev') -> de_conf (ser_conf c) = c.
  Proof.
    intros e oci ev ev' k c Hev E Hin. apply de_ser_conf.
    pose proof (ent_exec_sepfree e oci ev ev' Hev E) as H. unfold ent_sepfree in H. rewrite forallb_forall in H. exact (H _ Hin).
  Qed.
End P.

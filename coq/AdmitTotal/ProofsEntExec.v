(** C14: contract/enterprise — ExecuteEnterpriseTx never panics and keeps stored conf records well-formed. *)
From Coq Require Import ZArith NArith List Bool String Lia.
From Verif Require Import AdmitTotal.Base AdmitTotal.Model.
From Verif Require Import AdmitTotal.ProofsBase AdmitTotal.ProofsSystem AdmitTotal.ProofsName AdmitTotal.ProofsEntValidate.
Import ListNotations.

Lemma set_assoc_forallb : forall A (f : str * A -> bool) k v l,
  f (k, v) = true -> forallb f l = true -> forallb f (set_assoc k v l) = true.
Proof.
  induction l as [|[k' v'] l IH]; simpl; intros Hf H.
  - rewrite Hf. reflexivity.
  - apply andb_true_iff in H. destruct H as [H1 H2].
    destruct (str_eqb k k'); simpl; [rewrite Hf, H2; reflexivity | rewrite H1, IH; auto].
Qed.

Section Proofs.
  Variable to_upper : str -> str.
  Variable decode_address : str -> option str.
  Variable encode_address : str -> str.
  Variable b58 : str -> option (nat * bool).
  Variable parse_big : str -> option Z.
  Variable allowed_name : str -> bool.
  Variable list_entry_ok : str -> bool.
  Variable rpc_parts : str -> nat.
  Variable rpc_b64_ok : str -> bool.
  Variable rpc_has_w : str -> bool.
  Variable cc_peer_ok : str -> bool.
  Variable cc_addr_ok : str -> bool.
  Variable cc_hex_ok : str -> bool.

  Notation ent_validate := (ent_validate to_upper decode_address encode_address list_entry_ok rpc_parts rpc_b64_ok rpc_has_w cc_peer_ok cc_addr_ok cc_hex_ok).
  Notation ent_exec := (ent_exec to_upper decode_address encode_address list_entry_ok rpc_parts rpc_b64_ok rpc_has_w cc_peer_ok cc_addr_ok cc_hex_ok).
  Notation ent_wf := (ent_wf rpc_parts).
  Notation ectx_ok := (ectx_ok to_upper rpc_parts).
  Notation state_wf := (state_wf rpc_parts).
  Notation tx_validate := (tx_validate decode_address b58 allowed_name).
  Notation admission := (admission to_upper decode_address encode_address b58 parse_big allowed_name list_entry_ok rpc_parts rpc_b64_ok rpc_has_w cc_peer_ok cc_addr_ok cc_hex_ok).
  Notation stateful_validate := (stateful_validate to_upper decode_address encode_address parse_big list_entry_ok rpc_parts rpc_b64_ok rpc_has_w cc_peer_ok cc_addr_ok cc_hex_ok).
  Notation exec_gov := (exec_gov to_upper decode_address encode_address b58 parse_big allowed_name list_entry_ok rpc_parts rpc_b64_ok rpc_has_w cc_peer_ok cc_addr_ok cc_hex_ok).

  Definition is_conf_cmd (nm : str) : bool :=
    str_eqb nm (s "appendAdmin") || str_eqb nm (s "removeAdmin") || str_eqb nm (s "setConf")
    || str_eqb nm (s "appendConf") || str_eqb nm (s "removeConf") || str_eqb nm (s "enableConf").

  Lemma ent_validate_ok : forall e ci ev cx, ent_wf ev = true -> ent_validate e (Some ci) ev = Ok cx ->
    (is_conf_cmd (ci_name ci) = true -> ectx_ok cx) /\
    (str_eqb (ci_name ci) (s "enableConf") = true -> str_eqb (ci_name ci) (s "appendAdmin") = false ->
     str_eqb (ci_name ci) (s "removeAdmin") = false -> str_eqb (ci_name ci) (s "setConf") = false ->
     str_eqb (ci_name ci) (s "appendConf") = false -> str_eqb (ci_name ci) (s "removeConf") = false ->
     (2 <= List.length (ci_args ci))%nat).
  Proof.
    intros e ci ev cx Hwf. unfold ent_validate, is_conf_cmd. cbv zeta.
    destruct (str_eqb (ci_name ci) (s "appendAdmin")); simpl orb;
    [intros E; split; [intros _; exact (proj2 (admin_total to_upper decode_address rpc_parts ci ev) cx E) | discriminate] |].
    destruct (str_eqb (ci_name ci) (s "removeAdmin")); simpl orb;
    [intros E; split; [intros _; exact (proj2 (admin_total to_upper decode_address rpc_parts ci ev) cx E) | discriminate] |].
    destruct (str_eqb (ci_name ci) (s "setConf")); simpl orb;
    [intros E; split; [intros _; exact (proj2 (setconf_total to_upper decode_address encode_address list_entry_ok rpc_parts rpc_b64_ok rpc_has_w cc_peer_ok cc_addr_ok cc_hex_ok ci ev Hwf) cx E) | discriminate] |].
    destruct (str_eqb (ci_name ci) (s "appendConf")); simpl orb;
    [intros E; split; [intros _; exact (proj2 (appendremove_total to_upper decode_address encode_address list_entry_ok rpc_parts rpc_b64_ok rpc_has_w cc_peer_ok cc_addr_ok cc_hex_ok ci ev Hwf) cx E) | discriminate] |].
    destruct (str_eqb (ci_name ci) (s "removeConf")); simpl orb;
    [intros E; split; [intros _; exact (proj2 (appendremove_total to_upper decode_address encode_address list_entry_ok rpc_parts rpc_b64_ok rpc_has_w cc_peer_ok cc_addr_ok cc_hex_ok ci ev Hwf) cx E) | discriminate] |].
    destruct (str_eqb (ci_name ci) (s "enableConf")); simpl orb.
    - intros E. destruct (enable_total to_upper encode_address rpc_parts rpc_has_w ci ev Hwf) as [_ H].
      destruct (H _ E) as [H1 H2]. split; auto.
    - intros _. split; discriminate.
  Qed.

  Definition rpc_okb (vals : list str) : bool := forallb (fun v => Nat.leb 2 (rpc_parts v)) vals.
  Lemma rpc_ok_b : forall vals, rpc_ok rpc_parts vals -> rpc_okb vals = true.
  Proof. intros vals H. apply forallb_forall. intros v Hv. apply Nat.leb_le. auto. Qed.

  (** ExecuteEnterpriseTx neither panics nor stores a conf that a later Conf.Validate cannot split *)
  Theorem ent_exec_total : forall e oci ev, ent_wf ev = true ->
    np (ent_exec e oci ev) /\ forall ev', ent_exec e oci ev = Ok ev' -> ent_wf ev' = true.
  Proof.
    intros e [ci|] ev Hwf; [|split; [reflexivity|discriminate]]. unfold ent_exec.
    pose proof (ent_validate_total to_upper decode_address encode_address list_entry_ok rpc_parts rpc_b64_ok rpc_has_w cc_peer_ok cc_addr_ok cc_hex_ok e (Some ci) ev Hwf) as Hn.
    destruct (ent_validate e (Some ci) ev) as [cx|er|p] eqn:Ev; [| split; [reflexivity|discriminate] | discriminate Hn].
    destruct (ent_validate_ok _ _ _ _ Hwf Ev) as [Hok Hen]. unfold is_conf_cmd in Hok. cbn [bind]. cbv zeta.
    destruct (str_eqb (ci_name ci) (s "appendAdmin")) eqn:E1.
    { destruct (Hok eq_refl) as (k & r & -> & _). unfold index. simpl. split; [reflexivity|].
      intros ev' E. inversion E; subst. exact Hwf. }
    destruct (str_eqb (ci_name ci) (s "removeAdmin")) eqn:E2.
    { destruct (Hok eq_refl) as (k & r & -> & _). unfold index. simpl. split; [reflexivity|].
      intros ev' E. inversion E; subst. exact Hwf. }
    simpl orb in *.
    destruct (str_eqb (ci_name ci) (s "setConf") || str_eqb (ci_name ci) (s "appendConf")
              || str_eqb (ci_name ci) (s "removeConf") || str_eqb (ci_name ci) (s "enableConf")) eqn:E3.
    { destruct (Hok eq_refl) as (k & r & Hargs & Hconf). rewrite Hargs. unfold index at 1. simpl nth_error. cbn [bind].
      assert (Hfin : np (match ec_conf cx with
                         | Some c => Ok (mkEnt (ev_sender ev) (ev_admins ev) (set_assoc (to_upper k) c (ev_confs ev)) (ev_cc_set ev))
                         | None => Ok ev end) /\
                     forall ev', match ec_conf cx with
                         | Some c => Ok (mkEnt (ev_sender ev) (ev_admins ev) (set_assoc (to_upper k) c (ev_confs ev)) (ev_cc_set ev))
                         | None => Ok ev end = Ok ev' -> ent_wf ev' = true).
      { destruct (ec_conf cx) as [c|] eqn:Ec; (split; [reflexivity|]); intros ev' E; inversion E; subst; [|exact Hwf].
        unfold Model.ent_wf. simpl. apply set_assoc_forallb; [|exact Hwf].
        unfold conf_wf. simpl. destruct (str_eqb (to_upper k) c_rpc) eqn:Ek; [|reflexivity].
        apply str_eqb_eq in Ek. apply rpc_ok_b. apply Hconf; auto. }
      destruct (str_eqb (ci_name ci) (s "enableConf")) eqn:E4; [|exact Hfin].
      destruct (str_eqb (ci_name ci) (s "setConf")) eqn:E5;
      [| destruct (str_eqb (ci_name ci) (s "appendConf")) eqn:E6;
         [| destruct (str_eqb (ci_name ci) (s "removeConf")) eqn:E7]].
      4: { specialize (Hen eq_refl eq_refl eq_refl eq_refl eq_refl eq_refl).
           destruct (index_ok _ ("enterprise.ExecuteEnterpriseTx", "index", "context.Call.Args[1]")%string (ci_args ci) 1 ltac:(lia)) as [x ->].
           cbn [bind]. exact Hfin. }
      all: exfalso; apply str_eqb_eq in E4;
        match goal with H : str_eqb (ci_name _) _ = true |- _ => apply str_eqb_eq in H; rewrite E4 in H; vm_compute in H; discriminate H end. }
    destruct (str_eqb (ci_name ci) (s "changeCluster")); [|split; [reflexivity|discriminate]].
    destruct (ev_cc_set ev); split; try reflexivity; try discriminate.
    intros ev' E. inversion E; subst. exact Hwf.
  Qed.
End Proofs.

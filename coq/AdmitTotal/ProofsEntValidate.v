(** C14: contract/enterprise — each case of ValidateEnterpriseTx never panics and hands ExecuteEnterpriseTx a usable context. *)
From Coq Require Import ZArith NArith List Bool String Lia.
From Verif Require Import AdmitTotal.Base AdmitTotal.Model.
From Verif Require Import AdmitTotal.ProofsBase AdmitTotal.ProofsSystem AdmitTotal.ProofsName.
Import ListNotations.

Section Proofs.
  Variable to_upper : str -> str.
  Variable decode_address : str -> option str.
  Variable encode_address : str -> str.
  Variable list_entry_ok : str -> bool.
  Variable rpc_parts : str -> nat.
  Variable rpc_b64_ok : str -> bool.
  Variable rpc_has_w : str -> bool.
  Variable cc_peer_ok : str -> bool.
  Variable cc_addr_ok : str -> bool.
  Variable cc_hex_ok : str -> bool.

  Notation ent_validate := (ent_validate to_upper decode_address encode_address list_entry_ok rpc_parts rpc_b64_ok rpc_has_w cc_peer_ok cc_addr_ok cc_hex_ok).
  Notation ent_validate_admin := (ent_validate_admin to_upper decode_address).
  Notation ent_validate_setconf := (ent_validate_setconf to_upper decode_address encode_address list_entry_ok rpc_parts rpc_b64_ok rpc_has_w).
  Notation ent_validate_appendremove := (ent_validate_appendremove to_upper decode_address encode_address list_entry_ok rpc_parts rpc_b64_ok rpc_has_w).
  Notation ent_validate_enable := (ent_validate_enable to_upper encode_address rpc_parts rpc_has_w).
  Notation ent_validate_cc := (ent_validate_cc cc_peer_ok cc_addr_ok cc_hex_ok).
  Notation ent_exec := (ent_exec to_upper decode_address encode_address list_entry_ok rpc_parts rpc_b64_ok rpc_has_w cc_peer_ok cc_addr_ok cc_hex_ok).
  Notation check_args := (check_args to_upper decode_address list_entry_ok rpc_parts rpc_b64_ok).
  Notation check_op := (check_op decode_address list_entry_ok rpc_parts rpc_b64_ok).
  Notation conf_validate := (conf_validate to_upper encode_address rpc_parts rpc_has_w).
  Notation ent_wf := (ent_wf rpc_parts).
  Notation conf_wf := (conf_wf rpc_parts).
  Notation rpc_ok := (rpc_ok rpc_parts).
  Notation np_conf_validate := (np_conf_validate to_upper encode_address rpc_parts rpc_has_w).
  Notation get_conf_rpc_ok := (get_conf_rpc_ok to_upper rpc_parts).
  Notation check_args_ok := (check_args_ok to_upper decode_address encode_address list_entry_ok rpc_parts rpc_b64_ok rpc_has_w cc_peer_ok cc_addr_ok cc_hex_ok).
  Notation np_check_args := (np_check_args to_upper decode_address list_entry_ok rpc_parts rpc_b64_ok).
  Notation check_op_rpc := (check_op_rpc decode_address list_entry_ok rpc_parts rpc_b64_ok).

  (** post-condition of a successful ValidateEnterpriseTx used by ExecuteEnterpriseTx:
      context.Args is non-empty and the conf to be stored keeps RPC values splittable *)
  Definition ectx_ok (cx : entctx) : Prop :=
    exists k r, ec_args cx = k :: r /\
      forall c, ec_conf cx = Some c -> to_upper k = c_rpc -> rpc_ok (snd c).

  Lemma admin_total : forall ci ev, np (ent_validate_admin ci ev) /\
    forall cx, ent_validate_admin ci ev = Ok cx -> ectx_ok cx.
  Proof.
    intros ci ev. unfold ent_validate_admin. cbv zeta.
    destruct (negb (Nat.eqb (List.length (ci_args ci)) 1)) eqn:El; [split; [reflexivity|discriminate]|].
    apply negb_false_iff, Nat.eqb_eq in El.
    destruct (ci_args ci) as [|a0 [|? ?]]; try discriminate El.
    unfold index. simpl nth_error. cbn [bind].
    destruct (as_str a0) as [arg|]; [|split; [reflexivity|discriminate]].
    destruct (negb _); [split; [reflexivity|discriminate]|].
    assert (Hok : forall admins, ectx_ok (mkECtx [arg] admins None)).
    { intros. exists arg, []. split; [reflexivity|]. simpl. discriminate. }
    pose proof (np_check_admin ev) as Hc.
    destruct (check_admin ev) as [admins|e|p]; [| |discriminate Hc]; cbn [bind].
    - split.
      + ifs.
      + intros cx. repeat match goal with |- context [if ?c then _ else _] => destruct c end;
          try discriminate; try (intros E; inversion E; subst; apply Hok).
        destruct (get_conf to_upper ev c_accountwhite) as [[[|] vals]|];
          try (intros E; inversion E; subst; apply Hok).
        destruct (mem_str arg vals); [discriminate|]. intros E; inversion E; subst; apply Hok.
    - destruct e; cbn [bind]; try (split; [reflexivity|discriminate]).
      split.
      + ifs.
      + intros cx. repeat match goal with |- context [if ?c then _ else _] => destruct c end;
          try discriminate; try (intros E; inversion E; subst; apply Hok).
        destruct (get_conf to_upper ev c_accountwhite) as [[[|] vals]|];
          try (intros E; inversion E; subst; apply Hok).
        destruct (mem_str arg vals); [discriminate|]. intros E; inversion E; subst; apply Hok.
  Qed.

  Lemma setconf_total : forall ci ev, ent_wf ev = true -> np (ent_validate_setconf ci ev) /\
    forall cx, ent_validate_setconf ci ev = Ok cx -> ectx_ok cx.
  Proof.
    intros ci ev Hwf. unfold ent_validate_setconf.
    destruct (Nat.leb (List.length (ci_args ci)) 1) eqn:El; [split; [reflexivity|discriminate]|].
    apply Nat.leb_gt in El.
    pose proof (np_check_args ci) as Hn.
    destruct (check_args ci) as [args|e|p] eqn:Ea; [| split; [reflexivity|discriminate] | discriminate Hn].
    destruct (check_args_ok _ _ Ea) as (Hl & k & r & -> & Hk & Hall). cbn [bind].
    unfold index. simpl nth_error. cbn [bind].
    pose proof (np_check_admin ev) as Hc.
    destruct (check_admin ev) as [admins|e|p]; [| split; [reflexivity|discriminate] | discriminate Hc]. cbn [bind].
    unfold slice_from. simpl Nat.leb. cbv iota. cbn [bind skipn]. cbv zeta.
    assert (Hr : to_upper k = c_rpc -> rpc_ok r).
    { intros Hrpc v Hv. eapply check_op_rpc; eauto. }
    destruct (get_conf to_upper ev k) as [c|] eqn:Ec; cbn [bind].
    - assert (Hv : np (conf_validate c k (Some (fst c, r)) admins)).
      { apply np_conf_validate. eauto using get_conf_rpc_ok. }
      destruct (conf_validate c k (Some (fst c, r)) admins) as [u|e|p]; [| split; [reflexivity|discriminate] | discriminate Hv].
      cbn [bind]. split; [reflexivity|]. intros cx E. inversion E; subst.
      exists k, r. split; [reflexivity|]. simpl. intros c0 E0. inversion E0; subst. exact Hr.
    - split; [reflexivity|]. intros cx E. inversion E; subst.
      exists k, r. split; [reflexivity|]. simpl. intros c0 E0. inversion E0; subst. exact Hr.
  Qed.

  Lemma appendremove_total : forall ci ev, ent_wf ev = true -> np (ent_validate_appendremove ci ev) /\
    forall cx, ent_validate_appendremove ci ev = Ok cx -> ectx_ok cx.
  Proof.
    intros ci ev Hwf. unfold ent_validate_appendremove. cbv zeta.
    destruct (negb (Nat.eqb (List.length (ci_args ci)) 2)) eqn:El; [split; [reflexivity|discriminate]|].
    apply negb_false_iff, Nat.eqb_eq in El.
    pose proof (np_check_args ci) as Hn.
    destruct (check_args ci) as [args|e|p] eqn:Ea; [| split; [reflexivity|discriminate] | discriminate Hn].
    destruct (check_args_ok _ _ Ea) as (Hl & k & r & -> & Hk & Hall). cbn [bind].
    pose proof (np_check_admin ev) as Hc.
    destruct (check_admin ev) as [admins|e|p]; [| split; [reflexivity|discriminate] | discriminate Hc]. cbn [bind].
    destruct r as [|v r]; [simpl in Hl; lia|].
    unfold index. simpl nth_error. cbn [bind].
    set (c := match get_conf to_upper ev k with Some c => c | None => (false, []) end).
    assert (Hc0 : to_upper k = c_rpc -> rpc_ok (snd c)).
    { intros Hrpc. subst c. destruct (get_conf to_upper ev k) eqn:Ec; [eauto using get_conf_rpc_ok|]. intros ? []. }
    assert (Hv : to_upper k = c_rpc -> (2 <= rpc_parts v)%nat).
    { intros Hrpc. eapply check_op_rpc; eauto. apply Hall. left. reflexivity. }
    assert (G : forall c', (to_upper k = c_rpc -> rpc_ok (snd c')) ->
              np (_ <- conf_validate c' k (Some c') admins ;; Ok (mkECtx (k :: v :: r) admins (Some c'))) /\
              forall cx, (_ <- conf_validate c' k (Some c') admins ;; Ok (mkECtx (k :: v :: r) admins (Some c'))) = Ok cx -> ectx_ok cx).
    { intros c' Hc'. pose proof (np_conf_validate c' k (Some c') admins Hc') as Hnv.
      destruct (conf_validate c' k (Some c') admins) as [u|e|p]; [| split; [reflexivity|discriminate] | discriminate Hnv].
      cbn [bind]. split; [reflexivity|]. intros cx E. inversion E; subst.
      exists k, (v :: r). split; [reflexivity|]. simpl. intros c0 E0. inversion E0; subst. exact Hc'. }
    destruct (str_eqb (ci_name ci) (s "appendConf")).
    - destruct (mem_str v (snd c)); [split; [reflexivity|discriminate]|].
      apply G. simpl. intros Hrpc w Hw. apply in_app_or in Hw. destruct Hw as [Hw|[<-|[]]]; auto.
      apply Hc0; auto.
    - destruct (negb (mem_str v (snd c))); [split; [reflexivity|discriminate]|].
      apply G. simpl. intros Hrpc w Hw. apply remove_first_in in Hw. apply Hc0; auto.
  Qed.

  Lemma enable_total : forall ci ev, ent_wf ev = true -> np (ent_validate_enable ci ev) /\
    forall cx, ent_validate_enable ci ev = Ok cx -> ectx_ok cx /\ (2 <= List.length (ci_args ci))%nat.
  Proof.
    intros ci ev Hwf. unfold ent_validate_enable.
    destruct (negb (Nat.eqb (List.length (ci_args ci)) 2)) eqn:El; [split; [reflexivity|discriminate]|].
    apply negb_false_iff, Nat.eqb_eq in El.
    destruct (ci_args ci) as [|a0 [|a1 [|? ?]]]; try discriminate El.
    unfold index. simpl nth_error. cbn [bind].
    destruct a0; simpl as_str; cbv iota; try (split; [reflexivity|discriminate]).
    cbn [assert_str bind].
    destruct (negb _); [split; [reflexivity|discriminate]|].
    destruct a1; try (split; [reflexivity|discriminate]).
    pose proof (np_check_admin ev) as Hc.
    destruct (check_admin ev) as [admins|e|p]; [| split; [reflexivity|discriminate] | discriminate Hc]. cbn [bind]. cbv zeta.
    set (c := (b, conf_values (get_conf to_upper ev x))).
    assert (Hc0 : to_upper x = c_rpc -> rpc_ok (snd c)).
    { intros Hrpc. subst c. simpl. unfold conf_values.
      destruct (get_conf to_upper ev x) eqn:Ec; [eauto using get_conf_rpc_ok|]. intros ? []. }
    pose proof (np_conf_validate c x (Some c) admins Hc0) as Hnv.
    destruct (conf_validate c x (Some c) admins) as [u|e|p]; [| split; [reflexivity|discriminate] | discriminate Hnv].
    cbn [bind]. split; [reflexivity|]. intros cx E. inversion E; subst. split; [|simpl; lia].
    exists x, []. split; [reflexivity|]. simpl. intros c0 E0. inversion E0; subst. exact Hc0.
  Qed.

  Lemma np_validate_change_cluster : forall ci, np (validate_change_cluster cc_peer_ok cc_addr_ok cc_hex_ok ci).
  Proof.
    intros ci. unfold validate_change_cluster.
    destruct (negb (Nat.eqb (List.length (ci_args ci)) 1)) eqn:El; [reflexivity|].
    apply negb_false_iff, Nat.eqb_eq in El.
    destruct (ci_args ci) as [|a0 [|? ?]]; try discriminate El.
    unfold index. simpl nth_error. cbn [bind].
    destruct a0; try reflexivity. unfold obj_str.
    repeat match goal with
    | |- np (Ok _) => reflexivity
    | |- np (Err _) => reflexivity
    | |- np (bind (Ok _) _) => cbn [bind]
    | |- np (bind (Err _) _) => reflexivity
    | |- np (bind (match ?c with _ => _ end) _) => destruct c
    | |- np (match ?c with _ => _ end) => destruct c
    end.
  Qed.

  Lemma cc_total : forall e ci ev, np (ent_validate_cc e ci ev).
  Proof.
    intros e ci ev. unfold ent_validate_cc. destruct (negb (use_raft e)); [reflexivity|].
    apply np_bind; [apply np_validate_change_cluster|]. intros _ _.
    apply np_bind; [apply np_check_admin|]. intros; reflexivity.
  Qed.

  Theorem ent_validate_total : forall e oci ev, ent_wf ev = true -> np (ent_validate e oci ev).
  Proof.
    intros e [ci|] ev H; [|reflexivity]. unfold ent_validate. cbv zeta.
    repeat match goal with |- np (if ?c then _ else _) => destruct c end;
      try reflexivity; try apply admin_total; try apply setconf_total; try apply appendremove_total;
      try apply enable_total; try apply cc_total; auto.
  Qed.
End Proofs.

(** C14: domain of a vote tally under SubVote / AddVote / load; splitting candidate ++ amount; 39-byte chunks. *)
From Coq Require Import ZArith NArith List Bool String Lia.
From Verif Require Import AdmitTotal.Base AdmitTotal.Model AdmitTotal.ProofsBase AdmitTotal.ProofsSystem AdmitTotal.ProofsName AdmitTotal.State
  AdmitTotal.ProofsState1 AdmitTotal.ProofsState2 AdmitTotal.ProofsState3.
Import ListNotations.
Open Scope list_scope.

(** domain of a tally *)
Definition has_key (t : tally) (k : str) : Prop := assoc k t <> None.

Lemma str_eqb_refl : forall a, str_eqb a a = true.
Proof. intros. apply str_eqb_eq. reflexivity. Qed.

Lemma assoc_set_tally_same : forall k v t, assoc k (set_tally k v t) = Some v.
Proof.
  induction t as [|[k' v'] t IH]; simpl.
  - rewrite str_eqb_refl. reflexivity.
  - destruct (str_eqb k k') eqn:E; simpl; [rewrite str_eqb_refl; reflexivity | rewrite E; exact IH].
Qed.

Lemma assoc_set_tally_other : forall k k' v t, str_eqb k' k = false -> assoc k' (set_tally k v t) = assoc k' t.
Proof.
  induction t as [|[k0 v0] t IH]; simpl; intros E.
  - rewrite E. reflexivity.
  - destruct (str_eqb k k0) eqn:E0; simpl.
    + apply str_eqb_eq in E0. subst k0. rewrite E. reflexivity.
    + destruct (str_eqb k' k0); [reflexivity | apply IH; exact E].
Qed.

Lemma has_key_set : forall k v t k', has_key (set_tally k v t) k' <-> (k' = k \/ has_key t k').
Proof.
  intros k v t k'. unfold has_key. destruct (str_eqb k' k) eqn:E.
  - apply str_eqb_eq in E. subst. rewrite assoc_set_tally_same. split; [auto | intros _; discriminate].
  - rewrite (assoc_set_tally_other _ _ _ _ E). split; [auto|]. intros [->|H]; [|exact H].
    rewrite str_eqb_refl in E. discriminate.
Qed.

Lemma sub_keys_dom : forall fn ks amt t t', sub_keys fn ks amt t = Ok t' -> forall k, has_key t' k <-> has_key t k.
Proof.
  induction ks as [|k0 ks IH]; intros amt t t' E k; simpl in E.
  - inversion E; subst. tauto.
  - destruct (assoc k0 t) eqn:Ea; [|discriminate]. rewrite (IH _ _ _ E k). rewrite has_key_set.
    split; [intros [->|H]; [unfold has_key; rewrite Ea; discriminate | exact H] | auto].
Qed.

Lemma sub_keys_ok : forall fn ks amt t, (forall k, In k ks -> has_key t k) -> exists t', sub_keys fn ks amt t = Ok t'.
Proof.
  induction ks as [|k0 ks IH]; intros amt t H; simpl; [eauto|].
  destruct (assoc k0 t) eqn:Ea; [|exfalso; apply (H k0 (or_introl eq_refl)); exact Ea].
  apply IH. intros k Hk. apply has_key_set. right. apply H. right. exact Hk.
Qed.

Lemma add_keys_dom : forall ks amt t k, has_key (add_keys ks amt t) k <-> (In k ks \/ has_key t k).
Proof.
  induction ks as [|k0 ks IH]; intros amt t k; simpl; [tauto|].
  rewrite IH, has_key_set. split; [intros [H|[->|H]]; auto | intros [[->|H]|H]; auto].
Qed.

(** keys of a tally as loaded from entries *)
Lemma load_entries_dom : forall ex es t t', load_entries ex es t = Ok t' ->
  forall k, has_key t' k <-> (has_key t k \/ exists e v, In e es /\ de_vote ex e = Ok v /\ fst v = k).
Proof.
  induction es as [|e es IH]; intros t t' E k; simpl in E.
  - inversion E; subst. split; [auto | intros [H|(e & v & [] & _)]; exact H].
  - apply bind_ok in E. destruct E as (v & Ev & E). rewrite (IH _ _ E k), has_key_set. split.
    + intros [[->|H]|(e' & v' & Hin & Hd & Hk)]; [right; exists e, v; simpl; auto | auto | right; exists e', v'; simpl; auto].
    + intros [H|(e' & v' & [<-|Hin] & Hd & Hk)]; [auto | left; left; rewrite Ev in Hd; inversion Hd; subst; reflexivity | right; eauto].
Qed.

Lemma in_has_key : forall (t : tally) k v, In (k, v) t -> has_key t k.
Proof.
  induction t as [|[k' v'] t IH]; intros k v H; [destruct H|]. unfold has_key. simpl.
  destruct (str_eqb k k') eqn:E; [discriminate|]. destruct H as [H|H]; [inversion H; subst; rewrite str_eqb_refl in E; discriminate|].
  apply (IH _ _ H).
Qed.

Lemma has_key_in : forall (t : tally) k, has_key t k -> exists v, In (k, v) t.
Proof.
  intros t k H. unfold has_key in H. destruct (assoc k t) eqn:E; [|congruence]. exists z. apply assoc_key. exact E.
Qed.

Lemma de_vote_bp_app : forall k a, Nat.modulo (List.length k) 39 = 0%nat -> (List.length a < 39)%nat ->
  de_vote_bp (k ++ a) = (k, a).
Proof.
  intros k a Hk Ha. unfold de_vote_bp, PeerIDLength. rewrite app_length.
  assert (E : ((List.length k + List.length a) mod 39 = List.length a)%nat).
  { apply Nat.mod_divides in Hk; [|lia]. destruct Hk as [q Hq]. rewrite Hq.
    rewrite Nat.add_comm, Nat.mul_comm, Nat.mod_add by lia. apply Nat.mod_small. exact Ha. }
  rewrite E. replace (List.length k + List.length a - List.length a)%nat with (List.length k) by lia.
  rewrite firstn_app_l, skipn_app_l. reflexivity.
Qed.

Lemma de_vote_bp_mod : forall data, Nat.modulo (List.length (fst (de_vote_bp data))) 39 = 0%nat /\
  data = fst (de_vote_bp data) ++ snd (de_vote_bp data).
Proof.
  intros data. unfold de_vote_bp, PeerIDLength. cbv zeta. cbn [fst snd]. split; [|symmetry; apply firstn_skipn].
  rewrite firstn_length_le by apply Nat.le_sub_l. apply mod39_sub.
Qed.

(** chunks of a multiple-of-39 byte string are 39 bytes long *)
Lemma chunks_of_len : forall fuel data k, Nat.modulo (List.length data) 39 = 0%nat ->
  In k (chunks_of 39 fuel data) -> List.length k = 39%nat.
Proof.
  induction fuel as [|f IH]; intros data k Hm Hin; [destruct Hin|].
  cbn [chunks_of] in Hin. destruct data as [|x r] eqn:Ed; [destruct Hin|]. rewrite <- Ed in *.
  assert (Hl : (39 <= List.length data)%nat).
  { apply Nat.mod_divides in Hm; [|lia]. destruct Hm as [q Hq]. destruct q; [subst; simpl in Hq; lia | lia]. }
  destruct Hin as [<-|Hin].
  - rewrite firstn_length_le by lia. reflexivity.
  - apply (IH (skipn 39 data)); [|exact Hin]. rewrite skipn_length.
    apply Nat.mod_divides in Hm; [|lia]. destruct Hm as [q Hq]. rewrite Hq.
    destruct q; [lia|]. replace (39 * S q - 39)%nat with (q * 39)%nat by lia. apply Nat.mod_mul. lia.
Qed.

(** C14: a stored result list re-loads to a tally with the same keys; what updateVoteResult does to the key set. *)
From Coq Require Import ZArith NArith List Bool String Lia.
From Verif Require Import AdmitTotal.Base AdmitTotal.Model AdmitTotal.ProofsBase AdmitTotal.ProofsSystem AdmitTotal.ProofsName AdmitTotal.State
  AdmitTotal.ProofsState1 AdmitTotal.ProofsState2 AdmitTotal.ProofsState3.
From Verif Require Import AdmitTotal.ProofsKeys1.
Import ListNotations.
Open Scope list_scope.

Definition amt_short (a : str) : Prop := (List.length a < 39)%nat.

(** keys of the BP tally are 39-byte peer ids and its amounts shorter than 39 bytes (what makes
    candidate ++ amount splittable again) *)
Definition tally_ok (ex : bool) (t : tally) : Prop :=
  ex = true \/ forall k v, In (k, v) t -> List.length k = 39%nat /\ amt_short (be_bytes v).

Definition result_tally (ex : bool) (raw : str) (t : tally) : Prop :=
  raw = store_result ex t /\ tally_ok ex t /\ small raw.

Lemma entry_rt : forall ex t k v, tally_ok ex t -> small (store_result ex t) -> In (k, v) t ->
  de_vote ex (ser_vote ex k (be_bytes v)) = Ok (k, be_bytes v).
Proof.
  intros ex t k v Hok Hs Hin. unfold de_vote, ser_vote. destruct ex.
  - apply de_ser_vote_ex. unfold store_result in Hs.
    eapply entry_key_small; [|exact Hs]. apply in_map_iff. exists (k, v). split; [reflexivity|exact Hin].
  - destruct Hok as [X|Hok]; [discriminate|]. destruct (Hok _ _ Hin) as [Hk Ha].
    unfold ser_vote_bp. rewrite de_vote_bp_app; [reflexivity | rewrite Hk; reflexivity | exact Ha].
Qed.

Lemma load_store : forall ex raw t, result_tally ex raw t ->
  exists t', load_result ex raw = Ok t' /\ forall k, has_key t' k <-> has_key t k.
Proof.
  intros ex raw t (-> & Hok & Hs). unfold load_result.
  set (es := map (fun kv : str * Z => ser_vote ex (fst kv) (be_bytes (snd kv))) t).
  assert (Hes : store_result ex t = ser_list es) by reflexivity.
  assert (Hsm : Forall small es).
  { apply Forall_forall. intros e He. eapply small_le; [apply in_ser_list_len; exact He | rewrite <- Hes; exact Hs]. }
  rewrite Hes, (de_ser_list es Hsm _ (le_n _)). cbn [bind].
  assert (Hrt : forall e, In e es -> exists k v, In (k, v) t /\ de_vote ex e = Ok (k, be_bytes v)).
  { intros e He. subst es. apply in_map_iff in He. destruct He as ([k v] & <- & Hin). exists k, v. split; [exact Hin|].
    apply (entry_rt ex t k v Hok Hs Hin). }
  assert (Hex : forall es0 acc, (forall e, In e es0 -> In e es) -> exists t', load_entries ex es0 acc = Ok t').
  { induction es0 as [|e es0 IH]; intros acc Hsub; simpl; [eauto|].
    destruct (Hrt e (Hsub e (or_introl eq_refl))) as (k & v & _ & ->). cbn [bind]. apply IH. intros; apply Hsub; right; auto. }
  destruct (Hex es [] (fun e H => H)) as [t' Ht']. exists t'. split; [exact Ht'|].
  intros k. rewrite (load_entries_dom _ _ _ _ Ht' k). split.
  - intros [H|(e & v & He & Hd & Hk)]; [exfalso; apply H; reflexivity|].
    destruct (Hrt e He) as (k0 & v0 & Hin & Hd'). rewrite Hd in Hd'. inversion Hd'; subst. simpl. eapply in_has_key; eauto.
  - intros H. right. destruct (has_key_in _ _ H) as [v Hin].
    exists (ser_vote ex k (be_bytes v)), (k, be_bytes v). split; [|split; [|reflexivity]].
    + subst es. apply in_map_iff. exists (k, v). auto.
    + apply (entry_rt ex t k v Hok Hs Hin).
Qed.

Section K.
  Variable junmarshal : str -> option (list str).
  Notation vote_keys := (vote_keys junmarshal).
  Notation update_result := (update_result junmarshal).

  (** the run of updateVoteResult on a stored tally whose domain contains the old vote's keys *)
  Lemma update_result_sem : forall ex raw t old newv,
    result_tally ex raw t ->
    (forall c a ks, old = Some (c, a) -> vote_keys ex c = Ok ks -> forall k, In k ks -> has_key t k) ->
    np (update_result ex raw old newv) \/ exists ks, vote_keys ex (fst newv) = Ok ks /\ ks = [] /\ ex = true.
  Proof.
    intros ex raw t old newv Hr Hold. unfold State.update_result.
    destruct (load_store ex raw t Hr) as (t0 & -> & Hdom). cbn [bind].
    assert (H1 : exists r1, (match old with
           | None => Ok t0
           | Some (c, a) => ks <- vote_keys ex c ;; sub_keys "system.VoteResult.SubVote" ks (be_val a) t0
           end) = r1 /\ (forall p, r1 <> Panic p)).
    { eexists. split; [reflexivity|]. destruct old as [[c a]|]; [|discriminate].
      destruct (vote_keys ex c) as [ks|e|p] eqn:Ek; cbn [bind]; try discriminate.
      - destruct (sub_keys_ok "system.VoteResult.SubVote"%string ks (be_val a) t0) as [t1 ->]; [|discriminate].
        intros k Hk. apply Hdom. eapply Hold; eauto.
      - unfold State.vote_keys in Ek. destruct ex; [destruct (junmarshal c)|]; discriminate. }
    destruct H1 as (r1 & -> & Hr1). destruct r1 as [t1|e|p]; cbn [bind]; [|left; reflexivity|exfalso; eapply Hr1; eauto].
    destruct (vote_keys ex (fst newv)) as [ks|e|p] eqn:Ek; cbn [bind].
    - destruct ex; [|left; reflexivity]. destruct ks as [|k ks].
      + right. exists []. auto.
      + left. pose proof (add_keys_nonempty (k :: ks) (be_val (snd newv)) t1 ltac:(discriminate)) as Hne.
        destruct (add_keys (k :: ks) (be_val (snd newv)) t1); [congruence | reflexivity].
    - left. reflexivity.
    - unfold State.vote_keys in Ek. destruct ex; [destruct (junmarshal (fst newv))|]; discriminate.
  Qed.

  Lemma update_result_dom : forall ex raw t old newv t2,
    result_tally ex raw t -> update_result ex raw old newv = Ok t2 ->
    exists ks, vote_keys ex (fst newv) = Ok ks /\ forall k, has_key t2 k <-> (In k ks \/ has_key t k).
  Proof.
    intros ex raw t old newv t2 Hr. unfold State.update_result.
    destruct (load_store ex raw t Hr) as (t0 & -> & Hdom). cbn [bind]. intros E.
    apply bind_ok in E. destruct E as (t1 & E1 & E).
    apply bind_ok in E. destruct E as (ks & Ek & E). exists ks. split; [exact Ek|].
    assert (Ht2 : t2 = add_keys ks (be_val (snd newv)) t1).
    { destruct ex; [|inversion E; reflexivity]. destruct (add_keys ks (be_val (snd newv)) t1); [discriminate|inversion E; reflexivity]. }
    subst t2. intros k. rewrite add_keys_dom.
    assert (Hd1 : has_key t1 k <-> has_key t0 k).
    { destruct old as [[c a]|]; [|inversion E1; subst; tauto].
      apply bind_ok in E1. destruct E1 as (kso & _ & E1). apply (sub_keys_dom _ _ _ _ _ E1). }
    rewrite Hd1, Hdom. tauto.
  Qed.
End K.

(** C14: the key invariant KInv (every recorded vote's candidates are keys of the stored tally); with it cmd.run never panics. *)
From Coq Require Import ZArith NArith List Bool String Lia.
From Verif Require Import AdmitTotal.Base AdmitTotal.Model AdmitTotal.ProofsBase AdmitTotal.ProofsSystem AdmitTotal.ProofsName AdmitTotal.State
  AdmitTotal.ProofsState1 AdmitTotal.ProofsState2 AdmitTotal.ProofsState3 AdmitTotal.ProofsState4.
From Verif Require Import AdmitTotal.ProofsKeys1 AdmitTotal.ProofsKeys2.
Import ListNotations.
Open Scope list_scope.

Section K.
  Variable to_upper : str -> str.
  Variable b58dec : str -> str.
  Variable jmarshal : list json -> str.
  Variable junmarshal : str -> option (list str).
  Variable rpc_parts : str -> nat.
  Hypothesis Hjson : forall c, junmarshal (jmarshal [JStr c]) = Some [c].

  Notation system_run := (system_run to_upper b58dec jmarshal junmarshal).
  Notation vote_run := (vote_run b58dec jmarshal junmarshal).
  Notation refresh_run := (refresh_run junmarshal).
  Notation Inv := (Inv rpc_parts junmarshal).
  Notation vote_ok := (vote_ok junmarshal).
  Notation oldv_ok := (oldv_ok junmarshal).

  Definition vote_keys_of (ex : bool) (raw : str) : list str :=
    match old_vote ex raw with
    | Ok (Some (c, _)) => match vote_keys junmarshal ex c with Ok ks => ks | _ => [] end
    | _ => []
    end.

  (** every candidate key a recorded vote names is a key of the stored tally of its issue; BP tally
      keys are 39 bytes and amounts short; staking records are short *)
  Definition KInv (g : gstate) : Prop :=
    (forall key, exists t, result_tally (issue_is_ex key) (lookup_raw key (g_results g)) t /\
       forall m acct raw, In (key, m) (g_votes g) -> In (acct, raw) m ->
         forall k, In k (vote_keys_of (issue_is_ex key) raw) -> has_key t k) /\
    (forall acct raw, In (acct, raw) (g_staking g) -> (List.length raw < 47)%nat).

  Lemma vote_raw_in : forall g acct se key, key_ok key ->
    vote_raw_of (sys_view g acct se) key = lookup_raw acct (votes_of g key).
  Proof.
    intros g acct se key Hk. unfold vote_raw_of. destruct (str_eqb key issue_bp) eqn:E.
    - apply str_eqb_eq in E. subst. reflexivity.
    - destruct Hk as [->|Hm]; [rewrite str_eqb_refl in E; discriminate|].
      unfold dao_vote_raw, sys_view. cbn [sv_votes_dao].
      destruct (assoc key (map (fun i => (i, lookup_raw acct (votes_of g i))) sys_param_ids)) eqn:Ea.
      + apply (assoc_map_fun (fun i => lookup_raw acct (votes_of g i))) in Ea. destruct Ea as [-> _]. reflexivity.
      + exfalso. clear - Hm Ea. unfold sys_param_ids in *. simpl in *.
        destruct (str_eqb key c_bpcount); [discriminate|]. destruct (str_eqb key c_stakingmin); [discriminate|].
        destruct (str_eqb key c_gasprice); [discriminate|]. destruct (str_eqb key c_nameprice); discriminate.
  Qed.

  Lemma kinv_hold : forall g acct se key t o, KInv g -> key_ok key ->
    (forall m a raw, In (key, m) (g_votes g) -> In (a, raw) m ->
       forall k, In k (vote_keys_of (issue_is_ex key) raw) -> has_key t k) ->
    old_vote (issue_is_ex key) (vote_raw_of (sys_view g acct se) key) = Ok o ->
    forall c a ks, o = Some (c, a) -> vote_keys junmarshal (issue_is_ex key) c = Ok ks -> forall k, In k ks -> has_key t k.
  Proof.
    intros g acct se key t o HK Hk Hkeys Eo c a ks -> Eks k Hin.
    rewrite (vote_raw_in g acct se key Hk) in Eo.
    destruct (lookup_in acct (votes_of g key)) as [E0|Hin0].
    { rewrite E0 in Eo. simpl in Eo. discriminate. }
    unfold votes_of in *. destruct (assoc key (g_votes g)) as [m|] eqn:Em; [|destruct Hin0].
    apply assoc_key in Em. apply (Hkeys m acct _ Em Hin0). unfold vote_keys_of. rewrite Eo, Eks. exact Hin.
  Qed.

  Lemma result_raw_eq : forall g key, result_raw (run_view g) key = lookup_raw key (g_results g).
  Proof. reflexivity. Qed.

  Lemma vote_run_np : forall g acct se ci key, Inv g -> KInv g -> key_ok key ->
    (issue_is_ex key = true -> exists b, skipn 1 (ci_args ci) = [JStr b]) ->
    np (vote_run ci key (sys_view g acct se) (run_view g)).
  Proof.
    intros g acct se ci key HI HK Hk Ha. unfold State.vote_run. cbv zeta.
    pose proof (inv_run_pre rpc_parts junmarshal g acct se HI) as Hp.
    destruct (old_vote_ok junmarshal _ _ (vote_raw_ok junmarshal _ (run_view g) key Hp)) as (o & Eo & Ho). rewrite Eo. cbn [bind].
    pose proof HK as [HKr _]. destruct (HKr key) as (t & Hrt & Hkeys).
    apply np_bind; [|intros; reflexivity].
    rewrite result_raw_eq.
    destruct (update_result_sem junmarshal _ _ t o
               (if issue_is_ex key then jmarshal (skipn 1 (ci_args ci)) else bp_candidate b58dec (ci_args ci), skipn 8 (sv_staking_raw (sys_view g acct se)))
               Hrt) as [H|(ks & Eks & -> & Hex)]; [|exact H|].
    - intros c a ks Eo' Eks k Hin. eapply (kinv_hold g acct se key t o HK Hk Hkeys Eo); eauto.
    - exfalso. unfold State.vote_keys in Eks. rewrite Hex in Eks. cbn [fst] in Eks.
      destruct (Ha Hex) as [b Hb]. rewrite Hb, Hjson in Eks. discriminate.
  Qed.

  Lemma refresh_run_np : forall keys g acct se staked amount acc, Inv g -> KInv g -> Forall key_ok keys ->
    np (refresh_run keys staked amount (sys_view g acct se) (run_view g) acc).
  Proof.
    induction keys as [|key rest IH]; intros g acct se staked amount acc HI HK Hks; [reflexivity|].
    inversion Hks as [|? ? Hk Hks']; subst. cbn [State.refresh_run]. cbv zeta.
    pose proof (inv_run_pre rpc_parts junmarshal g acct se HI) as Hp.
    destruct (old_vote_ok junmarshal _ _ (vote_raw_ok junmarshal _ (run_view g) key Hp)) as (o & Eo & Ho). rewrite Eo. cbn [bind].
    destruct o as [[c a]|]; [|apply IH; auto].
    destruct (Z.leb (be_val a) staked); [apply IH; auto|].
    pose proof HK as [HKr _]. destruct (HKr key) as (t & Hrt & Hkeys).
    apply np_bind; [|intros; apply IH; auto].
    rewrite result_raw_eq.
    destruct (update_result_sem junmarshal _ _ t (Some (c, a)) (c, amount) Hrt) as [H|(ks & Eks & -> & Hex)]; [|exact H|].
    - intros c' a' ks Eo' Eks k Hin. eapply (kinv_hold g acct se key t (Some (c, a)) HK Hk Hkeys Eo); eauto.
    - exfalso. unfold State.vote_keys in Eks. rewrite Hex in Eks. cbn [fst] in Eks.
      simpl in Ho. rewrite Hex in Ho. destruct Ho as (_ & k & ks & Hj). rewrite Hj in Eks. discriminate.
  Qed.

  (** with the key invariant cmd.run never panics at all *)
  Theorem system_run_np : forall g acct se ci cx amount, Inv g -> KInv g -> args_pre to_upper ci cx ->
    np (system_run ci cx amount (sys_view g acct se) (run_view g)).
  Proof.
    intros g acct se ci cx amount HI HK Ha. unfold State.system_run.
    pose proof (inv_run_pre rpc_parts junmarshal g acct se HI) as Hp.
    apply np_bind; [apply np_get_staking; apply Hp|].
    intros [[w pr] staked] _. unfold args_pre in Ha. destruct (cx_op cx).
    - apply vote_run_np; auto; [left; reflexivity | intros X; discriminate X].
    - destruct Ha as (a & b & Hargs & Hk). rewrite Hargs. apply vote_run_np; auto; [right; exact Hk|].
      intros _. exists b. rewrite Hargs. reflexivity.
    - reflexivity.
    - apply refresh_run_np; auto. unfold catalog. constructor; [left; reflexivity|].
      unfold sys_param_ids. repeat constructor; right; reflexivity.
  Qed.
End K.

(** C14: what each change written by cmd.run means relative to the state it read (vote_run, refresh_run). *)
From Coq Require Import ZArith NArith List Bool String Lia.
From Verif Require Import AdmitTotal.Base AdmitTotal.Model AdmitTotal.ProofsBase AdmitTotal.ProofsSystem AdmitTotal.ProofsName AdmitTotal.State
  AdmitTotal.ProofsState1 AdmitTotal.ProofsState2 AdmitTotal.ProofsState3 AdmitTotal.ProofsState4.
From Verif Require Import AdmitTotal.ProofsKeys1 AdmitTotal.ProofsKeys2 AdmitTotal.ProofsKeys3.
Import ListNotations.
Open Scope list_scope.


Lemma catalog_nodup : NoDup catalog.
Proof.
  unfold catalog, sys_param_ids, issue_bp, c_bpcount, c_stakingmin, c_gasprice, c_nameprice.
  repeat constructor; simpl; intros H; repeat (destruct H as [H|H]; [vm_compute in H; discriminate H|]); exact H.
Qed.

Section K.
  Variable to_upper : str -> str.
  Variable b58 : str -> option (nat * bool).
  Variable b58dec : str -> str.
  Variable jmarshal : list json -> str.
  Variable junmarshal : str -> option (list str).
  Variable rpc_parts : str -> nat.
  Hypothesis Hjson : forall c, junmarshal (jmarshal [JStr c]) = Some [c].
  (** base58.Decode returns as many bytes as the length the validator looked at *)
  Hypothesis Hb58 : forall x n ok, b58 x = Some (n, ok) -> List.length (b58dec x) = n.

  Notation system_run := (system_run to_upper b58dec jmarshal junmarshal).
  Notation vote_run := (vote_run b58dec jmarshal junmarshal).
  Notation refresh_run := (refresh_run junmarshal).
  Notation update_result := (update_result junmarshal).
  Notation Inv := (Inv rpc_parts junmarshal).
  Notation KInv := (KInv junmarshal).

  (** what one change of an update means, relative to the state [g] the run read *)
  Definition change_sem (g : gstate) (c : str * str * str) : Prop :=
    key_ok (ckey c) /\
    exists old newv t2,
      update_result (issue_is_ex (ckey c)) (lookup_raw (ckey c) (g_results g)) old newv = Ok t2 /\
      cres c = store_result (issue_is_ex (ckey c)) t2 /\
      cvote c = ser_vote (issue_is_ex (ckey c)) (fst newv) (snd newv) /\
      (issue_is_ex (ckey c) = false -> Nat.modulo (List.length (fst newv)) 39 = 0%nat) /\
      amt_short (snd newv).

  Lemma bp_candidate_mod : forall args i seen u, vote_bp_args b58 args i seen = Ok u ->
    Nat.modulo (List.length (bp_candidate b58dec args)) 39 = 0%nat.
  Proof.
    induction args as [|v rest IH]; intros i seen u; cbn [vote_bp_args bp_candidate]; [reflexivity|].
    destruct (Nat.leb MaxCandidates i); [intro X; discriminate X|].
    destruct (as_str v) as [w|]; [|intro X; discriminate X].
    destruct (mem_str w seen); [intro X; discriminate X|].
    destruct (b58 w) as [[k [|]]|] eqn:Eb; try (intro X; discriminate X).
    destruct (Nat.eqb k PeerIDLength) eqn:Ek; [|intro X; discriminate X].
    apply Nat.eqb_eq in Ek. intros E. rewrite app_length, (Hb58 _ _ _ Eb), Ek. unfold PeerIDLength.
    rewrite Nat.add_mod by lia. rewrite (IH _ _ _ E). reflexivity.
  Qed.

  Lemma staking_amount_short : forall g acct se, KInv g -> amt_short (skipn 8 (sv_staking_raw (sys_view g acct se))).
  Proof.
    intros g acct se [_ Hs]. unfold sys_view. cbn [sv_staking_raw]. unfold amt_short. rewrite skipn_length.
    destruct (lookup_in acct (g_staking g)) as [->|Hin]; [simpl; lia|]. specialize (Hs _ _ Hin). lia.
  Qed.

  Lemma vote_run_sem : forall g acct se ci key u, KInv g -> key_ok key ->
    (issue_is_ex key = false -> Nat.modulo (List.length (bp_candidate b58dec (ci_args ci))) 39 = 0%nat) ->
    vote_run ci key (sys_view g acct se) (run_view g) = Ok u ->
    map ckey (u_changes u) = [key] /\ Forall (change_sem g) (u_changes u).
  Proof.
    intros g acct se ci key u HK Hk Hbp. unfold State.vote_run. cbv zeta. intros E.
    apply bind_ok in E. destruct E as (o & Eo & E). apply bind_ok in E. destruct E as (t & Et & E).
    injection E as Eu. subst u. cbn [u_changes map ckey fst]. split; [reflexivity|].
    constructor; [|constructor]. unfold change_sem, ckey, cvote, cres. cbn [fst snd]. split; [exact Hk|].
    eexists o, (_, _), t. rewrite result_raw_eq in Et. split; [exact Et|]. cbn [fst snd].
    split; [reflexivity|]. split; [reflexivity|]. split.
    - intros Hex. rewrite Hex. apply Hbp. exact Hex.
    - apply staking_amount_short. exact HK.
  Qed.

  Lemma old_vote_bp_mod : forall raw c a, old_vote false raw = Ok (Some (c, a)) -> Nat.modulo (List.length c) 39 = 0%nat.
  Proof.
    intros raw c a. unfold old_vote. destruct raw as [|x r]; [discriminate|].
    change (de_vote false (x :: r)) with (Ok (de_vote_bp (x :: r))). cbn [bind]. intros E.
    assert (Hx : fst (de_vote_bp (x :: r)) = c).
    { exact (f_equal (fun o : out (option (str * str)) => match o with Ok (Some p) => fst p | _ => [] end) E). }
    pose proof (de_vote_bp_mod (x :: r)) as [Hm _]. rewrite Hx in Hm. exact Hm.
  Qed.

  Lemma refresh_run_staking : forall keys staked amount sv rv acc u,
    refresh_run keys staked amount sv rv acc = Ok u -> u_staking u = u_staking acc.
  Proof.
    induction keys as [|key rest IH]; intros staked amount sv rv acc u E.
    - injection E as <-. reflexivity.
    - cbn [State.refresh_run] in E. cbv zeta in E. apply bind_ok in E. destruct E as (o & _ & E).
      destruct o as [[c a]|]; [|eapply IH; eauto].
      destruct (Z.leb (be_val a) staked); [eapply IH; eauto|].
      apply bind_ok in E. destruct E as (t & _ & E). apply IH in E. exact E.
  Qed.

  Lemma refresh_run_sem : forall keys g acct se staked amount acc u, KInv g -> Forall key_ok keys -> NoDup keys ->
    amt_short amount ->
    (forall k, In k keys -> ~ In k (map ckey (u_changes acc))) -> NoDup (map ckey (u_changes acc)) ->
    Forall (change_sem g) (u_changes acc) ->
    refresh_run keys staked amount (sys_view g acct se) (run_view g) acc = Ok u ->
    NoDup (map ckey (u_changes u)) /\ Forall (change_sem g) (u_changes u) /\ u_staking u = u_staking acc.
  Proof.
    induction keys as [|key rest IH]; intros g acct se staked amount acc u HK Hks Hnd Ham Hdis Hnda Hacc E.
    - injection E as <-. auto.
    - inversion Hks as [|? ? Hk Hks']; subst. inversion Hnd as [|? ? Hnk Hnd']; subst.
      cbn [State.refresh_run] in E. cbv zeta in E.
      apply bind_ok in E. destruct E as (o & Eo & E).
      assert (Hrest : forall k, In k rest -> ~ In k (map ckey (u_changes acc))) by (intros; apply Hdis; right; auto).
      destruct o as [[c a]|]; [|eapply IH; eauto].
      destruct (Z.leb (be_val a) staked); [eapply IH; eauto|].
      apply bind_ok in E. destruct E as (t & Et & E).
      refine (IH g acct se staked amount _ u HK Hks' Hnd' Ham _ _ _ E).
      + cbn [u_changes map]. intros k Hin [Heq|Hin2]; [unfold ckey in Heq; simpl in Heq; subst; contradiction | eapply Hrest; eauto].
      + cbn [u_changes map]. constructor; [|exact Hnda]. unfold ckey at 1. cbn [fst]. apply Hdis. left. reflexivity.
      + cbn [u_changes]. constructor; [|exact Hacc]. unfold change_sem, ckey, cvote, cres. cbn [fst snd].
        split; [exact Hk|]. exists (Some (c, a)), (c, amount), t. rewrite result_raw_eq in Et.
        split; [exact Et|]. cbn [fst snd]. split; [reflexivity|]. split; [reflexivity|]. split; [|exact Ham].
        intros Hex. rewrite Hex in Eo. eapply old_vote_bp_mod; eauto.
  Qed.
End K.

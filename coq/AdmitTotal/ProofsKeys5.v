(** C14: system_run: the changes are for distinct issues and each has the update_result semantics. *)
From Coq Require Import ZArith NArith List Bool String Lia.
From Verif Require Import AdmitTotal.Base AdmitTotal.Model AdmitTotal.ProofsBase AdmitTotal.ProofsSystem AdmitTotal.ProofsName AdmitTotal.State
  AdmitTotal.ProofsState1 AdmitTotal.ProofsState2 AdmitTotal.ProofsState3 AdmitTotal.ProofsState4.
From Verif Require Import AdmitTotal.ProofsKeys1 AdmitTotal.ProofsKeys2 AdmitTotal.ProofsKeys3 AdmitTotal.ProofsKeys4.
Import ListNotations.
Open Scope list_scope.


Section K.
  Variable to_upper : str -> str.
  Variable b58 : str -> option (nat * bool).
  Variable b58dec : str -> str.
  Variable jmarshal : list json -> str.
  Variable junmarshal : str -> option (list str).
  Variable rpc_parts : str -> nat.
  Hypothesis Hjson : forall c, junmarshal (jmarshal [JStr c]) = Some [c].
  Hypothesis Hb58 : forall x n ok, b58 x = Some (n, ok) -> List.length (b58dec x) = n.

  Notation system_run := (system_run to_upper b58dec jmarshal junmarshal).
  Notation update_result := (update_result junmarshal).
  Notation Inv := (Inv rpc_parts junmarshal).
  Notation KInv := (KInv junmarshal).
  Notation change_sem := (change_sem junmarshal).
  Notation vote_keys_of := (vote_keys_of junmarshal).

  Theorem system_run_sem : forall g acct se ci cx amount u, Inv g -> KInv g -> args_pre to_upper ci cx ->
    (cx_op cx = OpVoteBP -> Nat.modulo (List.length (bp_candidate b58dec (ci_args ci))) 39 = 0%nat) ->
    system_run ci cx amount (sys_view g acct se) (run_view g) = Ok u ->
    (forall r, u_staking u = Some r -> (List.length r < 47)%nat) ->
    NoDup (map ckey (u_changes u)) /\ Forall (change_sem g) (u_changes u).
  Proof.
    intros g acct se ci cx amount u HI HK Ha Hbp. unfold State.system_run. intros E Hst.
    apply bind_ok in E. destruct E as ([[w pr] staked] & _ & E). unfold args_pre in Ha. destruct (cx_op cx) eqn:Eop.
    - destruct (vote_run_sem b58dec jmarshal junmarshal g acct se ci issue_bp u HK (or_introl eq_refl) (fun _ => Hbp eq_refl) E) as [Hm Hf].
      split; [rewrite Hm; repeat constructor; intros [] | exact Hf].
    - destruct Ha as (a & b & Hargs & Hk). rewrite Hargs in E.
      assert (Hex : issue_is_ex (to_upper a) = true) by (apply param_key_is_ex; exact Hk).
      destruct (vote_run_sem b58dec jmarshal junmarshal g acct se ci (to_upper a) u HK (or_intror Hk)) as [Hm Hf]; [|exact E|].
      + intros X. rewrite Hex in X. discriminate.
      + split; [rewrite Hm; repeat constructor; intros [] | exact Hf].
    - injection E as <-. simpl. split; constructor.
    - set (adj := if Z.ltb staked amount then staked else amount) in *.
      pose proof (refresh_run_staking junmarshal _ _ _ _ _ _ _ E) as Hst0. cbn [u_staking] in Hst0.
      assert (Ham : amt_short (be_bytes (staked - adj))).
      { specialize (Hst _ Hst0). unfold ser_staking in Hst. rewrite app_length, le64_length in Hst. unfold amt_short. lia. }
      destruct (refresh_run_sem junmarshal catalog g acct se (staked - adj)%Z (be_bytes (staked - adj))
                 (mkUpd (Some (ser_staking (Z.to_N (sv_block (sys_view g acct se))) (be_bytes (staked - adj)))) []) u HK)
        as (H1 & H2 & _); auto.
      + unfold catalog. constructor; [left; reflexivity|]. unfold sys_param_ids. repeat constructor; right; reflexivity.
      + exact catalog_nodup.
      + simpl. constructor.
      + simpl. constructor.
  Qed.
End K.

(** C14: one change preserves the key invariant. *)
From Coq Require Import ZArith NArith List Bool String Lia.
From Verif Require Import AdmitTotal.Base AdmitTotal.Model AdmitTotal.ProofsBase AdmitTotal.ProofsSystem AdmitTotal.ProofsName AdmitTotal.State
  AdmitTotal.ProofsState1 AdmitTotal.ProofsState2 AdmitTotal.ProofsState3 AdmitTotal.ProofsState4.
From Verif Require Import AdmitTotal.ProofsKeys1 AdmitTotal.ProofsKeys2 AdmitTotal.ProofsKeys3 AdmitTotal.ProofsKeys4 AdmitTotal.ProofsKeys5.
Import ListNotations.
Open Scope list_scope.

Lemma lookup_set_raw_same : forall k v l, lookup_raw k (set_raw k v l) = v.
Proof.
  intros k v l. unfold lookup_raw. induction l as [|[k' v'] l IH]; simpl.
  - rewrite str_eqb_refl. reflexivity.
  - destruct (str_eqb k k') eqn:E; simpl; [rewrite str_eqb_refl; reflexivity | rewrite E; exact IH].
Qed.

Lemma lookup_set_raw_other : forall k k' v l, str_eqb k' k = false -> lookup_raw k' (set_raw k v l) = lookup_raw k' l.
Proof.
  intros k k' v l E. unfold lookup_raw. induction l as [|[k0 v0] l IH]; simpl.
  - rewrite E. reflexivity.
  - destruct (str_eqb k k0) eqn:E0; simpl.
    + apply str_eqb_eq in E0. subst k0. rewrite E. reflexivity.
    + destruct (str_eqb k' k0); [reflexivity | exact IH].
Qed.

Lemma str_eqb_false_ne : forall a b, str_eqb a b = false <-> a <> b.
Proof.
  intros a b. split.
  - intros E H. subst. rewrite str_eqb_refl in E. discriminate.
  - intros H. destruct (str_eqb a b) eqn:E; [apply str_eqb_eq in E; contradiction | reflexivity].
Qed.

Section K.
  Variable junmarshal : str -> option (list str).
  Notation update_result := (update_result junmarshal).
  Notation KInv := (KInv junmarshal).
  Notation change_sem := (change_sem junmarshal).
  Notation vote_keys_of := (vote_keys_of junmarshal).

  (** the keys of a freshly serialised vote are the keys of its candidate bytes *)
  Lemma vote_keys_of_ser : forall ex cand amt ks, small (ser_vote ex cand amt) ->
    (ex = false -> Nat.modulo (List.length cand) 39 = 0%nat) -> amt_short amt ->
    vote_keys junmarshal ex cand = Ok ks ->
    forall k, In k (vote_keys_of ex (ser_vote ex cand amt)) -> In k ks.
  Proof.
    intros ex cand amt ks Hs Hm Ha Eks k. unfold ProofsKeys3.vote_keys_of, old_vote.
    destruct (ser_vote ex cand amt) as [|x r] eqn:Er; [intros []|]. rewrite <- Er.
    assert (Hd : de_vote ex (ser_vote ex cand amt) = Ok (cand, amt)).
    { unfold de_vote, ser_vote. destruct ex.
      - apply de_ser_vote_ex. refine (small_le _ _ _ Hs). rewrite <- Er. change (ser_vote true cand amt) with (ser_vote_ex cand amt).
        unfold ser_vote_ex. rewrite !app_length. lia.
      - unfold ser_vote_bp. rewrite de_vote_bp_app; auto. }
    rewrite Hd. cbn [bind]. rewrite Eks. auto.
  Qed.

  (** a change of an update yields a tally for the new result list that covers the old tally's
      keys and the keys of the new vote record *)
  Lemma change_to_tally : forall g c t, change_sem g c ->
    result_tally (issue_is_ex (ckey c)) (lookup_raw (ckey c) (g_results g)) t ->
    small (cvote c) -> small (cres c) -> (issue_is_ex (ckey c) = false -> bp_short (cres c)) ->
    exists t2, result_tally (issue_is_ex (ckey c)) (cres c) t2 /\
      (forall k, has_key t k -> has_key t2 k) /\
      (forall k, In k (vote_keys_of (issue_is_ex (ckey c)) (cvote c)) -> has_key t2 k).
  Proof.
    intros g c t (Hk & old & newv & t2 & Eu & Er & Ev & Hm & Ha) Hrt Sv Sr Hbs.
    set (ex := issue_is_ex (ckey c)) in *.
    destruct (update_result_dom junmarshal ex _ t old newv t2 Hrt Eu) as (ks & Eks & Hdom).
    exists t2. split; [|split].
    - split; [exact Er|]. split; [|exact Sr].
      destruct ex eqn:Hex; [left; reflexivity|]. right. intros k v Hin.
      assert (Hlen : List.length k = 39%nat).
      { pose proof (in_has_key _ _ _ Hin) as Hh. apply Hdom in Hh. destruct Hh as [Hh|Hh].
        - unfold State.vote_keys in Eks. injection Eks as <-. eapply chunks_of_len; [|exact Hh]. apply Hm. reflexivity.
        - destruct (has_key_in _ _ Hh) as [v' Hin']. destruct Hrt as (_ & [X|Hok] & _); [discriminate|].
          apply (Hok _ _ Hin'). }
      split; [exact Hlen|].
      specialize (Hbs eq_refl). rewrite Er in Hbs, Sr. unfold store_result in Hbs, Sr.
      set (es := map (fun kv : str * Z => ser_vote false (fst kv) (be_bytes (snd kv))) t2) in *.
      assert (Hsm : Forall small es).
      { apply Forall_forall. intros e He. eapply small_le; [apply in_ser_list_len; exact He | exact Sr]. }
      specialize (Hbs es (de_ser_list es Hsm _ (le_n _))). rewrite Forall_forall in Hbs.
      assert (Hine : In (ser_vote false k (be_bytes v)) es) by (subst es; apply in_map_iff; exists (k, v); auto).
      specialize (Hbs _ Hine). unfold ser_vote, ser_vote_bp in Hbs. rewrite app_length, Hlen in Hbs. unfold amt_short. lia.
    - intros k Hh. apply Hdom. right. exact Hh.
    - intros k Hin. apply Hdom. left. rewrite Ev in Hin, Sv.
      eapply (vote_keys_of_ser ex (fst newv) (snd newv) ks); eauto.
  Qed.

  Lemma apply1_KInv : forall g acct c, KInv g ->
    (exists t2, result_tally (issue_is_ex (ckey c)) (cres c) t2 /\
       (forall m a r, In (ckey c, m) (g_votes g) -> In (a, r) m ->
          forall k, In k (vote_keys_of (issue_is_ex (ckey c)) r) -> has_key t2 k) /\
       (forall k, In k (vote_keys_of (issue_is_ex (ckey c)) (cvote c)) -> has_key t2 k)) ->
    KInv (apply1 acct c g).
  Proof.
    intros g acct [[K vraw] rraw] [HKr HKs] (t2 & Hrt2 & Hold & Hnew). unfold ckey, cvote, cres in *. cbn [fst snd] in *.
    split; [|exact HKs]. intros key. unfold apply1. cbn [fst snd g_votes g_results].
    destruct (str_eqb key K) eqn:E.
    - apply str_eqb_eq in E. subst key. exists t2. rewrite lookup_set_raw_same. split; [exact Hrt2|].
      intros m a r Hin Hm. destruct (set_votes_in _ _ _ _ _ _ _ _ Hin Hm) as [(_ & [[-> ->]|(m0 & Hm0 & Hx)])|X].
      + exact Hnew.
      + eapply Hold; eauto.
      + eapply Hold; eauto.
    - destruct (HKr key) as (t & Hrt & Hkeys). exists t. rewrite (lookup_set_raw_other _ _ _ _ E). split; [exact Hrt|].
      intros m a r Hin Hm. destruct (set_votes_in _ _ _ _ _ _ _ _ Hin Hm) as [(-> & _)|X].
      + rewrite str_eqb_refl in E. discriminate.
      + eapply Hkeys; eauto.
  Qed.
End K.

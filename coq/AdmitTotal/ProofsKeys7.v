(** C14: an update (all its changes) preserves the key invariant. *)
From Coq Require Import ZArith NArith List Bool String Lia.
From Verif Require Import AdmitTotal.Base AdmitTotal.Model AdmitTotal.ProofsBase AdmitTotal.ProofsSystem AdmitTotal.ProofsName AdmitTotal.State
  AdmitTotal.ProofsState1 AdmitTotal.ProofsState2 AdmitTotal.ProofsState3 AdmitTotal.ProofsState4.
From Verif Require Import AdmitTotal.ProofsKeys1 AdmitTotal.ProofsKeys2 AdmitTotal.ProofsKeys3 AdmitTotal.ProofsKeys4 AdmitTotal.ProofsKeys5 AdmitTotal.ProofsKeys6.
Import ListNotations.
Open Scope list_scope.

Section K.
  Variable junmarshal : str -> option (list str).
  Notation KInv := (KInv junmarshal).
  Notation change_sem := (change_sem junmarshal).
  Notation vote_keys_of := (vote_keys_of junmarshal).


  Lemma set_staking_KInv : forall g acct o, KInv g -> (forall r, o = Some r -> (List.length r < 47)%nat) ->
    KInv (set_staking acct o g).
  Proof.
    intros g acct o [HKr HKs] Ho. split; [exact HKr|]. unfold set_staking. cbn [g_staking].
    intros a raw Hin. destruct o as [r|]; [|eauto].
    destruct (set_raw_in _ _ _ _ _ Hin) as [[_ ->]|H]; [apply Ho; reflexivity | eauto].
  Qed.

  Lemma fold_apply1_KInv : forall g acct l, KInv g ->
    NoDup (map ckey l) -> Forall (change_sem g) l ->
    Forall (fun c : str * str * str => small (cvote c) /\ small (cres c)) l ->
    Forall (fun c => issue_is_ex (ckey c) = false -> bp_short (cres c)) l ->
    forall g0, g_results g0 = g_results g -> g_votes g0 = g_votes g -> KInv g0 ->
    KInv (fold_right (apply1 acct) g0 l) /\
    forall K, ~ In K (map ckey l) ->
      lookup_raw K (g_results (fold_right (apply1 acct) g0 l)) = lookup_raw K (g_results g) /\
      forall m, In (K, m) (g_votes (fold_right (apply1 acct) g0 l)) -> In (K, m) (g_votes g).
  Proof.
    intros g acct l HK. induction l as [|c l IH]; intros Hnd Hsem Hsm Hbs g0 Er Ev HK0.
    - simpl. split; [exact HK0|]. intros K _. rewrite Er, Ev. auto.
    - inversion Hnd as [|? ? Hnin Hnd']; subst. inversion Hsem as [|? ? Hc Hsem']; subst.
      inversion Hsm as [|? ? [Sv Sr] Hsm']; subst. inversion Hbs as [|? ? Hb Hbs']; subst.
      destruct (IH Hnd' Hsem' Hsm' Hbs' g0 Er Ev HK0) as [HKi Hag]. cbn [fold_right].
      set (gi := fold_right (apply1 acct) g0 l) in *.
      destruct (Hag (ckey c) Hnin) as [Hagr Hagv].
      pose proof HK as [HKr _]. destruct (HKr (ckey c)) as (t & Hrt & Hkeys).
      destruct (change_to_tally junmarshal g c t Hc Hrt Sv Sr Hb) as (t2 & Hrt2 & Hsub & Hnew).
      split.
      + apply apply1_KInv; [exact HKi|]. exists t2. split; [exact Hrt2|]. split; [|exact Hnew].
        intros m a r Hin Hm k Hk. apply Hsub. eapply Hkeys; eauto.
      + intros K HnK. simpl in HnK. assert (Hne : str_eqb K (ckey c) = false).
        { apply str_eqb_false_ne. intros ->. apply HnK. left. reflexivity. }
        destruct (Hag K (fun H => HnK (or_intror H))) as [H1 H2].
        destruct c as [[Kc vr] rr]. unfold apply1, ckey in *. cbn [fst snd g_results g_votes] in *. split.
        * rewrite (lookup_set_raw_other _ _ _ _ Hne). exact H1.
        * intros m Hin.
          assert (Hx : In (K, m) (g_votes gi)).
          { clear - Hin Hne. induction (g_votes gi) as [|[k0 m0] vl IHv]; simpl in Hin.
            - destruct Hin as [H|[]]. inversion H; subst. rewrite str_eqb_refl in Hne. discriminate.
            - destruct (str_eqb Kc k0) eqn:E.
              + destruct Hin as [H|H]; [inversion H; subst; rewrite str_eqb_refl in Hne; discriminate | right; exact H].
              + destruct Hin as [H|H]; [left; exact H | right; apply IHv; exact H]. }
          apply H2. exact Hx.
  Qed.

  Theorem apply_upd_KInv : forall g acct u, KInv g ->
    NoDup (map ckey (u_changes u)) -> Forall (change_sem g) (u_changes u) ->
    upd_small u -> upd_bounded u -> KInv (apply_upd g acct u).
  Proof.
    intros g acct u HK Hnd Hsem Hsm [Hb1 Hb2]. unfold apply_upd.
    apply (fold_apply1_KInv g acct (u_changes u) HK Hnd Hsem Hsm Hb2); try reflexivity.
    apply set_staking_KInv; auto.
  Qed.
End K.

(** C14: contract/name — ValidateNameTx / ExecuteNameTx never panic; helper lemmas for contract/enterprise. *)
From Coq Require Import ZArith NArith List Bool String Lia.
From Verif Require Import AdmitTotal.Base AdmitTotal.Model.
From Verif Require Import AdmitTotal.ProofsBase AdmitTotal.ProofsSystem.
Import ListNotations.

Lemma str_eqb_eq : forall a b, str_eqb a b = true <-> a = b.
Proof.
  induction a as [|x a IH]; destruct b as [|y b]; simpl; split; intros H; try discriminate; auto.
  - apply andb_true_iff in H. destruct H as [H1 H2]. apply N.eqb_eq in H1. apply IH in H2. congruence.
  - inversion H; subst. rewrite N.eqb_refl. simpl. apply IH. reflexivity.
Qed.

Lemma assoc_key : forall A (l : list (str * A)) k v, assoc k l = Some v -> In (k, v) l.
Proof.
  induction l as [|[k' v'] l IH]; simpl; intros k v E; [discriminate|].
  destruct (str_eqb k k') eqn:Ek.
  - apply str_eqb_eq in Ek. inversion E; subst. auto.
  - right. auto.
Qed.

Lemma bind_assoc : forall A B C (x : out A) (f : A -> out B) (g : B -> out C),
  bind (bind x f) g = bind x (fun a => bind (f a) g).
Proof. intros A B C [a|e|p] f g; reflexivity. Qed.

  Lemma remove_first_in : forall v l w, In w (remove_first v l) -> In w l.
  Proof.
    induction l as [|x l IH]; simpl; intros w H; [tauto|].
    destruct (str_eqb x v); [auto|]. destruct H; auto.
  Qed.

Section Proofs.
  Variable to_upper : str -> str.
  Variable decode_address : str -> option str.
  Variable encode_address : str -> str.
  Variable list_entry_ok : str -> bool.
  Variable rpc_parts : str -> nat.
  Variable rpc_b64_ok : str -> bool.
  Variable rpc_has_w : str -> bool.
  Variable cc_peer_ok : str -> bool.
  Variable cc_addr_ok : str -> bool.
  Variable cc_hex_ok : str -> bool.

  Notation name_exec := (name_exec decode_address).
  Notation ent_validate := (ent_validate to_upper decode_address encode_address list_entry_ok rpc_parts rpc_b64_ok rpc_has_w cc_peer_ok cc_addr_ok cc_hex_ok).
  Notation ent_exec := (ent_exec to_upper decode_address encode_address list_entry_ok rpc_parts rpc_b64_ok rpc_has_w cc_peer_ok cc_addr_ok cc_hex_ok).
  Notation check_args := (check_args to_upper decode_address list_entry_ok rpc_parts rpc_b64_ok).
  Notation check_args_loop := (check_args_loop decode_address list_entry_ok rpc_parts rpc_b64_ok).
  Notation check_op := (check_op decode_address list_entry_ok rpc_parts rpc_b64_ok).
  Notation conf_validate := (conf_validate to_upper encode_address rpc_parts rpc_has_w).
  Notation ent_wf := (ent_wf rpc_parts).
  Notation conf_wf := (conf_wf rpc_parts).

  (* ------------------------------------------------------------ name *)
  Lemma np_get_name_map : forall nv name, name_wf nv = true -> np (get_name_map nv name).
  Proof.
    intros nv name H. unfold get_name_map. destruct (assoc name (nv_names nv)) eqn:E; [|reflexivity].
    unfold name_wf in H. apply andb_true_iff in H. destruct H as [H _].
    destruct (assoc_forallb _ _ _ _ _ H E) as [k' Hk].
    unfold name_map_wf in Hk. simpl in Hk. apply negb_true_iff in Hk. exact Hk.
  Qed.

  Lemma np_get_name_map0 : forall nv name, name_wf nv = true -> np (get_name_map0 nv name).
  Proof.
    intros nv name H. unfold get_name_map0. destruct (assoc name (nv_names0 nv)) eqn:E; [|reflexivity].
    unfold name_wf in H. apply andb_true_iff in H. destruct H as [_ H].
    destruct (assoc_forallb _ _ _ _ _ H E) as [k' Hk].
    unfold name_map_wf in Hk. simpl in Hk. apply negb_true_iff in Hk. exact Hk.
  Qed.

  Theorem name_validate_total : forall t nv, name_wf nv = true -> np (name_validate t nv).
  Proof.
    intros t nv H. unfold name_validate. ifs.
    apply Nat.ltb_ge in Heqb0.
    apply np_bind; [apply np_index; lia|]. intros a0 _. ifs.
    - apply np_bind; [apply np_get_name_map; auto|]. intros; ifs.
    - apply Nat.ltb_ge in Heqb3.
      apply np_bind; [apply np_index; lia|]. intros a1 _. ifs.
      apply np_bind; [apply np_get_name_map; auto|]. intros; ifs.
    - apply np_bind; [apply np_get_name_map; auto|]. intros; ifs.
  Qed.

  Ltac nstep H Ea :=
    match goal with
    | |- np (Ok _) => reflexivity
    | |- np (Err _) => reflexivity
    | |- np (bind (get_name_map _ _) _) => apply np_bind; [apply np_get_name_map; exact H | intros ? _]
    | |- np (bind (get_name_map0 _ _) _) => apply np_bind; [apply np_get_name_map0; exact H | intros ? _]
    | |- np (bind (Ok _) _) => cbn [bind]
    | |- np (bind (Err _) _) => reflexivity
    | |- np (bind (index _ _ _) _) => unfold index at 1; rewrite ?Ea; simpl nth_error; cbn [bind]
    | |- np (bind (assert_str _ _) _) => unfold assert_str at 1; cbn [bind]
    | |- np (bind (bind _ _) _) => rewrite bind_assoc
    | |- np (bind (if ?c then _ else _) _) => destruct c eqn:?
    | |- np (bind (match ?c with _ => _ end) _) => destruct c eqn:?
    | |- np (match ?c with _ => _ end) => destruct c eqn:?
    | |- np (if ?c then _ else _) => destruct c eqn:?
    end.

  Theorem name_exec_total : forall t nv, name_wf nv = true -> np (name_exec t nv).
  Proof.
    intros t nv H. unfold name_exec, name_validate.
    destruct (Z.ltb (nv_balance nv) (tx_amount t)); [reflexivity|].
    destruct (tx_ci t) as [c|]; [|reflexivity].
    destruct (ci_args c) as [|a0 [|a1 r]] eqn:Ea; simpl List.length; simpl Nat.ltb; cbv iota;
      try reflexivity;
      destruct a0; try destruct a1; simpl as_str;
      repeat (cbn [List.length Nat.ltb Nat.leb Nat.eqb negb as_str]; nstep H Ea);
      try (simpl in *; congruence).
  Qed.

  (* ------------------------------------------------------------ enterprise *)
  Lemma np_get_admins : forall d, np (get_admins d).
  Proof. intros d. unfold get_admins. ifs. Qed.

  Lemma np_check_admin : forall ev, np (check_admin ev).
  Proof. intros ev. unfold check_admin. apply np_bind; [apply np_get_admins|]. intros; ifs. Qed.

  Lemma np_check_op : forall k a, np (check_op k a).
  Proof. intros. unfold check_op. ifs. Qed.

  Lemma np_check_args_loop : forall key args i seen, np (check_args_loop key args i seen).
  Proof.
    induction args as [|v rest IH]; intros; simpl; ifs.
    apply np_bind; [destruct i; [reflexivity | apply np_check_op]|].
    intros _ _. apply np_bind; [apply IH|]. intros; ifs.
  Qed.

  (** context.Args has one entry per argument, each a string argument checked by its key's rule *)
  Lemma check_args_loop_ok : forall key args i seen l, check_args_loop key args i seen = Ok l ->
    List.length l = List.length args /\
    forall v, In v (match i with O => tl l | _ => l end) -> check_op key v = Ok tt.
  Proof.
    induction args as [|v rest IH]; intros i seen l; simpl.
    - intros E. inversion E; subst. split; [reflexivity|]. destruct i; simpl; tauto.
    - destruct (as_str v) as [arg|]; [|intro X; discriminate X].
      destruct (existsb _ arg); [intro X; discriminate X|].
      destruct (mem_str arg seen); [intro X; discriminate X|].
      intros E. apply bind_ok in E. destruct E as (u & E1 & E).
      apply bind_ok in E. destruct E as (l' & E2 & E). inversion E; subst.
      destruct (IH _ _ _ E2) as [Hl Hall]. split; [simpl; congruence|].
      destruct i; simpl; [exact Hall|].
      intros w [<-|Hw]; [destruct u; exact E1 | auto].
  Qed.

  Lemma np_check_args : forall ci, np (check_args ci).
  Proof.
    intros ci. unfold check_args. ifs. apply Nat.ltb_ge in Heqb.
    apply np_bind; [apply np_index; lia|]. intros; ifs. apply np_check_args_loop.
  Qed.

  Lemma check_args_ok : forall ci l, check_args ci = Ok l ->
    List.length l = List.length (ci_args ci) /\
    exists k r, l = k :: r /\ mem_str (to_upper k) enterprise_keys = true /\
                forall v, In v r -> check_op (to_upper k) v = Ok tt.
  Proof.
    intros ci l. unfold check_args.
    destruct (Nat.ltb _ 1); [intro X; discriminate X|].
    destruct (ci_args ci) as [|a0 r] eqn:Eargs; [intro X; discriminate X|].
    unfold index. simpl nth_error. cbn [bind].
    destruct a0; simpl as_str; cbv iota; try (intro X; discriminate X).
    destruct (mem_str (to_upper x) enterprise_keys) eqn:Ek; simpl negb; cbv iota; [|intro X; discriminate X].
    intros E. destruct (check_args_loop_ok _ _ _ _ _ E) as [Hl Hall]. split; [exact Hl|].
    simpl in E. destruct (existsb _ x); [discriminate E|]. simpl in E.
    apply bind_ok in E. destruct E as (l' & E2 & E). inversion E; subst.
    eexists _, _. split; [reflexivity|]. split; [exact Ek|]. exact Hall.
  Qed.

  Definition rpc_ok (vals : list str) : Prop := forall v, In v vals -> (2 <= rpc_parts v)%nat.

  Lemma np_rpc_validate : forall vals, rpc_ok vals -> np (rpc_validate rpc_parts rpc_has_w vals).
  Proof.
    induction vals as [|v r IH]; intros H; simpl; [reflexivity|].
    destruct (Nat.ltb (rpc_parts v) 2) eqn:E.
    - apply Nat.ltb_lt in E. specialize (H v (or_introl eq_refl)). lia.
    - ifs. apply IH. intros w Hw. apply H. right. exact Hw.
  Qed.

  Lemma np_conf_validate : forall c key cc admins,
    (to_upper key = c_rpc -> rpc_ok (snd c)) -> np (conf_validate c key cc admins).
  Proof.
    intros c key cc admins H. unfold conf_validate. ifs.
    apply np_rpc_validate. apply H. apply str_eqb_eq. assumption.
  Qed.

  Lemma get_conf_rpc_ok : forall ev key c, ent_wf ev = true -> get_conf to_upper ev key = Some c ->
    to_upper key = c_rpc -> rpc_ok (snd c).
  Proof.
    intros ev key c H E Hk. unfold get_conf in E. apply assoc_key in E.
    unfold ent_wf in H. rewrite forallb_forall in H. specialize (H _ E).
    unfold conf_wf in H. simpl in H. rewrite Hk in H. 
    replace (str_eqb c_rpc c_rpc) with true in H by reflexivity.
    rewrite forallb_forall in H. intros v Hv. specialize (H v Hv).
    destruct (rpc_parts v) as [|[|n]]; try discriminate H; lia.
  Qed.

  Lemma check_op_rpc : forall k v, k = c_rpc -> check_op k v = Ok tt -> (2 <= rpc_parts v)%nat.
  Proof.
    intros k v -> E. unfold check_op in E.
    replace (str_eqb c_rpc c_p2pwhite) with false in E by reflexivity.
    replace (str_eqb c_rpc c_p2pblack) with false in E by reflexivity.
    replace (str_eqb c_rpc c_accountwhite) with false in E by reflexivity.
    replace (str_eqb c_rpc c_rpc) with true in E by reflexivity.
    simpl in E. destruct (Nat.eqb (rpc_parts v) 2) eqn:E2; [|discriminate E].
    apply Nat.eqb_eq in E2. lia.
  Qed.


End Proofs.

(** C14: serialiser / deserialiser round trips of the stored records (staking, proposal votes, vote-result lists, name maps). *)
From Coq Require Import ZArith NArith List Bool String Lia.
From Verif Require Import AdmitTotal.Base AdmitTotal.Model AdmitTotal.ProofsBase AdmitTotal.State.
Import ListNotations.
Open Scope list_scope.

(** byte strings shorter than 2^32 (every record written by a transaction is) *)
Definition small (x : str) : Prop := (N.of_nat (List.length x) < 4294967296)%N.

Lemma le_fixed_length : forall k n, List.length (le_fixed k n) = k.
Proof. induction k; simpl; auto. Qed.

Lemma le_val_le_fixed : forall k n, (n < 256 ^ N.of_nat k)%N -> le_val (le_fixed k n) = n.
Proof.
  induction k as [|k IH]; intros n H.
  - simpl in *. lia.
  - cbn [le_fixed le_val]. rewrite IH.
    + pose proof (N.div_mod n 256 ltac:(lia)). lia.
    + rewrite Nat2N.inj_succ, N.pow_succ_r' in H. apply N.div_lt_upper_bound; lia.
Qed.

Lemma le64_val : forall n, (n < 18446744073709551616)%N -> le_val (le64 n) = n.
Proof. intros n H. apply le_val_le_fixed. exact H. Qed.

Lemma len64_length : forall x, List.length (len64 x) = 8%nat.
Proof. intros. apply le_fixed_length. Qed.

Lemma len64_val : forall x, small x -> N.to_nat (le_val (len64 x)) = List.length x.
Proof. intros x H. unfold len64. rewrite le64_val; [apply Nat2N.id | unfold small in H; lia]. Qed.

Lemma le64_length : forall n, List.length (le64 n) = 8%nat.
Proof. intros. apply le_fixed_length. Qed.

Global Opaque len64 le64.

Lemma firstn_app_l : forall A (a b : list A), firstn (List.length a) (a ++ b) = a.
Proof. intros. rewrite firstn_app, Nat.sub_diag, firstn_all. simpl. apply app_nil_r. Qed.
Lemma skipn_app_l : forall A (a b : list A), skipn (List.length a) (a ++ b) = b.
Proof. intros. rewrite skipn_app, Nat.sub_diag, skipn_all. reflexivity. Qed.

Lemma de_ser_vote_ex : forall c a, small c -> de_vote_ex (ser_vote_ex c a) = Ok (c, a).
Proof.
  intros c a Hs. unfold de_vote_ex, ser_vote_ex.
  assert (L8 : List.length (len64 c) = 8%nat) by apply len64_length.
  rewrite !app_length, L8.
  destruct (Nat.ltb (8 + _) 8) eqn:E; [apply Nat.ltb_lt in E; lia|].
  replace (firstn 8 (len64 c ++ c ++ a)) with (len64 c) by (rewrite <- L8 at 1; symmetry; apply firstn_app_l).
  rewrite (len64_val c Hs).
  destruct (Nat.ltb _ (8 + List.length c)) eqn:E2; [apply Nat.ltb_lt in E2; lia|].
  f_equal. f_equal.
  - replace (skipn 8 (len64 c ++ c ++ a)) with (c ++ a) by (rewrite <- L8 at 1; symmetry; apply skipn_app_l).
    apply firstn_app_l.
  - replace (len64 c ++ c ++ a) with ((len64 c ++ c) ++ a) by (symmetry; apply app_assoc).
    replace (8 + List.length c)%nat with (List.length (len64 c ++ c)) by (rewrite app_length, L8; reflexivity).
    apply skipn_app_l.
Qed.

Lemma ser_list_cons : forall e es, ser_list (e :: es) = len64 e ++ e ++ ser_list es.
Proof. intros. unfold ser_list. cbn [flat_map]. unfold ser_entry at 1. symmetry. apply app_assoc. Qed.

Lemma de_ser_list : forall es, Forall small es -> forall fuel, (List.length (ser_list es) <= fuel)%nat ->
  de_list fuel (ser_list es) = Ok es.
Proof.
  induction es as [|e es IH]; intros Hs fuel Hf.
  - destruct fuel; reflexivity.
  - inversion Hs as [|? ? He Hes]; subst. rewrite ser_list_cons in *.
    assert (L8 : List.length (len64 e) = 8%nat) by apply len64_length.
    rewrite !app_length, L8 in Hf.
    destruct fuel as [|f]; [lia|].
    cbn [de_list]. destruct (len64 e ++ e ++ ser_list es) eqn:Ed.
    { apply (f_equal (@List.length N)) in Ed. rewrite !app_length, L8 in Ed. simpl in Ed. lia. }
    rewrite <- Ed. rewrite !app_length, L8.
    destruct (Nat.ltb (8 + _) 8) eqn:E; [apply Nat.ltb_lt in E; lia|].
    replace (firstn 8 (len64 e ++ e ++ ser_list es)) with (len64 e) by (rewrite <- L8 at 1; symmetry; apply firstn_app_l).
    rewrite (len64_val e He).
    destruct (Nat.ltb _ (8 + List.length e)) eqn:E2; [apply Nat.ltb_lt in E2; lia|].
    replace (skipn (8 + List.length e) (len64 e ++ e ++ ser_list es)) with (ser_list es).
    2:{ replace (len64 e ++ e ++ ser_list es) with ((len64 e ++ e) ++ ser_list es) by (symmetry; apply app_assoc).
        replace (8 + List.length e)%nat with (List.length (len64 e ++ e)) by (rewrite app_length, L8; reflexivity).
        symmetry. apply skipn_app_l. }
    rewrite IH; [|assumption|lia]. cbn [bind].
    replace (skipn 8 (len64 e ++ e ++ ser_list es)) with (e ++ ser_list es) by (rewrite <- L8 at 1; symmetry; apply skipn_app_l).
    rewrite firstn_app_l. reflexivity.
Qed.

Lemma skipn_app_len : forall A n (a b : list A), List.length a = n -> skipn n (a ++ b) = b.
Proof. intros; subst. apply skipn_app_l. Qed.
Lemma firstn_app_len : forall A n (a b : list A), List.length a = n -> firstn n (a ++ b) = a.
Proof. intros; subst. apply firstn_app_l. Qed.

Lemma de_ser_name_map : forall o d, small o -> small d ->
  deserialize_name_map (Some (ser_name_map o d)) = Ok (Some (o, d)).
Proof.
  intros o d Ho Hd. unfold deserialize_name_map, ser_name_map.
  assert (L8o : List.length (len64 o) = 8%nat) by apply len64_length.
  assert (L8d : List.length (len64 d) = 8%nat) by apply len64_length.
  set (data := (1%N :: len64 o) ++ o ++ len64 d ++ d).
  assert (Ld : List.length data = (17 + List.length o + List.length d)%nat).
  { subst data. cbn [List.length app]. rewrite !app_length, L8o, L8d. lia. }
  assert (E1 : skipn 1 data = len64 o ++ o ++ len64 d ++ d) by reflexivity.
  assert (E9 : skipn 9 data = o ++ len64 d ++ d).
  { subst data. apply skipn_app_len. simpl. rewrite L8o. reflexivity. }
  assert (E9o : skipn (9 + List.length o) data = len64 d ++ d).
  { subst data. rewrite app_assoc. apply skipn_app_len. rewrite app_length. simpl. rewrite L8o. reflexivity. }
  assert (E17 : skipn (17 + List.length o) data = d).
  { subst data. rewrite app_assoc. rewrite (app_assoc _ (len64 d) d). apply skipn_app_len.
    rewrite !app_length. simpl. rewrite L8o, L8d. lia. }
  unfold index. replace (nth_error data 0) with (Some 1%N) by reflexivity. cbn [bind]. 
  replace (negb (1 =? 1)%N) with false by reflexivity.
  rewrite Ld.
  destruct (Nat.ltb _ 9) eqn:X1; [apply Nat.ltb_lt in X1; lia|].
  rewrite E1. rewrite (firstn_app_len _ 8 _ _ L8o). rewrite (len64_val o Ho).
  destruct (Nat.ltb _ (9 + List.length o)) eqn:X2; [apply Nat.ltb_lt in X2; lia|].
  destruct (Nat.ltb _ (17 + List.length o)) eqn:X3; [apply Nat.ltb_lt in X3; lia|].
  rewrite E9o. rewrite (firstn_app_len _ 8 _ _ L8d). rewrite (len64_val d Hd).
  destruct (Nat.ltb _ (17 + List.length o + List.length d)) eqn:X4; [apply Nat.ltb_lt in X4; lia|].
  rewrite E9, E17. rewrite firstn_app_l, firstn_all. reflexivity.
Qed.

(** C14: the vote tally update (loadVoteResult, SubVote, AddVote, Sync) can only panic at the rmap nil-dereference of SubVote. *)
From Coq Require Import ZArith NArith List Bool String Lia.
From Verif Require Import AdmitTotal.Base AdmitTotal.Model AdmitTotal.ProofsBase AdmitTotal.ProofsSystem AdmitTotal.State.
From Verif Require Import AdmitTotal.ProofsState1.
Import ListNotations.
Open Scope list_scope.

Definition rmap_site : site := ("system.VoteResult.SubVote"%string, "index"%string, "voteResult.rmap[v]"%string).

(** [x] can only panic at the rmap nil-dereference site *)
Definition only_rmap {A : Type} (x : out A) : Prop := forall p, x = Panic p -> p = rmap_site.

Lemma only_rmap_np : forall A (x : out A), np x -> only_rmap x.
Proof. intros A [a|e|p] H q E; try discriminate E. discriminate H. Qed.

Lemma only_rmap_bind : forall A B (x : out A) (k : A -> out B),
  only_rmap x -> (forall a, x = Ok a -> only_rmap (k a)) -> only_rmap (bind x k).
Proof.
  intros A B [a|e|p] k H1 H2 q E; simpl in E.
  - eapply H2; eauto.
  - discriminate.
  - inversion E; subst. apply H1. reflexivity.
Qed.

Lemma small_le : forall a b, (List.length a <= List.length b)%nat -> small b -> small a.
Proof. unfold small. intros. lia. Qed.

Lemma in_ser_list_len : forall es e, In e es -> (List.length e <= List.length (ser_list es))%nat.
Proof.
  induction es as [|x es IH]; intros e H; [destruct H|].
  destruct H as [->|H]; rewrite ser_list_cons, !app_length.
  - lia.
  - specialize (IH _ H). lia.
Qed.

Lemma set_tally_nonempty : forall k v t, set_tally k v t <> [].
Proof. intros k v [|[k' v'] t]; simpl; [discriminate|]. destruct (str_eqb k k'); discriminate. Qed.

(** VoteResult.threshold never divides by zero (fixes/F28) *)
Lemma np_threshold : forall power total, np (threshold power total).
Proof.
  intros power total. unfold threshold. destruct (Z.eqb power 0); [reflexivity|].
  unfold go_div at 1. simpl Z.eqb. cbn [bind].
  destruct (Z.eqb (Z.div power 100) 0) eqn:E; [reflexivity|].
  unfold go_div. rewrite E. reflexivity.
Qed.

Section W.
  Variable to_upper : str -> str.
  Variable b58dec : str -> str.
  Variable jmarshal : list json -> str.
  Variable junmarshal : str -> option (list str).
  (** encoding/json: a one-element string list survives Marshal / Unmarshal *)
  Hypothesis Hjson : forall c, junmarshal (jmarshal [JStr c]) = Some [c].

  Notation load_result := (load_result).
  Notation vote_keys := (vote_keys junmarshal).
  Notation update_result := (update_result junmarshal).
  Notation system_run := (system_run to_upper b58dec jmarshal junmarshal).
  Notation vote_run := (vote_run b58dec jmarshal junmarshal).
  Notation refresh_run := (refresh_run junmarshal).

  Definition ex_vote_ok (raw : str) : Prop :=
    exists cand amt k ks, raw = ser_vote_ex cand amt /\ small cand /\ junmarshal cand = Some (k :: ks).
  Definition vote_ok (ex : bool) (raw : str) : Prop := raw = [] \/ (if ex then ex_vote_ok raw else True).
  Definition entry_ok (ex : bool) (e : str) : Prop :=
    if ex then exists c a, e = ser_vote_ex c a /\ small c else True.
  Definition result_ok (ex : bool) (raw : str) : Prop :=
    exists es, raw = ser_list es /\ Forall small es /\ Forall (entry_ok ex) es.

  Lemma result_ok_nil : forall ex, result_ok ex [].
  Proof. intros ex. exists []. repeat split; constructor. Qed.

  Lemma ex_vote_ok_wf : forall raw, ex_vote_ok raw -> vote_ex_wf raw = true.
  Proof.
    intros raw (c & a & k & ks & -> & Hs & _). unfold vote_ex_wf, ser_vote_ex.
    assert (L8 : List.length (len64 c) = 8%nat) by apply len64_length.
    destruct (len64 c ++ c ++ a) eqn:Ed.
    { reflexivity. }
    rewrite <- Ed. rewrite !app_length, L8. rewrite (firstn_app_len _ 8 _ _ L8), (len64_val c Hs).
    apply andb_true_iff. split; apply Nat.leb_le; lia.
  Qed.

  Lemma load_entries_ok : forall ex es t, Forall (entry_ok ex) es -> exists t', load_entries ex es t = Ok t'.
  Proof.
    induction es as [|e es IH]; intros t H; simpl; [eauto|].
    inversion H as [|? ? He Hes]; subst.
    destruct ex.
    - destruct He as (c & a & -> & Hs). unfold de_vote. rewrite (de_ser_vote_ex c a Hs). simpl. apply IH; auto.
    - simpl. apply IH; auto.
  Qed.

  Lemma load_result_ok : forall ex raw, result_ok ex raw -> exists t, load_result ex raw = Ok t.
  Proof.
    intros ex raw (es & -> & Hs & He). unfold State.load_result.
    rewrite (de_ser_list es Hs _ (le_n _)). simpl. apply load_entries_ok; auto.
  Qed.

  Lemma sub_keys_only : forall ks amt t, only_rmap (sub_keys "system.VoteResult.SubVote" ks amt t).
  Proof.
    induction ks as [|k ks IH]; intros amt t p E; simpl in E; [discriminate|].
    destruct (assoc k t); [eapply IH; eauto|]. inversion E. reflexivity.
  Qed.

  Lemma add_keys_nonempty : forall ks amt t, ks <> [] -> add_keys ks amt t <> [].
  Proof.
    intros ks amt t H. destruct ks as [|k ks]; [congruence|]. clear H. revert k t.
    induction ks as [|k' ks IH]; intros k t; simpl.
    - apply set_tally_nonempty.
    - apply IH.
  Qed.

  (** a parsed stored vote: for a proposal issue its candidate list unmarshals to >= 1 key *)
  Definition oldv_ok (ex : bool) (o : option (str * str)) : Prop :=
    match o with
    | None => True
    | Some (c, _) => if ex then small c /\ exists k ks, junmarshal c = Some (k :: ks) else True
    end.

  Lemma old_vote_ok : forall ex raw, vote_ok ex raw -> exists o, old_vote ex raw = Ok o /\ oldv_ok ex o.
  Proof.
    intros ex raw [->|H]; [exists None; split; [reflexivity|exact I]|].
    destruct raw as [|x r]; [exists None; split; [reflexivity|exact I]|].
    unfold old_vote. destruct ex.
    - destruct H as (c & a & k & ks & E & Hs & Hj). rewrite E. unfold de_vote. rewrite (de_ser_vote_ex c a Hs).
      simpl. eexists. split; [reflexivity|]. simpl. eauto.
    - simpl. eexists. split; [reflexivity|]. destruct (de_vote_bp (x :: r)). exact I.
  Qed.

  Lemma update_result_only : forall ex raw old newv,
    result_ok ex raw -> oldv_ok ex old ->
    (ex = true -> exists k ks, junmarshal (fst newv) = Some (k :: ks)) ->
    only_rmap (update_result ex raw old newv).
  Proof.
    intros ex raw old newv Hr Ho Hn. unfold State.update_result.
    destruct (load_result_ok ex raw Hr) as [t0 ->]. cbn [bind].
    apply only_rmap_bind.
    { destruct old as [[c a]|]; [|apply only_rmap_np; reflexivity].
      apply only_rmap_bind.
      - apply only_rmap_np. unfold State.vote_keys. destruct ex; [destruct (junmarshal c)|]; reflexivity.
      - intros; apply sub_keys_only. }
    intros t1 _. apply only_rmap_bind.
    { apply only_rmap_np. unfold State.vote_keys. destruct ex; [destruct (junmarshal (fst newv))|]; reflexivity. }
    intros ks Hks. destruct ex; [|apply only_rmap_np; reflexivity].
    destruct (Hn eq_refl) as (k & ks' & Hj). unfold State.vote_keys in Hks. rewrite Hj in Hks. inversion Hks; subst.
    pose proof (add_keys_nonempty (k :: ks') (be_val (snd newv)) t1 ltac:(discriminate)) as Hne.
    destruct (add_keys (k :: ks') (be_val (snd newv)) t1); [congruence|]. apply only_rmap_np. reflexivity.
  Qed.
End W.

(** C14: cmd.run of the system commands: only the rmap site can panic; every record it writes has the serialiser's shape. *)
From Coq Require Import ZArith NArith List Bool String Lia.
From Verif Require Import AdmitTotal.Base AdmitTotal.Model AdmitTotal.ProofsBase AdmitTotal.ProofsSystem AdmitTotal.ProofsName AdmitTotal.State.
From Verif Require Import AdmitTotal.ProofsState1 AdmitTotal.ProofsState2.
Import ListNotations.
Open Scope list_scope.

Lemma param_key_is_ex : forall k, mem_str k sys_param_ids = true -> issue_is_ex k = true.
Proof.
  intros k H. unfold sys_param_ids in H. simpl in H.
  repeat (apply orb_true_iff in H; destruct H as [H|H]); try discriminate H;
    apply str_eqb_eq in H; subst; reflexivity.
Qed.

Lemma entry_key_small : forall k a es, In (ser_vote_ex k a) es -> small (ser_list es) -> small k.
Proof.
  intros k a es Hin Hs. pose proof (in_ser_list_len _ _ Hin) as Hlen.
  eapply small_le; [|exact Hs]. unfold ser_vote_ex in Hlen. rewrite !app_length in Hlen. lia.
Qed.

Definition ckey (c : str * str * str) : str := fst (fst c).
Definition cvote (c : str * str * str) : str := snd (fst c).
Definition cres (c : str * str * str) : str := snd c.

(** every entry of a stored BP vote list is shorter than 78 bytes (39-byte peer id + amount) *)
Definition bp_short (raw : str) : Prop :=
  forall es, de_list (List.length raw) raw = Ok es -> Forall (fun e => (List.length e < 78)%nat) es.

(** the amounts an update writes are short: staking records below 47 bytes (8 + amount), BP tally
    entries below 78 bytes.  (Amounts are bounded by the total supply, 5*10^26 aer < 2^89.) *)
Definition upd_bounded (u : sysupd) : Prop :=
  (forall r, u_staking u = Some r -> (List.length r < 47)%nat) /\
  Forall (fun c => issue_is_ex (ckey c) = false -> bp_short (cres c)) (u_changes u).

Section W.
  Variable to_upper : str -> str.
  Variable b58dec : str -> str.
  Variable jmarshal : list json -> str.
  Variable junmarshal : str -> option (list str).
  Hypothesis Hjson : forall c, junmarshal (jmarshal [JStr c]) = Some [c].

  Notation system_run := (system_run to_upper b58dec jmarshal junmarshal).
  Notation vote_run := (vote_run b58dec jmarshal junmarshal).
  Notation refresh_run := (refresh_run junmarshal).
  Notation vote_ok := (vote_ok junmarshal).
  Notation ex_vote_ok := (ex_vote_ok junmarshal).
  Notation oldv_ok := (oldv_ok junmarshal).

  Definition run_pre (sv : sysview) (rv : runview) : Prop :=
    staking_wf (sv_staking_raw sv) = true /\
    (forall id, vote_ok true (dao_vote_raw sv id)) /\
    (forall key, result_ok (issue_is_ex key) (result_raw rv key)).

  Definition key_ok (key : str) : Prop := key = issue_bp \/ mem_str key sys_param_ids = true.

  Definition args_pre (ci : callinfo) (cx : sysctx) : Prop :=
    match cx_op cx with
    | OpVoteDAO => exists a b, ci_args ci = [JStr a; JStr b] /\ mem_str (to_upper a) sys_param_ids = true
    | _ => True
    end.

  Lemma vote_raw_ok : forall sv rv key, run_pre sv rv -> vote_ok (issue_is_ex key) (vote_raw_of sv key).
  Proof.
    intros sv rv key (_ & Hv & _). unfold vote_raw_of, issue_is_ex.
    destruct (str_eqb key issue_bp); simpl; [right; exact I | apply Hv].
  Qed.

  Lemma vote_run_only : forall ci key sv rv, run_pre sv rv ->
    (issue_is_ex key = true -> exists b, skipn 1 (ci_args ci) = [JStr b]) ->
    only_rmap (vote_run ci key sv rv).
  Proof.
    intros ci key sv rv Hp Ha. unfold State.vote_run. cbv zeta.
    destruct (old_vote_ok junmarshal _ _ (vote_raw_ok sv rv key Hp)) as (o & -> & Ho). cbn [bind].
    apply only_rmap_bind; [|intros; apply only_rmap_np; reflexivity].
    apply update_result_only; auto.
    - destruct Hp as (_ & _ & Hr). apply Hr.
    - intros Hex. cbn [fst]. rewrite Hex. destruct (Ha Hex) as [b ->]. rewrite Hjson. eauto.
  Qed.

  Lemma refresh_run_only : forall keys staked amount sv rv acc, run_pre sv rv ->
    only_rmap (refresh_run keys staked amount sv rv acc).
  Proof.
    induction keys as [|key rest IH]; intros staked amount sv rv acc Hp; [apply only_rmap_np; reflexivity|].
    cbn [State.refresh_run]. cbv zeta.
    destruct (old_vote_ok junmarshal _ _ (vote_raw_ok sv rv key Hp)) as (o & -> & Ho). cbn [bind].
    destruct o as [[c a]|]; [|apply IH; auto].
    destruct (Z.leb (be_val a) staked); [apply IH; auto|].
    apply only_rmap_bind; [|intros; apply IH; auto].
    apply update_result_only; auto.
    - destruct Hp as (_ & _ & Hr). apply Hr.
    - intros Hex. simpl in *. rewrite Hex in Ho. destruct Ho as (_ & k & ks & Hj). eauto.
  Qed.

  (** cmd.run can only panic at the rmap nil-dereference of SubVote *)
  Theorem system_run_only : forall ci cx amount sv rv, run_pre sv rv -> args_pre ci cx ->
    only_rmap (system_run ci cx amount sv rv).
  Proof.
    intros ci cx amount sv rv Hp Ha. unfold State.system_run.
    apply only_rmap_bind; [apply only_rmap_np, np_get_staking; apply Hp|].
    intros [[w pr] staked] _. unfold args_pre in Ha. destruct (cx_op cx).
    - apply vote_run_only; auto. intros X; discriminate X.
    - destruct Ha as (a & b & Hargs & Hk). rewrite Hargs. apply vote_run_only; auto. intros _. exists b. rewrite Hargs. reflexivity.
    - apply only_rmap_np; reflexivity.
    - apply refresh_run_only; auto.
  Qed.

  (* ---------------------------------------------------------------- what is written *)
  Definition vote_shape (ex : bool) (raw : str) : Prop :=
    if ex then exists cand amt k ks, raw = ser_vote_ex cand amt /\ junmarshal cand = Some (k :: ks) else True.
  Definition result_shape (ex : bool) (raw : str) : Prop := exists t, raw = store_result ex t.

  Definition change_shape (c : str * str * str) : Prop :=
    key_ok (fst (fst c)) /\ vote_shape (issue_is_ex (fst (fst c))) (snd (fst c)) /\
    result_shape (issue_is_ex (fst (fst c))) (snd c).

  Definition upd_shape (u : sysupd) : Prop :=
    (forall r, u_staking u = Some r -> exists w a, r = ser_staking w a) /\ Forall change_shape (u_changes u).

  Lemma vote_run_shape : forall ci key sv rv u, run_pre sv rv -> key_ok key ->
    (issue_is_ex key = true -> exists b, skipn 1 (ci_args ci) = [JStr b]) ->
    vote_run ci key sv rv = Ok u -> upd_shape u.
  Proof.
    intros ci key sv rv u Hp Hk Ha. unfold State.vote_run. cbv zeta. intros E.
    destruct (issue_is_ex key) eqn:Hex.
    - destruct (Ha eq_refl) as [b Hb]. rewrite Hb in E.
      apply bind_ok in E. destruct E as (o & _ & E). apply bind_ok in E. destruct E as (t & _ & E).
      injection E as Eu. subst u. unfold upd_shape. cbn [u_staking u_changes]. split.
      + intros r Hr. inversion Hr; subst. eauto.
      + constructor; [|constructor]. unfold change_shape. cbn [fst snd]. rewrite Hex. split; [exact Hk|]. split.
        * unfold vote_shape, ser_vote.
          exists (jmarshal [JStr b]), (skipn 8 (sv_staking_raw sv)), b, []. split; [reflexivity|]. apply Hjson.
        * eexists; reflexivity.
    - apply bind_ok in E. destruct E as (o & _ & E). apply bind_ok in E. destruct E as (t & _ & E).
      injection E as Eu. subst u. unfold upd_shape. cbn [u_staking u_changes]. split.
      + intros r Hr. inversion Hr; subst. eauto.
      + constructor; [|constructor]. unfold change_shape. cbn [fst snd]. rewrite Hex. split; [exact Hk|]. split.
        * exact I.
        * eexists; reflexivity.
  Qed.

  Lemma refresh_run_shape : forall keys staked amount sv rv acc u, run_pre sv rv ->
    Forall key_ok keys -> upd_shape acc ->
    refresh_run keys staked amount sv rv acc = Ok u -> upd_shape u.
  Proof.
    induction keys as [|key rest IH]; intros staked amount sv rv acc u Hp Hk Hacc E.
    - inversion E; subst. exact Hacc.
    - inversion Hk as [|? ? Hk1 Hk2]; subst. cbn [State.refresh_run] in E. cbv zeta in E.
      destruct (old_vote_ok junmarshal _ _ (vote_raw_ok sv rv key Hp)) as (o & Eo & Ho). rewrite Eo in E. cbn [bind] in E.
      destruct o as [[c a]|]; [|eapply IH; eauto].
      destruct (Z.leb (be_val a) staked); [eapply IH; eauto|].
      apply bind_ok in E. destruct E as (t & _ & E). eapply IH; [exact Hp|exact Hk2| |exact E].
      destruct Hacc as (Hs & Hc). unfold upd_shape. cbn [u_staking u_changes]. split; [exact Hs|].
      constructor; [|exact Hc]. unfold change_shape. cbn [fst snd]. split; [exact Hk1|]. split.
      + unfold vote_shape, ser_vote.
        destruct (issue_is_ex key) eqn:Hex; [|exact I]. simpl in Ho. destruct Ho as (_ & k & ks & Hj).
        eexists _, _, _, _. split; [reflexivity|exact Hj].
      + eexists; reflexivity.
  Qed.

  Theorem system_run_shape : forall ci cx amount sv rv u, run_pre sv rv -> args_pre ci cx ->
    system_run ci cx amount sv rv = Ok u -> upd_shape u.
  Proof.
    intros ci cx amount sv rv u Hp Ha. unfold State.system_run. intros E.
    apply bind_ok in E. destruct E as ([[w pr] staked] & _ & E). unfold args_pre in Ha. destruct (cx_op cx).
    - apply (vote_run_shape ci issue_bp sv rv u Hp); [left; reflexivity | intros X; discriminate X | exact E].
    - destruct Ha as (a & b & Hargs & Hk). rewrite Hargs in E.
      apply (vote_run_shape ci (to_upper a) sv rv u Hp); [right; exact Hk | intros _; rewrite Hargs; exists b; reflexivity | exact E].
    - inversion E; subst. unfold upd_shape. simpl. split; [|constructor].
      intros r Hr. inversion Hr; subst. eauto.
    - eapply (refresh_run_shape catalog _ _ sv rv _ u Hp); [| |exact E].
      + unfold catalog. constructor; [left; reflexivity|].
        unfold sys_param_ids. repeat constructor; right; reflexivity.
      + unfold upd_shape. simpl. split; [|constructor]. intros r Hr. inversion Hr; subst. eauto.
  Qed.

  (** shape + size bound = the invariants of the stored records *)
  Definition upd_small (u : sysupd) : Prop :=
    Forall (fun c : str * str * str => small (snd (fst c)) /\ small (snd c)) (u_changes u).

  Lemma staking_written_wf : forall w a, staking_wf (ser_staking w a) = true.
  Proof.
    intros w a. unfold staking_wf, ser_staking.
    assert (L : List.length (le64 w) = 8%nat) by apply le64_length.
    destruct (le64 w ++ a) eqn:E; [reflexivity|]. rewrite <- E, app_length, L. apply Nat.leb_le. lia.
  Qed.

  Lemma vote_shape_ok : forall ex raw, vote_shape ex raw -> small raw -> vote_ok ex raw.
  Proof.
    intros ex raw H Hs. right. destruct ex; [|exact I].
    destruct H as (c & a & k & ks & -> & Hj). exists c, a, k, ks. split; [reflexivity|]. split; [|exact Hj].
    eapply small_le; [|exact Hs]. unfold ser_vote_ex. rewrite !app_length. lia.
  Qed.

  Lemma result_shape_ok : forall ex raw, result_shape ex raw -> small raw -> result_ok ex raw.
  Proof.
    intros ex raw [t ->] Hs. unfold store_result in *.
    set (es := map (fun kv : str * Z => ser_vote ex (fst kv) (be_bytes (snd kv))) t) in *.
    exists es. split; [reflexivity|]. split.
    - apply Forall_forall. intros e He. eapply small_le; [apply in_ser_list_len; exact He | exact Hs].
    - apply Forall_forall. intros e He. unfold entry_ok. destruct ex; [|exact I].
      pose proof He as He2. subst es. apply in_map_iff in He2. destruct He2 as ([k v] & <- & _).
      cbn [fst snd ser_vote] in *. exists k, (be_bytes v). split; [reflexivity|].
      eapply entry_key_small; eauto.
  Qed.
End W.

(** C14: invariant of the governance contract storage; the per-sender views of an invariant state are well formed. *)
From Coq Require Import ZArith NArith List Bool String Lia.
From Verif Require Import AdmitTotal.Base AdmitTotal.Model AdmitTotal.ProofsBase AdmitTotal.ProofsSystem AdmitTotal.ProofsName
  AdmitTotal.ProofsEntValidate AdmitTotal.ProofsEntExec AdmitTotal.Theorems AdmitTotal.State.
From Verif Require Import AdmitTotal.ProofsState1 AdmitTotal.ProofsState2 AdmitTotal.ProofsState3.
Import ListNotations.
Open Scope list_scope.

Lemma set_raw_in : forall k v l k' v', In (k', v') (set_raw k v l) -> (k' = k /\ v' = v) \/ In (k', v') l.
Proof.
  induction l as [|[a b] l IH]; simpl; intros k' v' H.
  - destruct H as [H|[]]. inversion H; auto.
  - destruct (str_eqb k a).
    + destruct H as [H|H]; [inversion H; auto | right; right; exact H].
    + destruct H as [H|H]; [right; left; exact H|]. destruct (IH _ _ H); auto.
Qed.

Lemma set_votes_in : forall key acct raw l k m a r, In (k, m) (set_votes key acct raw l) -> In (a, r) m ->
  (k = key /\ ((a = acct /\ r = raw) \/ exists m0, In (key, m0) l /\ In (a, r) m0)) \/ (In (k, m) l).
Proof.
  induction l as [|[k0 m0] l IH]; simpl; intros k m a r H Hin.
  - destruct H as [H|[]]. inversion H; subst. destruct Hin as [Hin|[]]. inversion Hin; auto.
  - destruct (str_eqb key k0) eqn:E.
    + apply str_eqb_eq in E. subst k0. destruct H as [H|H]; [|right; right; exact H].
      inversion H; subst. left. split; [reflexivity|].
      destruct (set_raw_in _ _ _ _ _ Hin) as [[-> ->]|Hm]; [left; auto | right; exists m0; auto].
    + destruct H as [H|H]; [right; left; exact H|].
      destruct (IH _ _ _ _ H Hin) as [(-> & [X|(mm & Hmm & Hx)])|X]; auto.
      left. split; [reflexivity|]. right. exists mm. auto.
Qed.

Lemma assoc_map_fun : forall (f : str -> str) l id v, assoc id (map (fun i => (i, f i)) l) = Some v -> v = f id /\ In id l.
Proof.
  induction l as [|x l IH]; simpl; intros id v H; [discriminate|].
  destruct (str_eqb id x) eqn:E.
  - apply str_eqb_eq in E. subst. inversion H. auto.
  - destruct (IH _ _ H). auto.
Qed.

Section G.
  Variable to_upper : str -> str.
  Variable decode_address : str -> option str.
  Variable encode_address : str -> str.
  Variable b58 : str -> option (nat * bool).
  Variable parse_big : str -> option Z.
  Variable allowed_name : str -> bool.
  Variable list_entry_ok : str -> bool.
  Variable rpc_parts : str -> nat.
  Variable rpc_b64_ok : str -> bool.
  Variable rpc_has_w : str -> bool.
  Variable cc_peer_ok : str -> bool.
  Variable cc_addr_ok : str -> bool.
  Variable cc_hex_ok : str -> bool.
  Variable b58dec : str -> str.
  Variable jmarshal : list json -> str.
  Variable junmarshal : str -> option (list str).
  Hypothesis Hjson : forall c, junmarshal (jmarshal [JStr c]) = Some [c].
  (** decoded addresses are short byte strings (12, 33 bytes or a special account name) *)
  Hypothesis Hdec : forall x a, decode_address x = Some a -> small a.

  Notation vote_ok := (vote_ok junmarshal).
  Notation system_validate := (system_validate to_upper parse_big).
  Notation system_run := (system_run to_upper b58dec jmarshal junmarshal).
  Notation tx_validate := (tx_validate decode_address b58 allowed_name).
  Notation ent_exec := (ent_exec to_upper decode_address encode_address list_entry_ok rpc_parts rpc_b64_ok rpc_has_w cc_peer_ok cc_addr_ok cc_hex_ok).
  Notation name_exec := (name_exec decode_address).
  Notation upd_shape := (upd_shape junmarshal).
  Notation run_pre := (run_pre junmarshal).

  Definition name_rec_ok (raw : str) : Prop := exists o d, raw = ser_name_map o d /\ small o /\ small d.

  Lemma name_rec_ok_wf : forall raw, name_rec_ok raw -> name_map_wf raw = true.
  Proof. intros raw (o & d & -> & Ho & Hd). unfold name_map_wf. rewrite (de_ser_name_map o d Ho Hd). reflexivity. Qed.

  (** the invariant of the governance contract storage *)
  Definition Inv (g : gstate) : Prop :=
    (forall acct raw, In (acct, raw) (g_staking g) -> staking_wf raw = true) /\
    (forall key m acct raw, In (key, m) (g_votes g) -> In (acct, raw) m -> key_ok key /\ vote_ok (issue_is_ex key) raw) /\
    (forall key raw, In (key, raw) (g_results g) -> result_ok (issue_is_ex key) raw) /\
    (forall n raw, In (n, raw) (g_names g) -> name_rec_ok raw) /\
    (forall n raw, In (n, raw) (g_names0 g) -> name_rec_ok raw) /\
    ent_wf rpc_parts (g_ent g) = true.

  Lemma lookup_in : forall k l, lookup_raw k l = [] \/ In (k, lookup_raw k l) l.
  Proof. intros k l. unfold lookup_raw. destruct (assoc k l) eqn:E; [right; apply assoc_key; exact E | left; reflexivity]. Qed.

  Lemma inv_vote : forall g key acct, Inv g -> key_ok key -> vote_ok (issue_is_ex key) (lookup_raw acct (votes_of g key)).
  Proof.
    intros g key acct (_ & Hv & _) Hk. destruct (lookup_in acct (votes_of g key)) as [->|Hin]; [left; reflexivity|].
    unfold votes_of in *. destruct (assoc key (g_votes g)) eqn:E; [|destruct Hin].
    apply assoc_key in E. destruct (Hv _ _ _ _ E Hin) as [_ H]. exact H.
  Qed.

  Lemma inv_run_pre : forall g acct se, Inv g -> run_pre (sys_view g acct se) (run_view g).
  Proof.
    intros g acct se HI. pose proof HI as (Hs & Hv & Hr & _). unfold ProofsState3.run_pre. split; [|split].
    - unfold sys_view. cbn [sv_staking_raw]. destruct (lookup_in acct (g_staking g)) as [->|Hin]; [reflexivity | eapply Hs; eauto].
    - intros id. unfold dao_vote_raw, sys_view. cbn [sv_votes_dao].
      destruct (assoc id (map (fun i => (i, lookup_raw acct (votes_of g i))) sys_param_ids)) eqn:E; [|left; reflexivity].
      apply (assoc_map_fun (fun i => lookup_raw acct (votes_of g i))) in E. destruct E as [-> Hin].
      assert (Hm : mem_str id sys_param_ids = true).
      { clear - Hin. unfold sys_param_ids in *. simpl in *.
        repeat (destruct Hin as [<-|Hin]; [rewrite ?orb_true_r; try reflexivity|]); try destruct Hin;
        simpl; rewrite ?orb_true_r; reflexivity. }
      rewrite <- (param_key_is_ex id Hm). apply inv_vote; auto. right. exact Hm.
    - intros key. unfold result_raw, run_view. cbn [rv_results]. destruct (assoc key (g_results g)) eqn:E; [|apply result_ok_nil].
      apply assoc_key in E. eauto.
  Qed.

  Lemma inv_sys_wf : forall g acct se, Inv g -> sys_wf (sys_view g acct se) = true.
  Proof.
    intros g acct se HI. destruct (inv_run_pre g acct se HI) as (Hs & Hv & _).
    assert (H : forall i, mem_str i sys_param_ids = true -> vote_ex_wf (lookup_raw acct (votes_of g i)) = true).
    { intros i Hm. pose proof (inv_vote g i acct HI (or_intror Hm)) as Hvo. rewrite (param_key_is_ex i Hm) in Hvo.
      destruct Hvo as [->|Hvo]; [reflexivity | apply (ex_vote_ok_wf junmarshal); exact Hvo]. }
    unfold sys_wf. rewrite Hs. simpl. rewrite !H by reflexivity. reflexivity.
  Qed.

  Definition state_of (g : gstate) (acct : str) (se : stepenv) : state :=
    mkState (sys_view g acct se) (name_view g se) (g_ent g).

  Lemma inv_state_wf : forall g acct se, Inv g -> state_wf rpc_parts (state_of g acct se) = true.
  Proof.
    intros g acct se HI. unfold state_wf, state_of. simpl. rewrite (inv_sys_wf g acct se HI).
    destruct HI as (_ & _ & _ & Hn & Hn0 & He). rewrite He. rewrite andb_true_r. simpl.
    unfold name_wf. simpl. apply andb_true_iff. split; apply forallb_forall; intros [n raw] Hin; simpl;
      apply name_rec_ok_wf; eauto.
  Qed.

  (* ---------------------------------------------------------------- steps *)
  Definition with_names (g : gstate) (n raw : str) : gstate :=
    mkG (g_staking g) (g_votes g) (g_results g) (set_raw n raw (g_names g)) (g_names0 g) (g_ent g).
  Definition with_ent (g : gstate) (ev : entview) : gstate :=
    mkG (g_staking g) (g_votes g) (g_results g) (g_names g) (g_names0 g) ev.
  Definition next_block (g : gstate) : gstate :=
    mkG (g_staking g) (g_votes g) (g_results g) (g_names g) (g_names g) (g_ent g).

  (** one successfully executed governance transaction (a failed one leaves the state unchanged),
      or a block boundary.  [upd_small]: the records written are shorter than 2^32 bytes; [upd_bounded]: the amounts
      written are short (bounded by the total supply). *)
  Inductive step (g : gstate) : gstate -> Prop :=
  | step_block : step g (next_block g)
  | step_system : forall acct se e t ci cx u,
      tx_validate e t = Ok tt -> tx_type t = TGov -> str_eqb (tx_recipient t) c_aergo_system = true ->
      tx_ci t = Some ci ->
      system_validate (tx_ci t) (tx_amount t) (sys_view g acct se) = Ok cx ->
      system_run ci cx (tx_amount t) (sys_view g acct se) (run_view g) = Ok u ->
      upd_small u -> upd_bounded u -> step g (apply_upd g acct u)
  | step_name : forall acct se t owner_choice n raw,
      small acct -> small owner_choice ->
      name_exec t (name_view g se) = Ok tt ->
      name_run decode_address t (name_view g se) acct owner_choice = Some (n, raw) ->
      step g (with_names g n raw)
  | step_ent : forall e oci ev',
      ent_exec e oci (g_ent g) = Ok ev' -> step g (with_ent g ev').

  Lemma apply1_inv : forall g acct c, Inv g -> change_shape junmarshal c -> small (snd (fst c)) -> small (snd c) ->
    Inv (apply1 acct c g).
  Proof.
    intros g acct [[key vraw] rraw] (Hs & Hv & Hr & Hn & Hn0 & He) (Hk & Hvs & Hrs) Sv Sr. cbn [fst snd] in *.
    unfold Inv, apply1. cbn [fst snd g_staking g_votes g_results g_names g_names0 g_ent].
    refine (conj Hs (conj _ (conj _ (conj Hn (conj Hn0 He))))).
    - intros k1 m1 a1 r1 Hin Hm.
      destruct (set_votes_in _ _ _ _ _ _ _ _ Hin Hm) as [(-> & [[-> ->]|(m0 & Hm0 & Hx)])|X].
      + split; [exact Hk | apply vote_shape_ok; auto].
      + eapply Hv; eauto.
      + eapply Hv; eauto.
    - intros k1 r1 Hin. destruct (set_raw_in _ _ _ _ _ Hin) as [[-> ->]|H]; [apply result_shape_ok; auto | eauto].
  Qed.

  Lemma apply_upd_inv : forall g acct u, Inv g -> upd_shape u -> upd_small u -> Inv (apply_upd g acct u).
  Proof.
    intros g acct u HI (Us & Uc) Sc. unfold apply_upd.
    assert (H0 : Inv (set_staking acct (u_staking u) g)).
    { destruct HI as (Hs & Hv & Hr & Hn & Hn0 & He). unfold Inv, set_staking. simpl.
      refine (conj _ (conj Hv (conj Hr (conj Hn (conj Hn0 He))))).
      intros a raw Hin. destruct (u_staking u) as [r|] eqn:E; [|eauto].
      destruct (set_raw_in _ _ _ _ _ Hin) as [[_ ->]|H]; [|eauto].
      destruct (Us r eq_refl) as (w & am & ->). apply staking_written_wf. }
    revert Uc Sc. unfold upd_small. generalize (u_changes u). induction l as [|c l IH]; intros Uc Sc; simpl; [exact H0|].
    inversion Uc; subst. inversion Sc as [|? ? [S1 S2] Sc']; subst. apply apply1_inv; auto.
  Qed.
End G.

(** C14: every executed governance transaction preserves the storage invariant; reachable states. *)
From Coq Require Import ZArith NArith List Bool String Lia.
From Verif Require Import AdmitTotal.Base AdmitTotal.Model AdmitTotal.ProofsBase AdmitTotal.ProofsSystem AdmitTotal.ProofsName
  AdmitTotal.ProofsEntValidate AdmitTotal.ProofsEntExec AdmitTotal.Theorems AdmitTotal.State.
From Verif Require Import AdmitTotal.ProofsState1 AdmitTotal.ProofsState2 AdmitTotal.ProofsState3 AdmitTotal.ProofsState4.
Import ListNotations.
Open Scope list_scope.

Section G.
  Variable to_upper : str -> str.
  Variable decode_address : str -> option str.
  Variable encode_address : str -> str.
  Variable b58 : str -> option (nat * bool).
  Variable parse_big : str -> option Z.
  Variable allowed_name : str -> bool.
  Variable list_entry_ok : str -> bool.
  Variable rpc_parts : str -> nat.
  Variable rpc_b64_ok : str -> bool.
  Variable rpc_has_w : str -> bool.
  Variable cc_peer_ok : str -> bool.
  Variable cc_addr_ok : str -> bool.
  Variable cc_hex_ok : str -> bool.
  Variable b58dec : str -> str.
  Variable jmarshal : list json -> str.
  Variable junmarshal : str -> option (list str).
  Hypothesis Hjson : forall c, junmarshal (jmarshal [JStr c]) = Some [c].
  Hypothesis Hdec : forall x a, decode_address x = Some a -> small a.

  Notation system_validate := (system_validate to_upper parse_big).
  Notation system_run := (system_run to_upper b58dec jmarshal junmarshal).
  Notation Inv := (Inv rpc_parts junmarshal).
  Notation step := (step to_upper decode_address encode_address b58 parse_big allowed_name list_entry_ok rpc_parts rpc_b64_ok rpc_has_w cc_peer_ok cc_addr_ok cc_hex_ok b58dec jmarshal junmarshal).

  (** a successful ValidateSystemTx of a proposal vote: exactly (id, candidate), id a parameter id *)
  Lemma system_validate_args : forall ci amount sv cx, system_validate (Some ci) amount sv = Ok cx ->
    cx_op cx = op_of (ci_name ci) /\ args_pre to_upper ci cx.
  Proof.
    intros ci amount sv cx. unfold args_pre. simpl. destruct (op_of (ci_name ci)) eqn:Eop.
    - intros E. apply bind_ok in E. destruct E as (n & _ & E). inversion E; subst. simpl. auto.
    - destruct (Z.ltb _ 2); [intro X; discriminate X|]. destruct (Nat.ltb _ 2) eqn:El; [intro X; discriminate X|].
      apply Nat.ltb_ge in El. intros E.
      apply bind_ok in E. destruct E as (id & E1 & E).
      apply bind_ok in E. destruct E as (candis & E2 & E).
      destruct (Nat.ltb 1 _) eqn:Ec; [discriminate E|]. apply Nat.ltb_ge in Ec.
      apply bind_ok in E. destruct E as (u & E3 & E).
      apply bind_ok in E. destruct E as (n & _ & E). inversion E; subst. simpl. split; [reflexivity|].
      unfold parse_id_for_proposal in E1. destruct (ci_args ci) as [|a0 r] eqn:Ea; [simpl in El; lia|].
      unfold index in E1. cbn [nth_error bind] in E1. destruct a0; cbn [as_str] in E1; try discriminate E1.
      destruct (Nat.ltb (List.length x) 1 || negb (mem_str (to_upper x) sys_param_ids)) eqn:Ex; [discriminate E1|].
      apply orb_false_iff in Ex. destruct Ex as [_ Ex]. apply negb_false_iff in Ex.
      unfold slice_from in E2. simpl in E2. inversion E2; subst candis.
      destruct r as [|b r']; [simpl in El; lia|]. destruct r' as [|? ?]; [|simpl in Ec; lia].
      simpl in E3. destruct b; simpl in E3; try discriminate E3. exists x, x0. auto.
    - destruct (Z.ltb _ amount); [intro X; discriminate X|]. intros E.
      apply bind_ok in E. destruct E as (u & _ & E). inversion E; subst. simpl. auto.
    - intros E. apply bind_ok in E. destruct E as (u & _ & E). inversion E; subst. simpl. auto.
  Qed.

  Lemma name_run_ok : forall t g se acct oc n raw, Inv g -> small acct -> small oc ->
    name_run decode_address t (name_view g se) acct oc = Some (n, raw) -> name_rec_ok raw.
  Proof.
    intros t g se acct oc n raw HI Ha Ho. unfold name_run.
    destruct (tx_ci t) as [ci|]; [|discriminate].
    destruct (ci_args ci) as [|[| | |nameArg| |] rest]; try discriminate.
    destruct (str_eqb (ci_name ci) (s "v1createName")).
    { intros E. inversion E; subst. exists acct, acct. auto. }
    destruct (str_eqb (ci_name ci) (s "v1updateName")).
    { destruct rest as [|[| | |toArg| |] rest']; try discriminate. intros E. inversion E; subst. clear E.
      eexists oc, _. split; [reflexivity|]. split; [exact Ho|].
      assert (Hd : small (match decode_address toArg with Some a => a | None => [] end)).
      { destruct (decode_address toArg) eqn:Ed; [eapply Hdec; eauto | unfold small; simpl; lia]. }
      destruct (_ || _); [exact Hd|].
      unfold get_name_map0. simpl.
      destruct (assoc _ (g_names0 g)) eqn:Ea; [|unfold small; simpl; lia].
      apply assoc_key in Ea. destruct HI as (_ & _ & _ & _ & Hn0 & _).
      destruct (Hn0 _ _ Ea) as (o' & d' & -> & Ho' & Hd'). rewrite (de_ser_name_map o' d' Ho' Hd'). exact Hd'. }
    destruct (str_eqb (ci_name ci) (s "v1setOwner")); [|discriminate].
    destruct (decode_address nameArg) as [da|] eqn:Ed; [|discriminate]. intros E. inversion E; subst.
    exists da, c_aergo_name. split; [reflexivity|]. split; [eapply Hdec; eauto | unfold small; vm_compute; reflexivity].
  Qed.

  Theorem inv_preserved : forall g g', Inv g -> step g g' -> Inv g'.
  Proof.
    intros g g' HI Hst. destruct Hst.
    - destruct HI as (H1 & H2 & H3 & H4 & H5 & H6). unfold ProofsState4.Inv, next_block. simpl. auto 10.
    - rewrite H2 in H3. destruct (system_validate_args _ _ _ _ H3) as [_ Hargs].
      eapply apply_upd_inv; eauto. eapply system_run_shape; eauto. eapply inv_run_pre; eauto.
    - pose proof (name_run_ok _ _ _ _ _ _ _ HI H H0 H2) as Hr.
      destruct HI as (H1' & H2' & H3' & H4' & H5' & H6'). unfold ProofsState4.Inv, with_names. simpl.
      refine (conj H1' (conj H2' (conj H3' (conj _ (conj H5' H6'))))).
      intros n0 raw0 Hin. destruct (set_raw_in _ _ _ _ _ Hin) as [[_ ->]|X]; [exact Hr | eauto].
    - destruct HI as (H1' & H2' & H3' & H4' & H5' & H6'). unfold ProofsState4.Inv, with_ent. simpl.
      refine (conj H1' (conj H2' (conj H3' (conj H4' (conj H5' _))))).
      eapply enterprise_state_wf_preserved; eauto.
  Qed.

  Inductive reachable (g0 : gstate) : gstate -> Prop :=
  | r_init : reachable g0 g0
  | r_step : forall g g', reachable g0 g -> step g g' -> reachable g0 g'.

  Theorem reachable_inv : forall g0 g, Inv g0 -> reachable g0 g -> Inv g.
  Proof. intros g0 g H0 R. induction R; [exact H0 | eapply inv_preserved; eauto]. Qed.

  (** the genesis storage: no staking, no votes, no names; the BP vote list written by
      InitVoteResult (an output of serializeVoteList); an enterprise state with well-formed confs *)
  Definition genesis (bp_list : str) (ent0 : entview) : gstate := mkG [] [] [(issue_bp, bp_list)] [] [] ent0.

  Lemma genesis_inv : forall bp_list ent0, result_ok false bp_list -> ent_wf rpc_parts ent0 = true ->
    Inv (genesis bp_list ent0).
  Proof.
    intros bp ent0 Hr He. unfold ProofsState4.Inv, genesis. simpl.
    refine (conj _ (conj _ (conj _ (conj _ (conj _ He))))); try (intros; contradiction).
    intros key raw [H|[]]. inversion H; subst. exact Hr.
  Qed.
End G.

(** C14: contract/system — ValidateSystemTx and ExecuteSystemTx never panic on well-formed stored records. *)
From Coq Require Import ZArith NArith List Bool String Lia.
From Verif Require Import AdmitTotal.Base AdmitTotal.Model.
From Verif Require Import AdmitTotal.ProofsBase.
Import ListNotations.

Lemma bind_ok : forall A B (x : out A) (k : A -> out B) b,
  bind x k = Ok b -> exists a, x = Ok a /\ k a = Ok b.
Proof. intros A B [a|e|p] k b H; simpl in H; try discriminate. eauto. Qed.

Lemma assoc_forallb : forall A (f : str * A -> bool) l k v,
  forallb f l = true -> assoc k l = Some v -> exists k', f (k', v) = true.
Proof.
  induction l as [|[k' v'] l IH]; simpl; intros k v H E; [discriminate|].
  apply andb_true_iff in H. destruct H as [H1 H2].
  destruct (str_eqb k k'); [inversion E; subst; eauto | eauto].
Qed.

Lemma mod39_sub : forall n, Nat.modulo (n - Nat.modulo n 39) 39 = 0%nat.
Proof.
  intros n. pose proof (Nat.div_mod n 39 ltac:(lia)) as H.
  replace (n - n mod 39)%nat with (n / 39 * 39)%nat by lia.
  apply Nat.mod_mul. lia.
Qed.

Section Proofs.
  Variable to_upper : str -> str.
  Variable b58 : str -> option (nat * bool).
  Variable parse_big : str -> option Z.

  Notation system_validate := (system_validate to_upper parse_big).
  Notation system_exec := (system_exec to_upper b58 parse_big).

  Lemma np_get_staking : forall raw, staking_wf raw = true -> np (get_staking raw).
  Proof.
    intros [|x r] H; [reflexivity|]. unfold get_staking. unfold staking_wf in H.
    apply Nat.leb_le in H. destruct (Nat.ltb _ 8) eqn:E; [apply Nat.ltb_lt in E; lia | reflexivity].
  Qed.

  Lemma deserialize_vote_ok : forall data, exists n a, deserialize_vote data = Ok (n, a) /\ Nat.modulo n 39 = 0%nat.
  Proof.
    intros data. unfold deserialize_vote, PeerIDLength.
    rewrite mod39_sub. simpl. eexists _, _. split; [reflexivity|]. apply mod39_sub.
  Qed.

  Lemma get_vote_bp_ok : forall raw, exists b n a, get_vote false raw = Ok (b, n, a) /\ Nat.modulo n 39 = 0%nat.
  Proof.
    intros [|x r]; simpl; [exists false, 0%nat, 0%Z; split; reflexivity|].
    destruct (deserialize_vote_ok (x :: r)) as (n & a & -> & Hn). simpl. eauto.
  Qed.

  Lemma np_get_vote_ex : forall raw, vote_ex_wf raw = true -> np (get_vote true raw).
  Proof.
    intros [|x r] H; [reflexivity|]. unfold get_vote, deserialize_vote_ex. unfold vote_ex_wf in H.
    apply andb_true_iff in H. destruct H as [H1 H2]. apply Nat.leb_le in H1, H2.
    destruct (Nat.ltb _ 8) eqn:E; [apply Nat.ltb_lt in E; lia |].
    destruct (Nat.ltb _ (8 + _)) eqn:E2; [apply Nat.ltb_lt in E2; lia | reflexivity].
  Qed.

  Lemma dao_vote_raw_wf : forall sv id, sys_wf sv = true -> vote_ex_wf (dao_vote_raw sv id) = true.
  Proof.
    intros sv id H. unfold sys_wf in H. apply andb_true_iff in H. destruct H as [_ H].
    unfold dao_vote_raw. destruct (assoc id (sv_votes_dao sv)) eqn:E; [|reflexivity].
    destruct (assoc_forallb _ _ _ _ _ H E) as [k' Hk]. exact Hk.
  Qed.

  Lemma np_validate_for_vote_ex : forall sv raw, sys_wf sv = true -> vote_ex_wf raw = true ->
    np (validate_for_vote sv true raw).
  Proof.
    intros sv raw H Hr. unfold validate_for_vote.
    apply np_bind. { apply np_get_staking. unfold sys_wf in H. apply andb_true_iff in H. tauto. }
    intros [[w p] st] _. ifs.
    apply np_bind; [apply np_get_vote_ex; auto|]. intros [[vp cl] am] _. ifs.
  Qed.

  Lemma validate_for_vote_bp : forall sv raw, sys_wf sv = true ->
    np (validate_for_vote sv false raw) /\
    forall n, validate_for_vote sv false raw = Ok n -> Nat.modulo n 39 = 0%nat.
  Proof.
    intros sv raw H. unfold validate_for_vote.
    assert (Hs : np (get_staking (sv_staking_raw sv))).
    { apply np_get_staking. unfold sys_wf in H. apply andb_true_iff in H. tauto. }
    destruct (get_staking (sv_staking_raw sv)) as [[[w p] st]|e|q]; simpl; [|split; [reflexivity|discriminate]|discriminate Hs].
    destruct (Z.eqb st 0); [split; [reflexivity|discriminate]|].
    destruct (get_vote_bp_ok raw) as (b & n & a & -> & Hn). simpl.
    destruct (b && _); split; try reflexivity; try discriminate. intros n' E. inversion E; subst; auto.
  Qed.

  Lemma np_dao_candidates : forall id l, np (dao_candidates parse_big id l).
  Proof. induction l as [|c r IH]; simpl; ifs. apply IH. Qed.

  Lemma dao_candidates_ok : forall id c r u, dao_candidates parse_big id (c :: r) = Ok u -> exists x, c = JStr x.
  Proof. intros id c r u. simpl. destruct c; simpl; try discriminate. eauto. Qed.

  Lemma np_parse_id : forall ci, (1 <= List.length (ci_args ci))%nat -> np (parse_id_for_proposal to_upper ci).
  Proof.
    intros ci H. unfold parse_id_for_proposal. apply np_bind; [apply np_index; lia|]. intros; ifs.
  Qed.

  Lemma parse_id_ok : forall ci id, parse_id_for_proposal to_upper ci = Ok id -> exists x r, ci_args ci = JStr x :: r.
  Proof.
    intros ci id. unfold parse_id_for_proposal. destruct (ci_args ci) as [|a r]; simpl; [discriminate|].
    destruct a; simpl; try discriminate. eauto.
  Qed.

  Theorem system_validate_total : forall oci amount sv, sys_wf sv = true -> np (system_validate oci amount sv).
  Proof.
    intros [ci|] amount sv H; simpl; [|apply np_err].
    pose proof H as H'. unfold sys_wf in H'. apply andb_true_iff in H'. destruct H' as [Hst _].
    destruct (op_of (ci_name ci)).
    - apply np_bind; [apply validate_for_vote_bp; auto|]. intros; ifs.
    - ifs. apply Nat.ltb_ge in Heqb0.
      apply np_bind; [apply np_parse_id; lia|]. intros id _.
      apply np_bind; [apply np_slice_from; lia|]. intros candis _. ifs.
      apply np_bind; [apply np_dao_candidates|]. intros _ _.
      apply np_bind; [apply np_validate_for_vote_ex; auto using dao_vote_raw_wf|]. intros; ifs.
    - ifs. apply np_bind; [|intros; ifs]. unfold validate_for_staking.
      apply np_bind; [apply np_get_staking; auto|]. intros [[w p] st] _. ifs.
    - apply np_bind; [|intros; ifs]. unfold validate_for_unstaking.
      apply np_bind; [apply np_get_staking; auto|]. intros [[w p] st] _. ifs.
  Qed.

  (** what a successful ValidateSystemTx guarantees to the command constructors *)
  Lemma system_validate_ok : forall ci amount sv cx, sys_wf sv = true ->
    system_validate (Some ci) amount sv = Ok cx ->
    cx_op cx = op_of (ci_name ci) /\
    match op_of (ci_name ci) with
    | OpVoteDAO => cx_proposal cx = true /\ exists a b r, ci_args ci = JStr a :: JStr b :: r
    | OpVoteBP => cx_proposal cx = false /\ Nat.modulo (cx_old_clen cx) 39 = 0%nat
    | _ => True
    end.
  Proof.
    intros ci amount sv cx Hwf. simpl. destruct (op_of (ci_name ci)) eqn:Eop.
    - intros E. apply bind_ok in E. destruct E as (n & E1 & E2). inversion E2; subst. simpl.
      split; [reflexivity|]. split; [reflexivity|]. eapply validate_for_vote_bp; eauto.
    - destruct (Z.ltb _ 2); [intro X; discriminate X|]. destruct (Nat.ltb _ 2) eqn:El; [intro X; discriminate X|].
      apply Nat.ltb_ge in El. intros E.
      apply bind_ok in E. destruct E as (id & E1 & E).
      apply bind_ok in E. destruct E as (candis & E2 & E).
      destruct (Nat.ltb 1 _) eqn:Ec; [discriminate E|]. apply Nat.ltb_ge in Ec.
      apply bind_ok in E. destruct E as (u & E3 & E).
      apply bind_ok in E. destruct E as (n & E4 & E). inversion E; subst. simpl.
      split; [reflexivity|]. split; [reflexivity|].
      destruct (parse_id_ok _ _ E1) as (x & r & Hx). rewrite Hx in *.
      unfold slice_from in E2. simpl in E2. inversion E2; subst candis. simpl in El.
      destruct r as [|b r']; [simpl in El; lia|].
      destruct (dao_candidates_ok _ _ _ _ E3) as [y ->]. eauto.
    - destruct (Z.ltb _ amount); [intro X; discriminate X|]. intros E.
      apply bind_ok in E. destruct E as (u & _ & E). inversion E; subst. simpl. auto.
    - intros E. apply bind_ok in E. destruct E as (u & _ & E). inversion E; subst. simpl. auto.
  Qed.

  (** arguments accepted by types.ValidateSystemTx for a BP vote decode to whole peer ids *)
  Lemma vote_bp_args_len : forall args i seen u, vote_bp_args b58 args i seen = Ok u ->
    exists n, bp_candidate_len b58 args = Ok n /\ Nat.modulo n 39 = 0%nat.
  Proof.
    induction args as [|v rest IH]; intros i seen u; cbn [vote_bp_args bp_candidate_len].
    - intros _. exists 0%nat. split; reflexivity.
    - destruct (Nat.leb MaxCandidates i); [intro X; discriminate X|].
      destruct (as_str v) as [w|]; [|intro X; discriminate X].
      destruct (mem_str w seen); [intro X; discriminate X|].
      destruct (b58 w) as [[k [|]]|]; try (intro X; discriminate X).
      destruct (Nat.eqb k PeerIDLength) eqn:Ek; [|intro X; discriminate X].
      apply Nat.eqb_eq in Ek. intros E. destruct (IH _ _ _ E) as (n & -> & Hn). simpl.
      eexists. split; [reflexivity|]. subst k. unfold PeerIDLength.
      change ((39 + n) mod 39 = 0)%nat.
      rewrite Nat.add_mod by lia. rewrite Hn. reflexivity.
  Qed.

  Lemma np_refresh_votes : forall sv ids, sys_wf sv = true -> np (refresh_votes sv ids).
  Proof.
    induction ids as [|id r IH]; intros H; simpl; [reflexivity|].
    apply np_bind; [apply np_get_vote_ex; auto using dao_vote_raw_wf|]. auto.
  Qed.

  Lemma np_vote_slices : forall fn n, Nat.modulo n 39 = 0%nat -> np (vote_slices fn n).
  Proof. intros fn n H. unfold vote_slices, PeerIDLength. rewrite H. reflexivity. Qed.

  (** an aergo.system transaction that passed types.ValidateSystemTx executes without panic *)
  Theorem system_exec_total : forall oci amount sv u, sys_wf sv = true ->
    types_validate_system b58 oci = Ok u -> np (system_exec oci amount sv).
  Proof.
    intros [ci|] amount sv u Hwf Hv; [|apply np_err].
    unfold system_exec. apply np_bind; [apply system_validate_total; auto|].
    intros cx Hcx. destruct (system_validate_ok _ _ _ _ Hwf Hcx) as [Hop Hm]. rewrite Hop.
    simpl in Hv. destruct (op_of (ci_name ci)) eqn:Eop.
    - destruct Hm as [Hp Hold]. unfold new_vote_cmd. rewrite Hp.
      destruct (vote_bp_args_len _ _ _ _ Hv) as (n & -> & Hn). simpl.
      apply np_bind; [apply np_vote_slices; auto|]. intros _ _. apply np_vote_slices; auto.
    - destruct Hm as [Hp (a & b & r & Hargs)]. unfold new_vote_cmd. rewrite Hp, Hargs. reflexivity.
    - reflexivity.
    - destruct (get_vote_bp_ok (sv_vote_bp_raw sv)) as (b & n & a & -> & Hn). simpl.
      apply np_bind; [apply np_vote_slices; auto|]. intros _ _. exact (np_refresh_votes sv sys_param_ids Hwf).
  Qed.
End Proofs.

(** C14: the run-time panic sites of the admission / governance-execution code that the model
    accounts for, in the vocabulary of the generated inventory Gen/PanicSites.v:
    (function, kind, expression text, number of occurrences; kinds: assert, index, slice, panic, indexwrite, div, make, nilptr, nilfield = a selection x.f.g through a struct field inside logging code, which runs only at that log level, mapfill = a store m[k] = v inside a loop with the conditions under which it is reached, nilresult = a function with a pointer first result and an error last result that can return (nil, nil): literal, or a `var x *T` not assigned on every path to `return x, nil`; none at HEAD -- name.SetContractOwner assigns ownerState on every path, its caller ExecuteNameTx calls ownerState.PutState() unconditionally, so such a site there would be a Panic outcome), plus how each is accounted for:
      "model"     explicit [Panic] outcome in Model.v, proved unreachable in Theorems.v
      "map"       Go map index (cannot panic)
      "reviewed"  argued by hand (reason in the comment), outside the theorems
    Properties/C14.v proves  Gen.PanicSites.sites  is included in this list (by vm_compute), so
    a new, removed-guard or duplicated site in the Go source is a failing proof obligation. *)
From Coq Require Import String List Bool Arith.
Import ListNotations.
Open Scope string_scope.

Definition model_sites : list (string * string * string * nat * string) := [
  ("chain.adjustRv", "slice", "ret[:maxRetSize-4]", 1, "reviewed");  (* guarded by len(ret) > maxRetSize *)
  ("system.VoteResult.AddVote", "mapfill", "voteResult.rmap[base58.Encode(key)] when always", 1, "model");  (* tally update in a loop over the new vote's candidates: add_keys in State.v *)
  ("system.VoteResult.AddVote", "mapfill", "voteResult.rmap[base58.Encode(key)] when voteResult.rmap[base58.Encode(key)] == nil", 1, "model");  (* a new candidate gets a zero entry first: add_keys *)
  ("system.VoteResult.AddVote", "mapfill", "voteResult.rmap[v] when always", 1, "model");  (* add_keys, DAO values *)
  ("system.VoteResult.AddVote", "mapfill", "voteResult.rmap[v] when voteResult.rmap[v] == nil", 1, "model");  (* add_keys *)
  ("system.VoteResult.SubVote", "mapfill", "voteResult.rmap[pkey] when always", 1, "model");  (* sub_keys: the entry is dereferenced WITHOUT a nil check (explicit Panic outcome "rmap" in State.v); unreachable because every key of a stored vote is a key of the loaded tally (key invariant KInv, TheoremsKeys.v) -- which needs loadVoteResult to load EVERY stored entry, zero amounts included: see the two loadVoteResult rows *)
  ("system.VoteResult.SubVote", "mapfill", "voteResult.rmap[v] when always", 1, "model");  (* as above, DAO values *)
  ("system.loadVoteResult", "mapfill", "voteResult.rmap[base58.Encode(v.Candidate)] when not (voteResult.ex)", 1, "model");  (* load_entries: every stored entry is loaded, no skip condition (a skipped entry makes SubVote dereference nil for a voter whose previous vote names it) *)
  ("system.loadVoteResult", "mapfill", "voteResult.rmap[string(v.Candidate)] when voteResult.ex", 1, "model");  (* load_entries: every stored entry is loaded, entries whose amount is zero included *)
  ("system.vpr.apply", "mapfill", "updRows[i] when delta.cmp(zeroValue) != 0 && s != nil && !exist", 1, "reviewed");  (* in-memory voting power rank (vprt.go), outside the model *)
  ("system.newVprCmd", "nilfield", "ctx.BlockInfo.ForkVersion", 1, "reviewed");  (* debug log line; ctx.BlockInfo is dereferenced unconditionally by the next statement (ForkVersion < 2) and set by newSystemContext from the block header info *)
  ("system.voteCmd.updateVoteResult", "nilfield", "c.Vote.GetAmountBigInt", 2, "reviewed");  (* debug log line; c.Vote is the record returned by getVote (never nil: an empty types.Vote when there is none) and was already used by c.sub(c.Vote).  c.Proposal is nil for BP votes (model: the proposal of a voteBP command is None): a selection through it in logging code would be a Panic outcome at debug level and must not appear here *)
  ("chain.executeTx", "nilptr", "bs.BpReward.Add(&bs.BpReward, txFee)", 1, "model");  (* explicit Panic outcome of exec_gov for a type without a case in the dispatch; unreachable by tx_validate_type; the case lists are generated (C14_dispatch_complete) *)
  ("chain.executeTx", "nilptr", "txFee.Bytes()", 1, "model");  (* after the previous site: same condition *)
  ("types.IsQuirkTx", "index", "quirkTxMap[id]", 1, "map");  (* Go map index *)
  ("types.NewReceipt", "slice", "contractAddress[:33]", 1, "reviewed");  (* AccountState.ID() pads every id to 33 bytes *)
  ("enterprise.CcArgument.get", "index", "cc[key]", 1, "map");  (* Go map index: yields the zero value, cannot panic *)
  ("enterprise.Conf.RemoveValue", "slice", "c.Values[:i]", 1, "reviewed");  (* i ranges over c.Values *)
  ("enterprise.Conf.RemoveValue", "slice", "c.Values[i+1:]", 1, "reviewed");  (* i ranges over c.Values *)
  ("enterprise.Conf.Validate", "index", "strings.Split(v, "":"")[1]", 1, "model");  (* explicit Panic outcome in AdmitTotal/Model.v / State.v, unreachable by Theorems.v / TheoremsState.v *)
  ("enterprise.ExecuteEnterpriseTx", "index", "context.ArgsAny[0]", 1, "reviewed");  (* ValidateEnterpriseTx appends exactly one element for changeCluster *)
  ("enterprise.ExecuteEnterpriseTx", "index", "context.Args[0]", 6, "model");  (* explicit Panic outcome in AdmitTotal/Model.v / State.v, unreachable by Theorems.v / TheoremsState.v *)
  ("enterprise.ExecuteEnterpriseTx", "index", "context.Call.Args[1]", 1, "model");  (* explicit Panic outcome in AdmitTotal/Model.v / State.v, unreachable by Theorems.v / TheoremsState.v *)
  ("enterprise.ExecuteEnterpriseTx", "slice", "context.Admins[:i]", 1, "reviewed");  (* i ranges over context.Admins *)
  ("enterprise.ExecuteEnterpriseTx", "slice", "context.Admins[i+1:]", 1, "reviewed");  (* i ranges over context.Admins *)
  ("enterprise.ValidateChangeCluster", "index", "ci.Args[0]", 2, "model");  (* explicit Panic outcome in AdmitTotal/Model.v / State.v, unreachable by Theorems.v / TheoremsState.v *)
  ("enterprise.ValidateEnterpriseTx", "assert", "ci.Args[0].(string)", 1, "model");  (* explicit Panic outcome in AdmitTotal/Model.v / State.v, unreachable by Theorems.v / TheoremsState.v *)
  ("enterprise.ValidateEnterpriseTx", "index", "ci.Args[0]", 9, "model");  (* explicit Panic outcome in AdmitTotal/Model.v / State.v, unreachable by Theorems.v / TheoremsState.v *)
  ("enterprise.ValidateEnterpriseTx", "index", "ci.Args[1]", 1, "model");  (* explicit Panic outcome in AdmitTotal/Model.v / State.v, unreachable by Theorems.v / TheoremsState.v *)
  ("enterprise.ValidateEnterpriseTx", "index", "context.Args[0]", 4, "model");  (* explicit Panic outcome in AdmitTotal/Model.v / State.v, unreachable by Theorems.v / TheoremsState.v *)
  ("enterprise.ValidateEnterpriseTx", "index", "context.Args[1]", 4, "model");  (* explicit Panic outcome in AdmitTotal/Model.v / State.v, unreachable by Theorems.v / TheoremsState.v *)
  ("enterprise.ValidateEnterpriseTx", "index", "enterpriseKeyDict[strings.ToUpper(ci.Args[0].(string))]", 1, "map");  (* Go map index: yields the zero value, cannot panic *)
  ("enterprise.ValidateEnterpriseTx", "slice", "context.Args[1:]", 1, "model");  (* explicit Panic outcome in AdmitTotal/Model.v / State.v, unreachable by Theorems.v / TheoremsState.v *)
  ("enterprise.checkAdmin", "div", "i % types.AddressLength", 1, "reviewed");  (* remainder by a non-zero constant *)
  ("enterprise.checkArgs", "index", "ci.Args[0]", 2, "model");  (* explicit Panic outcome in AdmitTotal/Model.v / State.v, unreachable by Theorems.v / TheoremsState.v *)
  ("enterprise.checkArgs", "index", "enterpriseKeyDict[key]", 1, "map");  (* Go map index: yields the zero value, cannot panic *)
  ("enterprise.checkArgs", "index", "unique[arg]", 2, "map");  (* Go map index: yields the zero value, cannot panic *)
  ("enterprise.checkArgs", "indexwrite", "unique[arg]", 1, "map");  (* write to a map allocated by its constructor (newVoteResult / make / literal): never nil *)
  ("enterprise.deserializeConf", "index", "data[0]", 1, "reviewed");  (* serializeConf always writes >= 1 byte and strings.Split returns >= 1 piece; conf records are kept deserialised in the model *)
  ("enterprise.deserializeConf", "slice", "strings.Split(string(data), ""\\"")[1:]", 1, "reviewed");  (* serializeConf always writes >= 1 byte and strings.Split returns >= 1 piece; conf records are kept deserialised in the model *)
  ("enterprise.getAdmins", "div", "len(data) % types.AddressLength", 1, "reviewed");  (* remainder by a non-zero constant *)
  ("enterprise.getAdmins", "slice", "data[i : i+types.AddressLength]", 1, "model");  (* explicit Panic outcome in AdmitTotal/Model.v / State.v, unreachable by Theorems.v / TheoremsState.v *)
  ("name.ExecuteNameTx", "assert", "ci.Args[0].(string)", 3, "model");  (* explicit Panic outcome in AdmitTotal/Model.v / State.v, unreachable by Theorems.v / TheoremsState.v *)
  ("name.ExecuteNameTx", "assert", "ci.Args[1].(string)", 1, "model");  (* explicit Panic outcome in AdmitTotal/Model.v / State.v, unreachable by Theorems.v / TheoremsState.v *)
  ("name.ExecuteNameTx", "index", "ci.Args[0]", 3, "model");  (* explicit Panic outcome in AdmitTotal/Model.v / State.v, unreachable by Theorems.v / TheoremsState.v *)
  ("name.ExecuteNameTx", "index", "ci.Args[1]", 1, "model");  (* explicit Panic outcome in AdmitTotal/Model.v / State.v, unreachable by Theorems.v / TheoremsState.v *)
  ("name.ValidateNameTx", "index", "ci.Args[0]", 1, "model");  (* explicit Panic outcome in AdmitTotal/Model.v / State.v, unreachable by Theorems.v / TheoremsState.v *)
  ("name.ValidateNameTx", "index", "ci.Args[1]", 1, "model");  (* explicit Panic outcome in AdmitTotal/Model.v / State.v, unreachable by Theorems.v / TheoremsState.v *)
  ("name.deserializeNameMap", "index", "data[0]", 1, "model");  (* explicit Panic outcome in AdmitTotal/Model.v / State.v, unreachable by Theorems.v / TheoremsState.v *)
  ("name.deserializeNameMap", "panic", "panic(""could not deserializeOwner, not supported version"")", 1, "model");  (* explicit Panic outcome in AdmitTotal/Model.v / State.v, unreachable by Theorems.v / TheoremsState.v *)
  ("name.deserializeNameMap", "slice", "data[offset:next]", 4, "model");  (* explicit Panic outcome in AdmitTotal/Model.v / State.v, unreachable by Theorems.v / TheoremsState.v *)
  ("system.GetParam", "index", "DefaultParams[proposalID]", 1, "map");  (* Go map index: yields the zero value, cannot panic *)
  ("system.ValidateSystemTx", "index", "proposal.Candidates[i]", 2, "reviewed");  (* the SystemProposal constants have no candidate list *)
  ("system.ValidateSystemTx", "index", "proposal.Candidates[j]", 1, "reviewed");  (* the SystemProposal constants have no candidate list *)
  ("system.ValidateSystemTx", "slice", "ci.Args[1:]", 1, "model");  (* explicit Panic outcome in AdmitTotal/Model.v / State.v, unreachable by Theorems.v / TheoremsState.v *)
  ("system.VoteResult.AddVote", "index", "voteResult.rmap[base58.Encode(key)]", 4, "map");  (* Go map index: yields the zero value, cannot panic *)
  ("system.VoteResult.AddVote", "index", "voteResult.rmap[v]", 4, "map");  (* Go map index: yields the zero value, cannot panic *)
  ("system.VoteResult.AddVote", "indexwrite", "voteResult.rmap[base58.Encode(key)]", 2, "map");  (* write to a map allocated by its constructor (newVoteResult / make / literal): never nil *)
  ("system.VoteResult.AddVote", "indexwrite", "voteResult.rmap[v]", 2, "map");  (* write to a map allocated by its constructor (newVoteResult / make / literal): never nil *)
  ("system.VoteResult.AddVote", "slice", "vote.Candidate[offset : offset+PeerIDLength]", 1, "model");  (* explicit Panic outcome in AdmitTotal/State.v, unreachable by TheoremsState.v *)
  ("system.VoteResult.SubVote", "index", "voteResult.rmap[pkey]", 2, "model");  (* explicit Panic outcome in State.v (the nil *big.Int of a missing key is dereferenced by big.Int.Sub): unreachable on reachable states by the key invariant (TheoremsKeys.v, C14_reachable_executes_full) *)
  ("system.VoteResult.SubVote", "index", "voteResult.rmap[v]", 2, "model");  (* explicit Panic outcome in State.v (the nil *big.Int of a missing key is dereferenced by big.Int.Sub): unreachable on reachable states by the key invariant (TheoremsKeys.v, C14_reachable_executes_full) *)
  ("system.VoteResult.SubVote", "indexwrite", "voteResult.rmap[pkey]", 1, "map");  (* write to a map allocated by its constructor (newVoteResult / make / literal): never nil *)
  ("system.VoteResult.SubVote", "indexwrite", "voteResult.rmap[v]", 1, "map");  (* write to a map allocated by its constructor (newVoteResult / make / literal): never nil *)
  ("system.VoteResult.SubVote", "slice", "vote.Candidate[offset : offset+PeerIDLength]", 1, "model");  (* explicit Panic outcome in AdmitTotal/Model.v / State.v, unreachable by Theorems.v / TheoremsState.v *)
  ("system.VoteResult.Sync", "index", "resultList.Votes[0]", 2, "model");  (* explicit Panic outcome in AdmitTotal/State.v, unreachable by TheoremsState.v *)
  ("system.VoteResult.threshold", "div", "new(big.Int).Div(power, big.NewInt(100))", 1, "model");  (* State.v threshold: divisor 100, and the second divisor is tested for zero first (fixes/F28) *)
  ("system.VoteResult.threshold", "div", "new(big.Int).Div(total, unit)", 1, "model");  (* State.v threshold: divisor 100, and the second divisor is tested for zero first (fixes/F28) *)
  ("system.VoteResult.threshold", "panic", "panic(""failed to get staking total when calculate bp count"")", 1, "reviewed");  (* explicit panic on a state-DB read error *)
  ("system.deserializeStaking", "slice", "data[8:]", 1, "model");  (* same bound as the preceding slice of the function *)
  ("system.deserializeStaking", "slice", "data[:8]", 1, "model");  (* explicit Panic outcome in AdmitTotal/Model.v / State.v, unreachable by Theorems.v / TheoremsState.v *)
  ("system.deserializeVote", "div", "len(candidate) % PeerIDLength", 1, "reviewed");  (* remainder by a non-zero constant *)
  ("system.deserializeVote", "div", "len(data) % PeerIDLength", 1, "reviewed");  (* remainder by a non-zero constant *)
  ("system.deserializeVote", "panic", "panic(""voting data corruption"")", 1, "model");  (* explicit Panic outcome in AdmitTotal/Model.v / State.v, unreachable by Theorems.v / TheoremsState.v *)
  ("system.deserializeVote", "slice", "data[:len(data)-pos]", 1, "reviewed");  (* 0 <= len-pos <= len *)
  ("system.deserializeVote", "slice", "data[len(data)-pos:]", 1, "reviewed");  (* 0 <= len-pos <= len *)
  ("system.deserializeVoteEx", "slice", "data[8 : 8+size]", 1, "model");  (* explicit Panic outcome in AdmitTotal/Model.v / State.v, unreachable by Theorems.v / TheoremsState.v *)
  ("system.deserializeVoteEx", "slice", "data[8+size:]", 1, "model");  (* same bound as the preceding slice of the function *)
  ("system.deserializeVoteEx", "slice", "data[:8]", 1, "model");  (* explicit Panic outcome in AdmitTotal/Model.v / State.v, unreachable by Theorems.v / TheoremsState.v *)
  ("system.deserializeVoteList", "slice", "data[offset : offset+8]", 1, "model");  (* explicit Panic outcome in AdmitTotal/State.v, unreachable by TheoremsState.v *)
  ("system.deserializeVoteList", "slice", "data[offset+8 : end]", 1, "model");  (* explicit Panic outcome in AdmitTotal/State.v, unreachable by TheoremsState.v *)
  ("system.getBucketIdx", "div", "uint8(addr[0]) % vprBucketsMax", 1, "reviewed");  (* in-memory voting power rank (vprt.go; maps allocated by make, container/list holds *votingPower only, sender address non-empty): outside the model, exercised by the engine on fork >= 2 votes *)
  ("system.getBucketIdx", "index", "addr[0]", 1, "reviewed");  (* in-memory voting power rank (vprt.go; maps allocated by make, container/list holds *votingPower only, sender address non-empty): outside the model, exercised by the engine on fork >= 2 votes *)
  ("system.getProposal", "index", "SystemProposal[id]", 1, "map");  (* Go map index: yields the zero value, cannot panic *)
  ("system.loadVoteResult", "index", "voteResult.rmap[base58.Encode(v.Candidate)]", 1, "map");  (* Go map index: yields the zero value, cannot panic *)
  ("system.loadVoteResult", "index", "voteResult.rmap[string(v.Candidate)]", 1, "map");  (* Go map index: yields the zero value, cannot panic *)
  ("system.loadVoteResult", "indexwrite", "voteResult.rmap[base58.Encode(v.Candidate)]", 1, "map");  (* write to a map allocated by its constructor (newVoteResult / make / literal): never nil *)
  ("system.loadVoteResult", "indexwrite", "voteResult.rmap[string(v.Candidate)]", 1, "map");  (* write to a map allocated by its constructor (newVoteResult / make / literal): never nil *)
  ("system.newSysCmd", "index", "cmds[types.GetOpSysTx(context.Call.Name)]", 1, "map");  (* Go map index: yields the zero value, cannot panic *)
  ("system.parameters.getParam", "index", "p.params[proposalID]", 1, "map");  (* Go map index: yields the zero value, cannot panic *)
  ("system.parameters.setNextBlockParam", "index", "p.params[nextBlockParamKey(proposalID)]", 1, "map");  (* Go map index: yields the zero value, cannot panic *)
  ("system.parameters.setNextBlockParam", "indexwrite", "p.params[nextBlockParamKey(proposalID)]", 1, "map");  (* write to a map allocated by its constructor (newVoteResult / make / literal): never nil *)
  ("system.parseIDForProposal", "index", "ci.Args[0]", 1, "model");  (* explicit Panic outcome in AdmitTotal/Model.v / State.v, unreachable by Theorems.v / TheoremsState.v *)
  ("system.remove", "assert", "bu.Remove(e).(*votingPower)", 1, "reviewed");  (* in-memory voting power rank (vprt.go; maps allocated by make, container/list holds *votingPower only, sender address non-empty): outside the model, exercised by the engine on fork >= 2 votes *)
  ("system.toVotingPower", "assert", "e.Value.(*votingPower)", 1, "reviewed");  (* in-memory voting power rank (vprt.go; maps allocated by make, container/list holds *votingPower only, sender address non-empty): outside the model, exercised by the engine on fork >= 2 votes *)
  ("system.topVoters.get", "index", "tv.powers[id]", 1, "reviewed");  (* in-memory voting power rank (vprt.go; maps allocated by make, container/list holds *votingPower only, sender address non-empty): outside the model, exercised by the engine on fork >= 2 votes *)
  ("system.topVoters.getVotingPower", "index", "tv.powers[addr]", 1, "reviewed");  (* in-memory voting power rank (vprt.go; maps allocated by make, container/list holds *votingPower only, sender address non-empty): outside the model, exercised by the engine on fork >= 2 votes *)
  ("system.topVoters.lowest", "assert", "lowest.Value.(*votingPower)", 1, "reviewed");  (* in-memory voting power rank (vprt.go; maps allocated by make, container/list holds *votingPower only, sender address non-empty): outside the model, exercised by the engine on fork >= 2 votes *)
  ("system.topVoters.set", "index", "tv.powers[id]", 1, "reviewed");  (* in-memory voting power rank (vprt.go; maps allocated by make, container/list holds *votingPower only, sender address non-empty): outside the model, exercised by the engine on fork >= 2 votes *)
  ("system.topVoters.set", "indexwrite", "tv.powers[id]", 1, "reviewed");  (* in-memory voting power rank (vprt.go; maps allocated by make, container/list holds *votingPower only, sender address non-empty): outside the model, exercised by the engine on fork >= 2 votes *)
  ("system.votingPower.idBytes", "slice", "vp.id[:]", 1, "reviewed");  (* in-memory voting power rank (vprt.go; maps allocated by make, container/list holds *votingPower only, sender address non-empty): outside the model, exercised by the engine on fork >= 2 votes *)
  ("system.vpr.apply", "index", "updRows[i]", 2, "reviewed");  (* in-memory voting power rank (vprt.go; maps allocated by make, container/list holds *votingPower only, sender address non-empty): outside the model, exercised by the engine on fork >= 2 votes *)
  ("system.vpr.apply", "indexwrite", "updRows[i]", 1, "reviewed");  (* in-memory voting power rank (vprt.go; maps allocated by make, container/list holds *votingPower only, sender address non-empty): outside the model, exercised by the engine on fork >= 2 votes *)
  ("system.vpr.prepare", "index", "v.changes[id]", 3, "reviewed");  (* in-memory voting power rank (vprt.go; maps allocated by make, container/list holds *votingPower only, sender address non-empty): outside the model, exercised by the engine on fork >= 2 votes *)
  ("system.vpr.prepare", "indexwrite", "v.changes[id]", 1, "reviewed");  (* in-memory voting power rank (vprt.go; maps allocated by make, container/list holds *votingPower only, sender address non-empty): outside the model, exercised by the engine on fork >= 2 votes *)
  ("system.vpr.sub", "index", "v.voters.powers[id]", 1, "reviewed");  (* in-memory voting power rank (vprt.go; maps allocated by make, container/list holds *votingPower only, sender address non-empty): outside the model, exercised by the engine on fork >= 2 votes *)
  ("system.vprStore.update", "index", "b.buckets[idx]", 2, "reviewed");  (* in-memory voting power rank (vprt.go; maps allocated by make, container/list holds *votingPower only, sender address non-empty): outside the model, exercised by the engine on fork >= 2 votes *)
  ("system.vprStore.update", "indexwrite", "b.buckets[idx]", 1, "reviewed");  (* in-memory voting power rank (vprt.go; maps allocated by make, container/list holds *votingPower only, sender address non-empty): outside the model, exercised by the engine on fork >= 2 votes *)
  ("system.vprStore.write", "index", "b.buckets[i]", 1, "reviewed");  (* in-memory voting power rank (vprt.go; maps allocated by make, container/list holds *votingPower only, sender address non-empty): outside the model, exercised by the engine on fork >= 2 votes *)
  ("types.ChainIdVersion", "make", "make([]byte, versionByteSize)", 1, "reviewed");  (* constant size *)
  ("types.DecodeAddressBytes", "index", "decodedBytes[0]", 1, "reviewed");  (* inside the DecodeAddress oracle: base58check.Decode returns >= 1 byte *)
  ("types.DecodeAddressBytes", "slice", "decodedBytes[1:]", 1, "reviewed");  (* inside the DecodeAddress oracle: base58check.Decode returns >= 1 byte *)
  ("types.GetOpSysTx", "index", "cmdToOp[vName]", 1, "map");  (* Go map index: yields the zero value, cannot panic *)
  ("types.HashID.Bytes", "slice", "id[:]", 1, "reviewed");  (* slice of a fixed-size array / of a whole slice *)
  ("types.HashID.String", "slice", "id[:]", 1, "reviewed");  (* slice of a fixed-size array / of a whole slice *)
  ("types.LogPeerShort.String", "slice", "pretty[:2]", 1, "reviewed");  (* logging helper, reached only through the name-based over-approximation of x.String() *)
  ("types.LogPeerShort.String", "slice", "pretty[len(pretty)-6:]", 1, "reviewed");  (* logging helper, reached only through the name-based over-approximation of x.String() *)
  ("types.OpSysTx.ID", "slice", "op.String()[prefixLen:]", 1, "reviewed");  (* guarded by the range test; every stringer name starts with the 2-byte prefix Op *)
  ("types.Receipt.marshalBody", "slice", "l[:4]", 8, "reviewed");  (* slice of a fixed-size array / of a whole slice *)
  ("types.Receipt.marshalBodyV2", "slice", "l[:4]", 8, "reviewed");  (* slice of a fixed-size array / of a whole slice *)
  ("types.Receipt.marshalBodyV2", "slice", "l[:]", 1, "reviewed");  (* slice of a fixed-size array / of a whole slice *)
  ("types.ToHashID", "slice", "buf[:]", 1, "reviewed");  (* slice of a fixed-size array / of a whole slice *)
  ("types.validate", "index", "govValidators[string(tx.GetRecipient())]", 1, "map")  (* Go map index: yields the zero value, cannot panic *)
].

Definition site_eqb (a b : string * string * string * nat) : bool :=
  let '(f1, k1, e1, n1) := a in let '(f2, k2, e2, n2) := b in
  String.eqb f1 f2 && String.eqb k1 k2 && String.eqb e1 e2 && Nat.eqb n1 n2.

Definition site_known (x : string * string * string * nat) : bool :=
  existsb (fun m => site_eqb x (fst m)) model_sites.

(** the generated sites that the model does not account for (empty = obligation holds) *)
Definition unknown_sites (gen : list (string * string * string * nat)) := filter (fun x => negb (site_known x)) gen.

(** every transaction type Tx.Validate admits has a case in executeTx's dispatch, and the model's
    lists are the generated ones *)
Definition list_incl (a b : list string) : bool := forallb (fun x => existsb (String.eqb x) b) a.
Definition dispatch_complete (gen_validate gen_exec model_validate model_exec : list string) : bool :=
  list_incl gen_validate gen_exec
  && list_incl gen_validate model_validate && list_incl model_validate gen_validate
  && list_incl gen_exec model_exec && list_incl model_exec gen_exec.

Definition sites_covered (gen : list (string * string * string * nat)) : bool :=
  match unknown_sites gen with [] => true | _ => false end.

(** C14: the run-time panic sites of the admission / governance-execution code that the model
    accounts for, in the vocabulary of the generated inventory Gen/PanicSites.v:
    (function, kind, expression text, number of occurrences), plus how each is accounted for:
      "model"     explicit [Panic] outcome in Model.v, proved unreachable in Theorems.v
      "map"       Go map index (cannot panic)
      "reviewed"  argued by hand (reason in the comment), outside the theorems
    Properties/C14.v proves  Gen.PanicSites.sites  is included in this list (by vm_compute), so
    a new, removed-guard or duplicated site in the Go source is a failing proof obligation. *)
From Coq Require Import String List Bool Arith.
Import ListNotations.
Open Scope string_scope.

Definition model_sites : list (string * string * string * nat * string) := [
  ("enterprise.CcArgument.get", "index", "cc[key]", 1, "map");  (* Go map index: yields the zero value, cannot panic *)
  ("enterprise.CcArgument.getUint64", "index", "cc[key]", 1, "map");  (* Go map index: yields the zero value, cannot panic *)
  ("enterprise.Conf.RemoveValue", "slice", "c.Values[:i]", 1, "reviewed");  (* i ranges over c.Values *)
  ("enterprise.Conf.RemoveValue", "slice", "c.Values[i+1:]", 1, "reviewed");  (* i ranges over c.Values *)
  ("enterprise.Conf.Validate", "index", "strings.Split(v, "":"")[1]", 1, "model");  (* explicit Panic outcome in AdmitTotal/Model.v, unreachable by Theorems.v *)
  ("enterprise.ExecuteEnterpriseTx", "index", "context.ArgsAny[0]", 1, "reviewed");  (* ValidateEnterpriseTx appends exactly one element for changeCluster *)
  ("enterprise.ExecuteEnterpriseTx", "index", "context.Args[0]", 6, "model");  (* explicit Panic outcome in AdmitTotal/Model.v, unreachable by Theorems.v *)
  ("enterprise.ExecuteEnterpriseTx", "index", "context.Call.Args[1]", 1, "model");  (* explicit Panic outcome in AdmitTotal/Model.v, unreachable by Theorems.v *)
  ("enterprise.ExecuteEnterpriseTx", "slice", "context.Admins[:i]", 1, "reviewed");  (* i ranges over context.Admins *)
  ("enterprise.ExecuteEnterpriseTx", "slice", "context.Admins[i+1:]", 1, "reviewed");  (* i ranges over context.Admins *)
  ("enterprise.ValidateChangeCluster", "index", "ci.Args[0]", 2, "model");  (* explicit Panic outcome in AdmitTotal/Model.v, unreachable by Theorems.v *)
  ("enterprise.ValidateEnterpriseTx", "assert", "ci.Args[0].(string)", 1, "model");  (* explicit Panic outcome in AdmitTotal/Model.v, unreachable by Theorems.v *)
  ("enterprise.ValidateEnterpriseTx", "index", "ci.Args[0]", 9, "model");  (* explicit Panic outcome in AdmitTotal/Model.v, unreachable by Theorems.v *)
  ("enterprise.ValidateEnterpriseTx", "index", "ci.Args[1]", 1, "model");  (* explicit Panic outcome in AdmitTotal/Model.v, unreachable by Theorems.v *)
  ("enterprise.ValidateEnterpriseTx", "index", "context.Args[0]", 4, "model");  (* explicit Panic outcome in AdmitTotal/Model.v, unreachable by Theorems.v *)
  ("enterprise.ValidateEnterpriseTx", "index", "context.Args[1]", 4, "model");  (* explicit Panic outcome in AdmitTotal/Model.v, unreachable by Theorems.v *)
  ("enterprise.ValidateEnterpriseTx", "index", "enterpriseKeyDict[strings.ToUpper(ci.Args[0].(string))]", 1, "map");  (* Go map index: yields the zero value, cannot panic *)
  ("enterprise.ValidateEnterpriseTx", "slice", "context.Args[1:]", 1, "model");  (* explicit Panic outcome in AdmitTotal/Model.v, unreachable by Theorems.v *)
  ("enterprise.checkArgs", "index", "ci.Args[0]", 2, "model");  (* explicit Panic outcome in AdmitTotal/Model.v, unreachable by Theorems.v *)
  ("enterprise.checkArgs", "index", "enterpriseKeyDict[key]", 1, "map");  (* Go map index: yields the zero value, cannot panic *)
  ("enterprise.checkArgs", "index", "unique[arg]", 2, "map");  (* Go map index: yields the zero value, cannot panic *)
  ("enterprise.checkRPCPermissions", "index", "values[0]", 1, "reviewed");  (* strings.Split returns >= 1 piece *)
  ("enterprise.deserializeConf", "index", "data[0]", 1, "reviewed");  (* serializeConf always writes >= 1 byte and strings.Split returns >= 1 piece; conf records are kept deserialised in the model *)
  ("enterprise.deserializeConf", "slice", "strings.Split(string(data), ""\\"")[1:]", 1, "reviewed");  (* serializeConf always writes >= 1 byte and strings.Split returns >= 1 piece; conf records are kept deserialised in the model *)
  ("enterprise.getAdmins", "slice", "data[i : i+types.AddressLength]", 1, "model");  (* explicit Panic outcome in AdmitTotal/Model.v, unreachable by Theorems.v *)
  ("name.ExecuteNameTx", "assert", "ci.Args[0].(string)", 3, "model");  (* explicit Panic outcome in AdmitTotal/Model.v, unreachable by Theorems.v *)
  ("name.ExecuteNameTx", "assert", "ci.Args[1].(string)", 1, "model");  (* explicit Panic outcome in AdmitTotal/Model.v, unreachable by Theorems.v *)
  ("name.ExecuteNameTx", "index", "ci.Args[0]", 3, "model");  (* explicit Panic outcome in AdmitTotal/Model.v, unreachable by Theorems.v *)
  ("name.ExecuteNameTx", "index", "ci.Args[1]", 1, "model");  (* explicit Panic outcome in AdmitTotal/Model.v, unreachable by Theorems.v *)
  ("name.ValidateNameTx", "index", "ci.Args[0]", 1, "model");  (* explicit Panic outcome in AdmitTotal/Model.v, unreachable by Theorems.v *)
  ("name.ValidateNameTx", "index", "ci.Args[1]", 1, "model");  (* explicit Panic outcome in AdmitTotal/Model.v, unreachable by Theorems.v *)
  ("name.deserializeNameMap", "index", "data[0]", 1, "model");  (* explicit Panic outcome in AdmitTotal/Model.v, unreachable by Theorems.v *)
  ("name.deserializeNameMap", "panic", "panic(""could not deserializeOwner, not supported version"")", 1, "model");  (* explicit Panic outcome in AdmitTotal/Model.v, unreachable by Theorems.v *)
  ("name.deserializeNameMap", "slice", "data[offset:next]", 4, "model");  (* explicit Panic outcome in AdmitTotal/Model.v, unreachable by Theorems.v *)
  ("system.SystemContext.arg", "index", "ctx.Call.Args[i]", 1, "reviewed");  (* accessor not called on the execution path *)
  ("system.ValidateSystemTx", "index", "proposal.Candidates[i]", 2, "reviewed");  (* the SystemProposal constants have no candidate list *)
  ("system.ValidateSystemTx", "index", "proposal.Candidates[j]", 1, "reviewed");  (* the SystemProposal constants have no candidate list *)
  ("system.ValidateSystemTx", "slice", "ci.Args[1:]", 1, "model");  (* explicit Panic outcome in AdmitTotal/Model.v, unreachable by Theorems.v *)
  ("system.VoteResult.AddVote", "index", "voteResult.rmap[base58.Encode(key)]", 4, "map");  (* Go map index: yields the zero value, cannot panic *)
  ("system.VoteResult.AddVote", "index", "voteResult.rmap[v]", 4, "map");  (* Go map index: yields the zero value, cannot panic *)
  ("system.VoteResult.AddVote", "slice", "vote.Candidate[offset : offset+PeerIDLength]", 1, "model");  (* explicit Panic outcome in AdmitTotal/Model.v, unreachable by Theorems.v *)
  ("system.VoteResult.SubVote", "index", "voteResult.rmap[pkey]", 2, "map");  (* Go map index: yields the zero value, cannot panic *)
  ("system.VoteResult.SubVote", "index", "voteResult.rmap[v]", 2, "map");  (* Go map index: yields the zero value, cannot panic *)
  ("system.VoteResult.SubVote", "slice", "vote.Candidate[offset : offset+PeerIDLength]", 1, "model");  (* explicit Panic outcome in AdmitTotal/Model.v, unreachable by Theorems.v *)
  ("system.VoteResult.Sync", "index", "resultList.Votes[0]", 2, "reviewed");  (* vote-result list (outside the model, exercised by the engine): non-empty after AddVote of >= 1 candidate *)
  ("system.VoteResult.threshold", "panic", "panic(""failed to get staking total when calculate bp count"")", 1, "reviewed");  (* explicit panic on a state-DB read error *)
  ("system.deserializeStaking", "slice", "data[8:]", 1, "model");  (* same bound as the preceding slice of the function *)
  ("system.deserializeStaking", "slice", "data[:8]", 1, "model");  (* explicit Panic outcome in AdmitTotal/Model.v, unreachable by Theorems.v *)
  ("system.deserializeVote", "panic", "panic(""voting data corruption"")", 1, "model");  (* explicit Panic outcome in AdmitTotal/Model.v, unreachable by Theorems.v *)
  ("system.deserializeVote", "slice", "data[:len(data)-pos]", 1, "reviewed");  (* 0 <= len-pos <= len *)
  ("system.deserializeVote", "slice", "data[len(data)-pos:]", 1, "reviewed");  (* 0 <= len-pos <= len *)
  ("system.deserializeVoteEx", "slice", "data[8 : 8+size]", 1, "model");  (* explicit Panic outcome in AdmitTotal/Model.v, unreachable by Theorems.v *)
  ("system.deserializeVoteEx", "slice", "data[8+size:]", 1, "model");  (* same bound as the preceding slice of the function *)
  ("system.deserializeVoteEx", "slice", "data[:8]", 1, "model");  (* explicit Panic outcome in AdmitTotal/Model.v, unreachable by Theorems.v *)
  ("system.deserializeVoteList", "slice", "data[offset : offset+8]", 1, "reviewed");  (* vote-result list written by serializeVoteList (outside the model, exercised by the engine) *)
  ("system.deserializeVoteList", "slice", "data[offset+8 : end]", 1, "reviewed");  (* vote-result list written by serializeVoteList (outside the model, exercised by the engine) *)
  ("system.loadVoteResult", "index", "voteResult.rmap[base58.Encode(v.Candidate)]", 1, "map");  (* Go map index: yields the zero value, cannot panic *)
  ("system.loadVoteResult", "index", "voteResult.rmap[string(v.Candidate)]", 1, "map");  (* Go map index: yields the zero value, cannot panic *)
  ("system.newSysCmd", "index", "cmds[types.GetOpSysTx(context.Call.Name)]", 1, "map");  (* Go map index: yields the zero value, cannot panic *)
  ("system.newVoteCmd", "assert", "ctx.Call.Args[0].(string)", 1, "model");  (* explicit Panic outcome in AdmitTotal/Model.v, unreachable by Theorems.v *)
  ("system.newVoteCmd", "assert", "ctx.Call.Args[1].(string)", 1, "model");  (* explicit Panic outcome in AdmitTotal/Model.v, unreachable by Theorems.v *)
  ("system.newVoteCmd", "index", "ctx.Call.Args[0]", 1, "model");  (* explicit Panic outcome in AdmitTotal/Model.v, unreachable by Theorems.v *)
  ("system.newVoteCmd", "index", "ctx.Call.Args[1]", 1, "model");  (* explicit Panic outcome in AdmitTotal/Model.v, unreachable by Theorems.v *)
  ("system.newVoteCmd", "slice", "ctx.Call.Args[1:]", 1, "model");  (* explicit Panic outcome in AdmitTotal/Model.v, unreachable by Theorems.v *)
  ("system.parseIDForProposal", "index", "ci.Args[0]", 1, "model");  (* explicit Panic outcome in AdmitTotal/Model.v, unreachable by Theorems.v *)
  ("types.DecodeAddressBytes", "index", "decodedBytes[0]", 1, "reviewed");  (* inside the DecodeAddress oracle: base58check.Decode returns >= 1 byte *)
  ("types.DecodeAddressBytes", "slice", "decodedBytes[1:]", 1, "reviewed");  (* inside the DecodeAddress oracle: base58check.Decode returns >= 1 byte *)
  ("types.ValidateSystemTx", "index", "unique[encoded]", 4, "map");  (* Go map index: yields the zero value, cannot panic *)
  ("types._validateNameTx", "index", "ci.Args[0]", 1, "model");  (* explicit Panic outcome in AdmitTotal/Model.v, unreachable by Theorems.v *)
  ("types.validate", "index", "govValidators[string(tx.GetRecipient())]", 1, "map");  (* Go map index: yields the zero value, cannot panic *)
  ("types.validateNameTx", "index", "ci.Args[0]", 1, "model");  (* explicit Panic outcome in AdmitTotal/Model.v, unreachable by Theorems.v *)
  ("types.validateNameTx", "index", "ci.Args[1]", 1, "model")  (* explicit Panic outcome in AdmitTotal/Model.v, unreachable by Theorems.v *)
].

Definition site_eqb (a b : string * string * string * nat) : bool :=
  let '(f1, k1, e1, n1) := a in let '(f2, k2, e2, n2) := b in
  String.eqb f1 f2 && String.eqb k1 k2 && String.eqb e1 e2 && Nat.eqb n1 n2.

Definition site_known (x : string * string * string * nat) : bool :=
  existsb (fun m => site_eqb x (fst m)) model_sites.

(** the generated sites that the model does not account for (empty = obligation holds) *)
Definition unknown_sites (gen : list (string * string * string * nat)) := filter (fun x => negb (site_known x)) gen.

Definition sites_covered (gen : list (string * string * string * nat)) : bool :=
  match unknown_sites gen with [] => true | _ => false end.

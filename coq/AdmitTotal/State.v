(** C14 — the state-writing part of governance execution: (de)serialisers of the stored staking,
    vote, vote-result-list and name-map records, the vote tally update of VoteResult
    (loadVoteResult / SubVote / AddVote / Sync) and what cmd.run writes, with explicit Panic
    outcomes; the global contract state and the step relation "one executed governance
    transaction".  Mirrors contract/system/{staking.go, vote.go, voteresult.go} (after
    fixes/F28, F29) and contract/name/name.go (serializeNameMap, registerOwner).
    No proofs in this file. *)
From Coq Require Import ZArith NArith List Bool String.
From Verif Require Import AdmitTotal.Base AdmitTotal.Model.
Import ListNotations.
Open Scope string_scope.
Open Scope list_scope.

(* ------------------------------------------------------------------ serialisers *)
(** binary.LittleEndian.PutUint64: [k] bytes of [n mod 256^k] *)
Fixpoint le_fixed (k : nat) (n : N) : str :=
  match k with O => [] | S k' => N.modulo n 256 :: le_fixed k' (N.div n 256) end.
Definition le64 (n : N) : str := le_fixed 8 n.

(** big.Int.Bytes(): big-endian magnitude, no leading zero, sign dropped *)
Fixpoint le_bytes_fuel (fuel : nat) (n : N) : str :=
  match fuel with
  | O => []
  | S f => if N.eqb n 0 then [] else N.modulo n 256 :: le_bytes_fuel f (N.div n 256)
  end.
Definition be_bytes (z : Z) : str :=
  let n := Z.to_N (Z.abs z) in rev (le_bytes_fuel (N.to_nat (N.size n)) n).

Definition len64 (x : str) : str := le64 (N.of_nat (List.length x)).

Definition ser_staking (when : N) (amount : str) : str := le64 when ++ amount.
Definition ser_vote_bp (cand amount : str) : str := cand ++ amount.
Definition ser_vote_ex (cand amount : str) : str := len64 cand ++ cand ++ amount.
Definition ser_vote (ex : bool) (cand amount : str) : str :=
  if ex then ser_vote_ex cand amount else ser_vote_bp cand amount.
Definition ser_entry (e : str) : str := len64 e ++ e.
Definition ser_list (es : list str) : str := flat_map ser_entry es.
(** serializeNameMap (version 1) *)
Definition ser_name_map (owner dest : str) : str := (1%N :: len64 owner) ++ owner ++ len64 dest ++ dest.

(* ------------------------------------------------------------------ deserialisers *)
(** deserializeVote: candidates = the longest prefix that is a multiple of 39 bytes *)
Definition de_vote_bp (data : str) : str * str :=
  let n := (List.length data - Nat.modulo (List.length data) PeerIDLength)%nat in (firstn n data, skipn n data).

(** deserializeVoteEx *)
Definition de_vote_ex (data : str) : out (str * str) :=
  if Nat.ltb (List.length data) 8 then Panic ("system.deserializeVoteEx", "slice", "data[:8]") else
  let size := N.to_nat (le_val (firstn 8 data)) in
  if Nat.ltb (List.length data) (8 + size) then Panic ("system.deserializeVoteEx", "slice", "data[8 : 8+size]")
  else Ok (firstn size (skipn 8 data), skipn (8 + size) data).

Definition de_vote (ex : bool) (data : str) : out (str * str) :=
  if ex then de_vote_ex data else Ok (de_vote_bp data).

(** deserializeVoteList: [for offset := 0; offset < len(data); offset = end] *)
Fixpoint de_list (fuel : nat) (data : str) : out (list str) :=
  match data with
  | [] => Ok []
  | _ =>
      match fuel with
      | O => Ok []
      | S f =>
          if Nat.ltb (List.length data) 8 then Panic ("system.deserializeVoteList", "slice", "data[offset : offset+8]") else
          let size := N.to_nat (le_val (firstn 8 data)) in
          if Nat.ltb (List.length data) (8 + size) then Panic ("system.deserializeVoteList", "slice", "data[offset+8 : end]") else
          rest <- de_list f (skipn (8 + size) data) ;;
          Ok (firstn size (skipn 8 data) :: rest)
      end
  end.

Fixpoint chunks_of (n fuel : nat) (data : str) : list str :=
  match fuel with
  | O => []
  | S f => match data with [] => [] | _ => firstn n data :: chunks_of n f (skipn n data) end
  end.

(** big.Int.Div panics on a zero divisor *)
Definition go_div (p : site) (a b : Z) : out Z := if Z.eqb b 0 then Panic p else Ok (Z.div a b).

(** VoteResult.threshold (with fixes/F28): does the winning tally reach 2/3 of the total stake *)
Definition threshold (power total : Z) : out bool :=
  if Z.eqb power 0 then Ok false else
  unit <- go_div ("system.VoteResult.threshold", "div", "new(big.Int).Div(power, big.NewInt(100))") power 100 ;;
  if Z.eqb unit 0 then Ok false else
  q <- go_div ("system.VoteResult.threshold", "div", "new(big.Int).Div(total, unit)") total unit ;;
  Ok (Z.leb q 150).

(* ------------------------------------------------------------------ the vote tally *)
Definition tally := list (str * Z).     (* VoteResult.rmap *)

Fixpoint set_tally (k : str) (v : Z) (t : tally) : tally :=
  match t with
  | [] => [(k, v)]
  | (k', v') :: t' => if str_eqb k k' then (k, v) :: t' else (k', v') :: set_tally k v t'
  end.

Section Run.
  Variable to_upper : str -> str.
  Variable b58dec : str -> str.                       (* base58.Decode result (nil on error) *)
  Variable jmarshal : list json -> str.               (* json.Marshal(ctx.Call.Args[1:]) *)
  Variable junmarshal : str -> option (list str).     (* json.Unmarshal(vote.Candidate, &[]string) *)

  Fixpoint load_entries (ex : bool) (es : list str) (t : tally) : out tally :=
    match es with
    | [] => Ok t
    | e :: es' => v <- de_vote ex e ;; load_entries ex es' (set_tally (fst v) (be_val (snd v)) t)
    end.

  (** loadVoteResult *)
  Definition load_result (ex : bool) (raw : str) : out tally :=
    es <- de_list (List.length raw) raw ;; load_entries ex es [].

  (** the rmap keys a vote names *)
  Definition vote_keys (ex : bool) (cand : str) : out (list str) :=
    if ex then match junmarshal cand with Some l => Ok l | None => Err EJson end
    else Ok (chunks_of PeerIDLength (List.length cand) cand).

  (** SubVote: [rmap[k] = new(big.Int).Sub(rmap[k], amount)]; a missing key yields a nil *big.Int
      and big.Int.Sub dereferences it *)
  Fixpoint sub_keys (fn : string) (ks : list str) (amt : Z) (t : tally) : out tally :=
    match ks with
    | [] => Ok t
    | k :: ks' =>
        match assoc k t with
        | None => Panic (fn, "index", "voteResult.rmap[v]")
        | Some a => sub_keys fn ks' amt (set_tally k (a - amt)%Z t)
        end
    end.

  Fixpoint add_keys (ks : list str) (amt : Z) (t : tally) : tally :=
    match ks with
    | [] => t
    | k :: ks' => add_keys ks' amt (set_tally k ((match assoc k t with Some a => a | None => 0%Z end) + amt)%Z t)
    end.

  (** updateVoteResult / the body of refreshAllVote's loop: load, SubVote(old), AddVote(new),
      Sync ([resultList.Votes[0]] for a proposal issue) *)
  Definition update_result (ex : bool) (raw : str) (old : option (str * str)) (newv : str * str) : out tally :=
    t0 <- load_result ex raw ;;
    t1 <- (match old with
           | None => Ok t0
           | Some (c, a) => ks <- vote_keys ex c ;; sub_keys "system.VoteResult.SubVote" ks (be_val a) t0
           end) ;;
    ks <- vote_keys ex (fst newv) ;;
    let t2 := add_keys ks (be_val (snd newv)) t1 in
    if ex then match t2 with
               | [] => Panic ("system.VoteResult.Sync", "index", "resultList.Votes[0]")
               | _ => Ok t2
               end
    else Ok t2.

  (** buildVoteList + serializeVoteList (order of the stored list: see Eval, compared as a multiset) *)
  Definition store_result (ex : bool) (t : tally) : str :=
    ser_list (map (fun kv => ser_vote ex (fst kv) (be_bytes (snd kv))) t).

  Definition issue_bp : str := s "voteBP".
  Definition issue_is_ex (key : str) : bool := negb (str_eqb key issue_bp).

  (** the raw records the run reads besides the sender's own (sysview): vote-result lists by issue key *)
  Record runview := mkRun { rv_results : list (str * str) }.
  Definition result_raw (rv : runview) (key : str) : str :=
    match assoc key (rv_results rv) with Some r => r | None => [] end.

  (** what an executed system transaction writes *)
  Record sysupd := mkUpd {
    u_staking : option str;
    u_changes : list (str * str * str) }.   (* issue key, new raw vote of the sender, new raw vote-result list *)
  Definition u_votes (u : sysupd) : list (str * str) := map (fun c => (fst (fst c), snd (fst c))) (u_changes u).
  Definition u_results (u : sysupd) : list (str * str) := map (fun c => (fst (fst c), snd c)) (u_changes u).

  Definition old_vote (ex : bool) (raw : str) : out (option (str * str)) :=
    match raw with [] => Ok None | _ => v <- de_vote ex raw ;; Ok (Some v) end.

  Definition vote_raw_of (sv : sysview) (key : str) : str :=
    if str_eqb key issue_bp then sv_vote_bp_raw sv else dao_vote_raw sv key.

  Fixpoint bp_candidate (args : list json) : str :=
    match args with
    | [] => []
    | v :: rest => (match as_str v with Some enc => b58dec enc | None => [] end) ++ bp_candidate rest
    end.

  (** voteCmd.run after newVoteCmd *)
  Definition vote_run (ci : callinfo) (key : str) (sv : sysview) (rv : runview) : out sysupd :=
    let ex := issue_is_ex key in
    let amount := skipn 8 (sv_staking_raw sv) in           (* staked.GetAmount() *)
    let cand := if ex then jmarshal (skipn 1 (ci_args ci)) else bp_candidate (ci_args ci) in
    old <- old_vote ex (vote_raw_of sv key) ;;
    t <- update_result ex (result_raw rv key) old (cand, amount) ;;
    Ok (mkUpd (Some (ser_staking (Z.to_N (sv_block sv)) amount))
              [(key, ser_vote ex cand amount, store_result ex t)]).

  (** refreshAllVote: for every issue of the catalog whose recorded vote exceeds the new stake *)
  Fixpoint refresh_run (keys : list str) (staked : Z) (amount : str) (sv : sysview) (rv : runview)
           (acc : sysupd) : out sysupd :=
    match keys with
    | [] => Ok acc
    | key :: rest =>
        let ex := issue_is_ex key in
        old <- old_vote ex (vote_raw_of sv key) ;;
        match old with
        | None => refresh_run rest staked amount sv rv acc
        | Some (c, a) =>
            if Z.leb (be_val a) staked then refresh_run rest staked amount sv rv acc else
            t <- update_result ex (result_raw rv key) (Some (c, a)) (c, amount) ;;
            refresh_run rest staked amount sv rv
              (mkUpd (u_staking acc) ((key, ser_vote ex c amount, store_result ex t) :: u_changes acc))
        end
    end.

  Definition catalog : list str := issue_bp :: sys_param_ids.

  (** cmd.run of the four commands, given the context of a successful ValidateSystemTx *)
  Definition system_run (ci : callinfo) (cx : sysctx) (amount : Z) (sv : sysview) (rv : runview) : out sysupd :=
    st <- get_staking (sv_staking_raw sv) ;;
    let '(_, _, staked) := st in
    match cx_op cx with
    | OpStake =>
        Ok (mkUpd (Some (ser_staking (Z.to_N (sv_block sv)) (be_bytes (staked + amount)))) [])
    | OpUnstake =>
        let adj := if Z.ltb staked amount then staked else amount in
        let newamt := be_bytes (staked - adj) in
        refresh_run catalog (staked - adj) newamt sv rv
          (mkUpd (Some (ser_staking (Z.to_N (sv_block sv)) newamt)) [])
    | OpVoteBP => vote_run ci issue_bp sv rv
    | OpVoteDAO =>
        match ci_args ci with
        | JStr id :: _ => vote_run ci (to_upper id) sv rv      (* proposal.GetKey() *)
        | _ => Err EInvalidId
        end
    end.

  (* ---------------------------------------------------------------- contract/name writes *)
  (** the name-map entry ExecuteNameTx registers (registerOwner): (name, raw record).  For
      v1updateName the owner is the destination or the creator recorded in the destination
      contract's meta data: an input [owner_choice] of the step. *)
  Definition name_run (decode_address : str -> option str) (t : tx) (nv : nameview) (sender owner_choice : str)
    : option (str * str) :=
    match tx_ci t with
    | Some ci =>
        match ci_args ci with
        | JStr nameArg :: rest =>
            if str_eqb (ci_name ci) (s "v1createName") then Some (nameArg, ser_name_map sender sender)
            else if str_eqb (ci_name ci) (s "v1updateName") then
              match rest with
              | JStr toArg :: _ =>
                  let d := match decode_address toArg with Some a => a | None => [] end in
                  let dest :=
                    if Nat.eqb (List.length d) AddressLength || is_special d then d
                    else match get_name_map0 nv d with Ok (Some (_, x)) => x | _ => [] end in
                  Some (nameArg, ser_name_map owner_choice dest)
              | _ => None
              end
            else if str_eqb (ci_name ci) (s "v1setOwner") then
              match decode_address nameArg with
              | Some a => Some (c_aergo_name, ser_name_map a c_aergo_name)
              | None => None
              end
            else None
        | _ => None
        end
    | None => None
    end.
End Run.

(* ------------------------------------------------------------------ enterprise conf records *)
(** strings.Split(string(data), "\\"): the pieces between separator bytes 92 (always >= 1 piece) *)
Fixpoint split92 (data : str) : list str :=
  match data with
  | [] => [[]]
  | x :: r =>
      if N.eqb x 92 then [] :: split92 r
      else match split92 r with h :: t => (x :: h) :: t | [] => [[x]] end
  end.

(** deserializeConf: On = (data[0] == 1), Values = Split(data, "\\")[1:] *)
Definition de_conf (data : str) : bool * list str :=
  (match data with x :: _ => N.eqb x 1 | [] => false end, tl (split92 data)).

(** serializeConf: one flag byte, then every value preceded by the separator *)
Definition ser_conf (c : bool * list str) : str :=
  (if fst c then 1%N else 0%N) :: flat_map (fun v => 92%N :: v) (snd c).

Definition sepfree (v : str) : bool := negb (existsb (N.eqb 92) v).
Definition conf_sepfree (c : bool * list str) : bool := forallb sepfree (snd c).
Definition ent_sepfree (ev : entview) : bool := forallb (fun kc => conf_sepfree (snd kc)) (ev_confs ev).

(** the enterprise state as read from the raw stored conf records (by upper-case key) *)
Definition ent_of_raw (sender admins : str) (raw_confs : list (str * str)) (cc : bool) : entview :=
  mkEnt sender admins (map (fun kr => (fst kr, de_conf (snd kr))) raw_confs) cc.

(* ------------------------------------------------------------------ global state, one step *)
(** the governance contract storage that the panic sites read *)
Record gstate := mkG {
  g_staking : list (str * str);                 (* account -> raw staking record *)
  g_votes : list (str * list (str * str));      (* issue key -> account -> raw vote *)
  g_results : list (str * str);                 (* issue key -> raw vote-result list *)
  g_names : list (str * str);                   (* name -> raw name map *)
  g_names0 : list (str * str);                  (* the same at the start of the current block *)
  g_ent : entview }.

Definition lookup_raw (k : str) (l : list (str * str)) : str := match assoc k l with Some r => r | None => [] end.
Definition votes_of (g : gstate) (key : str) : list (str * str) :=
  match assoc key (g_votes g) with Some l => l | None => [] end.

(** what a step needs besides the state: block number, fork version, balances, parameters *)
Record stepenv := mkStep { se_fork : Z; se_block : Z; se_balance : Z; se_staking_min : Z; se_name_price : Z }.

Definition sys_view (g : gstate) (acct : str) (se : stepenv) : sysview :=
  mkSys (se_fork se) (se_block se) (se_balance se) (lookup_raw acct (g_staking g))
        (lookup_raw acct (votes_of g issue_bp))
        (map (fun id => (id, lookup_raw acct (votes_of g id))) sys_param_ids)
        (se_staking_min se).
Definition run_view (g : gstate) : runview := mkRun (g_results g).
Definition name_view (g : gstate) (se : stepenv) : nameview :=
  mkName (se_balance se) (se_name_price se) (g_names g) (g_names0 g).

Fixpoint set_raw (k : str) (v : str) (l : list (str * str)) : list (str * str) :=
  match l with
  | [] => [(k, v)]
  | (k', v') :: l' => if str_eqb k k' then (k, v) :: l' else (k', v') :: set_raw k v l'
  end.
Fixpoint set_votes (key acct raw : str) (l : list (str * list (str * str))) : list (str * list (str * str)) :=
  match l with
  | [] => [(key, [(acct, raw)])]
  | (k', m) :: l' => if str_eqb key k' then (key, set_raw acct raw m) :: l' else (k', m) :: set_votes key acct raw l'
  end.

(** one issue: the sender's vote record and the issue's result list are rewritten together *)
Definition apply1 (acct : str) (c : str * str * str) (g : gstate) : gstate :=
  mkG (g_staking g) (set_votes (fst (fst c)) acct (snd (fst c)) (g_votes g)) (set_raw (fst (fst c)) (snd c) (g_results g))
      (g_names g) (g_names0 g) (g_ent g).

Definition set_staking (acct : str) (o : option str) (g : gstate) : gstate :=
  mkG (match o with Some r => set_raw acct r (g_staking g) | None => g_staking g end)
      (g_votes g) (g_results g) (g_names g) (g_names0 g) (g_ent g).

Definition apply_upd (g : gstate) (acct : str) (u : sysupd) : gstate :=
  fold_right (apply1 acct) (set_staking acct (u_staking u) g) (u_changes u).

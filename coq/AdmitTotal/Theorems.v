(** C14: pool admission and governance execution never panic (closed statements used by Properties/C14.v). *)
From Coq Require Import ZArith NArith List Bool String Lia.
From Verif Require Import AdmitTotal.Base AdmitTotal.Model.
From Verif Require Import AdmitTotal.ProofsBase AdmitTotal.ProofsSystem AdmitTotal.ProofsName AdmitTotal.ProofsEntValidate AdmitTotal.ProofsEntExec.
Import ListNotations.

Section Final.
  Variable to_upper : str -> str.
  Variable decode_address : str -> option str.
  Variable encode_address : str -> str.
  Variable b58 : str -> option (nat * bool).
  Variable parse_big : str -> option Z.
  Variable allowed_name : str -> bool.
  Variable list_entry_ok : str -> bool.
  Variable rpc_parts : str -> nat.
  Variable rpc_b64_ok : str -> bool.
  Variable rpc_has_w : str -> bool.
  Variable cc_peer_ok : str -> bool.
  Variable cc_addr_ok : str -> bool.
  Variable cc_hex_ok : str -> bool.

  Notation ent_validate := (ent_validate to_upper decode_address encode_address list_entry_ok rpc_parts rpc_b64_ok rpc_has_w cc_peer_ok cc_addr_ok cc_hex_ok).
  Notation ent_exec := (ent_exec to_upper decode_address encode_address list_entry_ok rpc_parts rpc_b64_ok rpc_has_w cc_peer_ok cc_addr_ok cc_hex_ok).
  Notation state_wf := (state_wf rpc_parts).
  Notation tx_validate := (tx_validate decode_address b58 allowed_name).
  Notation admission := (admission to_upper decode_address encode_address b58 parse_big allowed_name list_entry_ok rpc_parts rpc_b64_ok rpc_has_w cc_peer_ok cc_addr_ok cc_hex_ok).
  Notation stateful_validate := (stateful_validate to_upper decode_address encode_address parse_big list_entry_ok rpc_parts rpc_b64_ok rpc_has_w cc_peer_ok cc_addr_ok cc_hex_ok).
  Notation exec_gov := (exec_gov to_upper decode_address encode_address b58 parse_big allowed_name list_entry_ok rpc_parts rpc_b64_ok rpc_has_w cc_peer_ok cc_addr_ok cc_hex_ok).

  Lemma state_wf_parts : forall st, state_wf st = true ->
    sys_wf (st_sys st) = true /\ name_wf (st_name st) = true /\ ent_wf rpc_parts (st_ent st) = true.
  Proof.
    intros st H. unfold Model.state_wf in H. apply andb_true_iff in H. destruct H as [H H3].
    apply andb_true_iff in H. tauto.
  Qed.

  Lemma np_stateful_validate : forall e t st, state_wf st = true -> np (stateful_validate e t st).
  Proof.
    intros e t st H. destruct (state_wf_parts _ H) as (H1 & H2 & H3). unfold Model.stateful_validate.
    destruct (tx_type t); try reflexivity.
    destruct (str_eqb (tx_recipient t) c_aergo_system).
    { apply np_bind; [apply system_validate_total; auto | reflexivity]. }
    destruct (str_eqb (tx_recipient t) c_aergo_name).
    { apply np_bind; [apply name_validate_total; auto | reflexivity]. }
    destruct (str_eqb (tx_recipient t) c_aergo_enterprise); [|reflexivity].
    apply np_bind; [apply ent_validate_total; auto | reflexivity].
  Qed.

  (** pool admission (verifyTx, then validateTx) never panics *)
  Theorem admission_np : forall e t st, state_wf st = true -> np (admission e t st).
  Proof.
    intros e t st H. unfold Model.admission. apply np_bind; [apply tx_validate_total|].
    intros _ _. apply np_stateful_validate; auto.
  Qed.

  Lemma tx_validate_gov_system : forall e t u, tx_validate e t = Ok u -> tx_type t = TGov ->
    str_eqb (tx_recipient t) c_aergo_system = true -> types_validate_system b58 (tx_ci t) = Ok tt.
  Proof.
    intros e t u. unfold Model.tx_validate.
    repeat match goal with |- (if ?c then _ else _) = _ -> _ => destruct c; [intro X; discriminate X|] end.
    intros E Ht Hr. rewrite Ht in E.
    destruct (Nat.eqb (tx_payload_len t) 0); [discriminate E|].
    unfold types_validate_gov in E. rewrite Hr in E. destruct (use_dpos e); [|discriminate E].
    destruct (types_validate_system b58 (tx_ci t)) as [[]|?|?]; try discriminate E. reflexivity.
  Qed.

  (** Tx.Validate rejects every transaction type that has no case in executeTx's dispatch *)
  Lemma tx_validate_type : forall e t u, tx_validate e t = Ok u -> tx_type t <> TOther.
  Proof.
    intros e t u. unfold Model.tx_validate.
    repeat match goal with |- (if ?c then _ else _) = _ -> _ => destruct c; [intro X; discriminate X|] end.
    intros E Ht. rewrite Ht in E. discriminate E.
  Qed.

  (** executeTx never panics (it validates first): governance execution, and the type dispatch *)
  Theorem exec_gov_np : forall e t st, state_wf st = true -> np (exec_gov e t st).
  Proof.
    intros e t st H. destruct (state_wf_parts _ H) as (H1 & H2 & H3). unfold Model.exec_gov.
    apply np_bind; [apply tx_validate_total|]. intros u Hv.
    destruct (tx_type t) eqn:Ht; try reflexivity; [| exfalso; eapply tx_validate_type; eauto].
    destruct (str_eqb (tx_recipient t) c_aergo_system) eqn:Hs.
    { eapply system_exec_total; eauto using tx_validate_gov_system. }
    destruct (str_eqb (tx_recipient t) c_aergo_name).
    { apply name_exec_total; auto. }
    destruct (str_eqb (tx_recipient t) c_aergo_enterprise); [|reflexivity].
    apply np_bind; [|reflexivity]. apply ent_exec_total; auto.
  Qed.
End Final.

(** Closed forms (all string functions universally quantified). *)
Theorem validate_total :
  forall to_upper decode_address encode_address b58 parse_big allowed_name list_entry_ok rpc_parts rpc_b64_ok
         rpc_has_w cc_peer_ok cc_addr_ok cc_hex_ok e t st,
  state_wf rpc_parts st = true ->
  forall p, admission to_upper decode_address encode_address b58 parse_big allowed_name list_entry_ok rpc_parts
              rpc_b64_ok rpc_has_w cc_peer_ok cc_addr_ok cc_hex_ok e t st <> Panic p.
Proof. intros. apply np_not_panic. apply admission_np. assumption. Qed.

Theorem tx_validate_never_panics :
  forall decode_address b58 allowed_name e t p, tx_validate decode_address b58 allowed_name e t <> Panic p.
Proof. intros. apply np_not_panic. apply tx_validate_total. Qed.

Theorem exec_total :
  forall to_upper decode_address encode_address b58 parse_big allowed_name list_entry_ok rpc_parts rpc_b64_ok
         rpc_has_w cc_peer_ok cc_addr_ok cc_hex_ok e t st,
  state_wf rpc_parts st = true ->
  forall p, exec_gov to_upper decode_address encode_address b58 parse_big allowed_name list_entry_ok rpc_parts
              rpc_b64_ok rpc_has_w cc_peer_ok cc_addr_ok cc_hex_ok e t st <> Panic p.
Proof. intros. apply np_not_panic. apply exec_gov_np. assumption. Qed.

(** a transaction admitted to the pool against state [st] executes without panic against any
    well-formed state [st'] (the state at execution time is not the state at admission time) *)
Theorem admitted_executes :
  forall to_upper decode_address encode_address b58 parse_big allowed_name list_entry_ok rpc_parts rpc_b64_ok
         rpc_has_w cc_peer_ok cc_addr_ok cc_hex_ok e t st st',
  state_wf rpc_parts st' = true ->
  admission to_upper decode_address encode_address b58 parse_big allowed_name list_entry_ok rpc_parts
            rpc_b64_ok rpc_has_w cc_peer_ok cc_addr_ok cc_hex_ok e t st = Ok tt ->
  forall p, exec_gov to_upper decode_address encode_address b58 parse_big allowed_name list_entry_ok rpc_parts
              rpc_b64_ok rpc_has_w cc_peer_ok cc_addr_ok cc_hex_ok e t st' <> Panic p.
Proof. intros. apply exec_total. assumption. Qed.

Theorem enterprise_state_wf_preserved :
  forall to_upper decode_address encode_address list_entry_ok rpc_parts rpc_b64_ok rpc_has_w cc_peer_ok cc_addr_ok
         cc_hex_ok e oci ev ev',
  ent_wf rpc_parts ev = true ->
  ent_exec to_upper decode_address encode_address list_entry_ok rpc_parts rpc_b64_ok rpc_has_w cc_peer_ok
           cc_addr_ok cc_hex_ok e oci ev = Ok ev' ->
  ent_wf rpc_parts ev' = true.
Proof. intros. eapply ent_exec_total; eauto. Qed.
